(* C09All.v — predict returns the first arg-max of what predict_expectations returns, from the same state and the
   same generator position, for EVERY policy combination except TreeBandit + EpsilonGreedy (whose exploration step
   exists only inside predict).  Rows with an empty neighbourhood are the property's exception: there the
   expectations are all NaN (None) and the arm comes from the empty-neighbourhood distribution. *)
From Coq Require Import ZArith List Bool Lia.
From MW Require Import Num Assoc AssocFacts Rng Par CF CFInv Matrix Lin Warm Nbr Clu Tree Mab FacadeCF.
Import ListNotations.

Section C09All.
Context {R A G : Type} (N : Num R) (aeqb : A -> A -> bool) (RG : RngOps R G).

Notation mab := (@mab R A G).
Notation out := (@out R A).
Notation imp := (@imp R A G).
Notation res := (option A + list (A * option R))%type.

Definition unsome (d : list (A * option R)) : list (A * R) :=
  flat_map (fun kv => match snd kv with Some v => [(fst kv, v)] | None => [] end) d.
Definition nan_row (d : list (A * option R)) : Prop := Forall (fun kv => snd kv = None) d.

(* one row: the prediction is the first arg-max of the expectations, or the expectations are all NaN *)
Definition row_agree (a : option A) (d : list (A * option R)) : Prop := a = argmax_first N (unsome d) \/ nan_row d.
Definition rel (r1 r2 : res) : Prop :=
  match r1, r2 with inl a, inr d => row_agree a d | _, _ => False end.

Definition out_agree (o1 o2 : out) : Prop :=
  match o1, o2 with
  | ORejected, ORejected => True
  | OArm a, OExp d => row_agree a d
  | OArms l, OExps l' => Forall2 row_agree l l'
  | _, _ => False
  end.

Lemma unsome_map (e : list (A * R)) : unsome (map (fun kv => (fst kv, Some (snd kv))) e) = e.
Proof. unfold unsome. induction e as [|[k v] t IH]; simpl; [reflexivity | rewrite IH; reflexivity]. Qed.

Lemma shapes_agree (l1 l2 : list res) : Forall2 rel l1 l2 -> out_agree (shape_arms (lefts l1)) (shape_exps (rights l2)).
Proof.
  intros H.
  assert (H2 : Forall2 row_agree (lefts l1) (rights l2)).
  { induction H as [|r1 r2 t1 t2 Hr Ht IH]; simpl; [constructor|]. constructor; [|exact IH].
    destruct r1 as [a|d1]; destruct r2 as [a2|d]; simpl in Hr; try contradiction. exact Hr. }
  unfold shape_arms, shape_exps. inversion H2 as [|a d ta td Ha Ht E1 E2]; simpl; [constructor|].
  inversion Ht as [|a' d' ta' td' Ha' Ht' E3 E4]; simpl; [exact Ha|]. subst. constructor; [exact Ha|]. constructor; assumption.
Qed.

(* ---- neighbourhood policies -------------------------------------------------------------------------- *)
Definition orel (x y : option (res * @lp R A G)) : Prop :=
  match x, y with
  | None, None => True
  | Some (r1, l1), Some (r2, l2) => l1 = l2 /\ rel r1 r2
  | _, _ => False
  end.

(* the empty-neighbourhood distribution still has one entry per arm (it always has when no_nhood_prob_of_arm is None;
   add_arm / remove_arm do not resize a given list: finding D24, predict then raises where predict_expectations answers) *)
Definition nbr_app (s : @nbr R A G) : Prop := nan_row (n_exp s) /\ nnprob_len_ok s = true.

Lemma nbr_row_agree (s : @nbr R A G) l seed row orc :
  nbr_app s -> orel (nbr_row N aeqb RG s l seed row orc true) (nbr_row N aeqb RG s l seed row orc false).
Proof.
  intros [Hnan Hlen]. unfold nbr_row. destruct (neighborhood N s row orc) as [idx|]; [|exact I].
  destruct idx as [|i idx].
  - rewrite Hlen. cbn [negb]. destruct (draw_z RG (create RG seed) (RqChoice (length (n_arms s)) (n_nnprob s))) as [v g']. simpl. split; [reflexivity|]. right. exact Hnan.
  - destruct (lp_fit N aeqb l (create RG seed) _ _ _) as [l1 ok]. destruct ok; simpl; [|exact I].
    destruct (lp_expectations1 N aeqb RG l1 (create RG seed) row) as [[e l2] g2]. simpl. split; [reflexivity|].
    left. rewrite unsome_map. reflexivity.
Qed.

Definition lrel (x y : option (list res)) : Prop :=
  match x, y with None, None => True | Some a, Some b => Forall2 rel a b | _, _ => False end.

Lemma nbr_rows_agree (s : @nbr R A G) : nbr_app s ->
  forall seeds rows orcs l, lrel (nbr_rows N aeqb RG s l seeds rows orcs true) (nbr_rows N aeqb RG s l seeds rows orcs false).
Proof.
  intros Hnan. induction seeds as [|sd seeds IH]; intros rows orcs l; simpl; [constructor|].
  destruct rows as [|row rows]; [constructor|].
  pose proof (nbr_row_agree s l sd row (hd [] orcs) Hnan) as H.
  destruct (nbr_row N aeqb RG s l sd row (hd [] orcs) true) as [[r1 l1]|]; destruct (nbr_row N aeqb RG s l sd row (hd [] orcs) false) as [[r2 l2]|]; simpl in H; try contradiction; [|exact I].
  destruct H as [<- Hr]. specialize (IH rows (tl orcs) l1).
  destruct (nbr_rows N aeqb RG s l1 seeds rows (tl orcs) true) as [t1|]; destruct (nbr_rows N aeqb RG s l1 seeds rows (tl orcs) false) as [t2|]; simpl in IH; try contradiction; [|exact I].
  simpl. constructor; assumption.
Qed.

Lemma nbr_predict_agree (s : @nbr R A G) g cx orcs sizes : nbr_app s ->
  lrel (fst (nbr_predict N aeqb RG s g cx orcs sizes true)) (fst (nbr_predict N aeqb RG s g cx orcs sizes false)) /\
  snd (nbr_predict N aeqb RG s g cx orcs sizes true) = snd (nbr_predict N aeqb RG s g cx orcs sizes false).
Proof.
  intros Hnan. unfold nbr_predict. destruct (draw_z RG g (RqRandint 2147483647 (length cx))) as [seeds g1]. simpl. split; [|reflexivity].
  generalize (combine (combine (chunks sizes seeds) (chunks sizes cx)) (chunks sizes orcs)) as parts.
  induction parts as [|[[sd rows] orc] t IH]; simpl; [constructor|].
  pose proof (nbr_rows_agree s Hnan sd rows orc (n_lp s)) as H.
  destruct (nbr_rows N aeqb RG s (n_lp s) sd rows orc true) as [x1|]; destruct (nbr_rows N aeqb RG s (n_lp s) sd rows orc false) as [x2|]; simpl in H; try contradiction; [|exact I].
  match goal with |- lrel (match ?X with _ => _ end) (match ?Y with _ => _ end) => destruct X as [y1|]; destruct Y as [y2|]; simpl in IH; try contradiction; simpl; [|exact I] end.
  apply Forall2_app; assumption.
Qed.

(* ---- clusters ------------------------------------------------------------------------------------------ *)
Lemma clu_rows_agree : forall seeds rows assign (lps : list (@lp R A G)),
  Forall2 rel (clu_rows N aeqb RG lps seeds rows assign true) (clu_rows N aeqb RG lps seeds rows assign false).
Proof.
  induction seeds as [|sd seeds IH]; intros rows assign lps; simpl; [constructor|].
  destruct rows as [|row rows]; [constructor|]. destruct assign as [|c assign]; [constructor|].
  destruct (nth_error lps c) as [l|]; [|constructor].
  destruct (lp_expectations1 N aeqb RG l (create RG sd) row) as [[e l'] g']. constructor; [|apply IH].
  simpl. left. rewrite unsome_map. reflexivity.
Qed.

Lemma clu_predict_agree (s : @clu R A G) g cx assign sizes :
  Forall2 rel (fst (clu_predict N aeqb RG s g cx assign sizes true)) (fst (clu_predict N aeqb RG s g cx assign sizes false)) /\
  snd (clu_predict N aeqb RG s g cx assign sizes true) = snd (clu_predict N aeqb RG s g cx assign sizes false).
Proof.
  unfold clu_predict. destruct (draw_z RG g (RqRandint 2147483647 (length cx))) as [seeds g1]. simpl. split; [|reflexivity].
  generalize (combine (combine (chunks sizes seeds) (chunks sizes cx)) (chunks sizes assign)) as parts.
  induction parts as [|[[sd rows] asg] t IH]; simpl; [constructor|]. apply Forall2_app; [apply clu_rows_agree | exact IH].
Qed.

(* ---- TreeBandit without the epsilon step ------------------------------------------------------------------ *)
Definition tree_no_eps (s : @tree R A) : Prop := c_kind (t_lp s) <> KGreedy.

Lemma tree_rows_agree (s : @tree R A) leaf : tree_no_eps s ->
  forall seeds rows e gb,
  Forall2 rel (fst (tree_rows N aeqb RG s leaf seeds rows e gb true)) (fst (tree_rows N aeqb RG s leaf seeds rows e gb false)) /\
  snd (tree_rows N aeqb RG s leaf seeds rows e gb true) = snd (tree_rows N aeqb RG s leaf seeds rows e gb false).
Proof.
  intros Hno. induction seeds as [|sd seeds IH]; intros rows e gb; simpl; [split; [constructor | reflexivity]|].
  destruct rows as [|row rows]; [split; [constructor | reflexivity]|].
  destruct (tree_row_arms N aeqb RG s leaf row (t_arms s) e (if t_kf_sharedrng s then gb else create RG sd)) as [e1 g1].
  unfold tree_no_eps in Hno. destruct (c_kind (t_lp s)) eqn:Ek; try congruence;
    (specialize (IH rows e1 (if t_kf_sharedrng s then g1 else gb));
     destruct (tree_rows N aeqb RG s leaf seeds rows e1 (if t_kf_sharedrng s then g1 else gb) true) as [t1 gf1];
     destruct (tree_rows N aeqb RG s leaf seeds rows e1 (if t_kf_sharedrng s then g1 else gb) false) as [t2 gf2];
     simpl in *; destruct IH as [I1 I2]; split; [constructor; [left; rewrite unsome_map; reflexivity | exact I1] | exact I2]).
Qed.

(* ---- the facade ---------------------------------------------------------------------------------------------- *)
Definition c09_applicable (i : imp) : Prop :=
  match i with
  | INbr s => nbr_app s
  | ITree s => tree_no_eps s
  | _ => True
  end.

Theorem predict_is_argmax_all (m : mab) cx orc :
  c09_applicable (m_imp m) ->
  out_agree (snd (step N aeqb RG m (Predict cx orc))) (snd (step N aeqb RG m (PredictExp cx orc))) /\
  m_rng (fst (step N aeqb RG m (Predict cx orc))) = m_rng (fst (step N aeqb RG m (PredictExp cx orc))).
Proof.
  intros Happ. unfold step.
  destruct (negb (m_fitted m)); [simpl; auto|]. destruct (negb (predict_args_ok m cx)); [simpl; auto|].
  unfold imp_query. destruct (m_imp m) as [s|s|s|s|s]; simpl in Happ.
  - unfold cf_predict. destruct (cf_predict_exp N aeqb RG s (m_rng m) (ctx_len cx)) as [[e s'] g']. simpl. split; [|reflexivity].
    apply shapes_agree. rewrite map_map. induction e as [|d t IH]; simpl; constructor; [|exact IH].
    simpl. left. unfold some_exp. rewrite unsome_map. reflexivity.
  - destruct (lin_expectations N aeqb RG s (m_rng m) (octx cx)) as [[e s'] g']. simpl. split; [|reflexivity].
    apply shapes_agree. induction e as [|d t IH]; simpl; constructor; [|exact IH].
    simpl. left. unfold some_exp. rewrite unsome_map. reflexivity.
  - pose proof (nbr_predict_agree s (m_rng m) (octx cx) (o_knn orc) (o_sizes orc) Happ) as [H1 H2].
    destruct (nbr_predict N aeqb RG s (m_rng m) (octx cx) (o_knn orc) (o_sizes orc) true) as [r1 g1].
    destruct (nbr_predict N aeqb RG s (m_rng m) (octx cx) (o_knn orc) (o_sizes orc) false) as [r2 g2]. simpl in *.
    destruct r1 as [l1|]; destruct r2 as [l2|]; simpl in H1; try contradiction; simpl; split; auto. apply shapes_agree; exact H1.
  - pose proof (clu_predict_agree s (m_rng m) (octx cx) (o_assign orc) (o_sizes orc)) as [H1 H2].
    destruct (clu_predict N aeqb RG s (m_rng m) (octx cx) (o_assign orc) (o_sizes orc) true) as [r1 g1].
    destruct (clu_predict N aeqb RG s (m_rng m) (octx cx) (o_assign orc) (o_sizes orc) false) as [r2 g2]. simpl in *.
    split; [apply shapes_agree; exact H1 | exact H2].
  - unfold tree_predict. destruct (draw_z RG (m_rng m) (RqRandint 2147483647 (length (octx cx)))) as [seeds g1].
    pose proof (tree_rows_agree s (o_leaf orc) Happ seeds (octx cx) (t_exp s) g1) as [H1 H2].
    destruct (tree_rows N aeqb RG s (o_leaf orc) seeds (octx cx) (t_exp s) g1 true) as [r1 gf1].
    destruct (tree_rows N aeqb RG s (o_leaf orc) seeds (octx cx) (t_exp s) g1 false) as [r2 gf2]. simpl in *.
    split; [apply shapes_agree; exact H1 | exact H2].
Qed.

(* the empty-neighbourhood dictionary stays all-NaN along every history (the repaired add_arm stores NaN) *)
Lemma nan_row_fit (s : @nbr R A G) g ds rs cx : nan_row (n_exp s) -> nan_row (n_exp (fst (nbr_fit N RG s g ds rs cx))).
Proof.
  intros H. unfold nbr_fit. destruct (lp_binarize (n_lp s) ds rs) as [l' rs'].
  destruct (n_kind s); simpl; try exact H. destruct (draw_planes RG g _ _ _); simpl; exact H.
Qed.
Lemma nan_row_partial_fit (s : @nbr R A G) ds rs cx : nan_row (n_exp s) -> nan_row (n_exp (nbr_partial_fit N s ds rs cx)).
Proof. intros H. unfold nbr_partial_fit. destruct (lp_binarize (n_lp s) ds rs) as [l' rs']. destruct (n_kind s); simpl; exact H. Qed.
Lemma nan_row_aset (d : list (A * option R)) a : nan_row d -> nan_row (aset aeqb d a None).
Proof.
  unfold nan_row. induction d as [|[k v] t IH]; intros H; simpl; [repeat constructor|].
  inversion H; subst. destruct (aeqb _ _); constructor; auto.
Qed.
Lemma nan_row_apop (d : list (A * option R)) a : nan_row d -> nan_row (apop aeqb d a).
Proof.
  unfold nan_row. induction d as [|[k v] t IH]; intros H; simpl; [constructor|].
  inversion H; subst. destruct (aeqb _ _); simpl; [assumption | constructor; auto].
Qed.
Lemma nan_row_add (s : @nbr R A G) a bz : n_kf_newarm0 s = false -> nan_row (n_exp s) -> nan_row (n_exp (nbr_add_arm N aeqb s a bz)).
Proof. intros Hk H. unfold nbr_add_arm; simpl. rewrite Hk. apply nan_row_aset; exact H. Qed.
Lemma nan_row_remove (s : @nbr R A G) a : nan_row (n_exp s) -> nan_row (n_exp (nbr_remove_arm N aeqb s a)).
Proof. intros H. unfold nbr_remove_arm; simpl. apply nan_row_apop; exact H. Qed.
Lemma nan_row_init k m p arms l : nan_row (n_exp (@nbr_init R A G k m p false arms l)).
Proof. unfold nbr_init, nan_row; simpl. induction arms; simpl; constructor; auto. Qed.

End C09All.
