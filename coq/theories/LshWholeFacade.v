(* LshWholeFacade.v — the hypotheses of LshWhole.v / NbrRowOrder.v hold in every state a history of facade calls reaches:
   the LSH tables are those of the whole stored history, and the stored decisions, rewards and contexts are aligned
   (so the history IS a list of observations). *)
From Coq Require Import ZArith List Bool Arith Lia.
From MW Require Import Num Assoc AssocFacts Rng Par CF Matrix Lin Warm Nbr Clu Tree Mab RowOrder NbrRowOrder LshWhole.
Import ListNotations.

Section LshWholeFacade.
Context {R A G : Type} (N : Num R) (aeqb : A -> A -> bool) (RG : RngOps R G).
Notation mab := (@mab R A G).
Notation op := (@op R A).
Notation imp := (@imp R A G).
Notation nbr := (@nbr R A G).

Definition aligned (s : nbr) : Prop := length (n_ds s) = length (n_rs s) /\ length (n_rs s) = length (n_cx s).
Definition imp_hist_inv (i : imp) : Prop := match i with INbr s => lsh_inv N s /\ aligned s | _ => True end.

(* an aligned history is a list of observations *)
Lemma aligned_is_a_history (s : nbr) : aligned s ->
  let h := hist_of (n_ds s) (n_rs s) (n_cx s) in n_ds s = ds_of h /\ n_rs s = rs_of h /\ n_cx s = cx_of h.
Proof.
  intros [H1 H2]. cbv zeta. unfold hist_of, ds_of, rs_of, cx_of.
  generalize dependent (n_cx s). generalize dependent (n_rs s). generalize (n_ds s).
  induction l as [|d ds IH]; intros [|r rs] H1 [|c cx] H2; cbn in *; try discriminate; [repeat split|].
  destruct (IH rs ltac:(lia) cx ltac:(lia)) as (E1 & E2 & E3). repeat split; f_equal; assumption.
Qed.

Lemma binarize_length (c : @cf R A) ds rs : length ds = length rs -> length (binarize c ds rs) = length rs.
Proof.
  intros H. unfold binarize. destruct (c_binz c); [|reflexivity]. destruct (c_ctxbin c); [reflexivity|].
  rewrite map_length, combine_length. lia.
Qed.

Lemma lp_binarize_length (l : @lp R A G) ds rs : length ds = length rs -> length (snd (lp_binarize l ds rs)) = length rs.
Proof.
  intros H. destruct l as [c|c]; [|reflexivity]. unfold lp_binarize. destruct (lp_is_ts_binz (LCf c)); [|reflexivity].
  cbn [snd]. apply binarize_length. exact H.
Qed.

Lemma aligned_fit (s : nbr) g ds rs cx : length ds = length rs -> length ds = length cx -> aligned (fst (nbr_fit N RG s g ds rs cx)).
Proof.
  intros H1 H2. unfold nbr_fit. pose proof (lp_binarize_length (n_lp s) ds rs H1) as Hb.
  destruct (lp_binarize (n_lp s) ds rs) as [l' rs']. cbn [snd] in Hb.
  destruct (n_kind s); [| |destruct (draw_planes RG g _ _ _)]; unfold aligned; cbn; lia.
Qed.

Lemma aligned_partial_fit (s : nbr) ds rs cx : aligned s -> length ds = length rs -> length ds = length cx -> aligned (nbr_partial_fit N s ds rs cx).
Proof.
  intros [A1 A2] H1 H2. unfold nbr_partial_fit. pose proof (lp_binarize_length (n_lp s) ds rs H1) as Hb.
  destruct (lp_binarize (n_lp s) ds rs) as [l' rs']. cbn [snd] in Hb.
  destruct (n_kind s); unfold aligned; cbn; rewrite !app_length; lia.
Qed.

Lemma fit_args_lengths (m : mab) ds rs cx : is_contextual (m_imp m) = true -> fit_args_ok N m ds rs cx = true ->
  length ds = length rs /\ length ds = length (octx cx).
Proof.
  intros Hc H. unfold fit_args_ok in H. apply andb_prop in H. destruct H as [H _]. apply andb_prop in H. destruct H as [H1 H2].
  apply Nat.eqb_eq in H2. split; [exact H2|]. destruct cx as [c|]; cbn [octx].
  - apply andb_prop in H1. destruct H1 as [_ H1]. apply Nat.eqb_eq in H1. exact H1.
  - rewrite Hc in H1. discriminate.
Qed.

Theorem step_preserves_hist_inv (m : mab) (o : op) : imp_hist_inv (m_imp m) -> imp_hist_inv (m_imp (fst (step N aeqb RG m o))).
Proof.
  intros Hf.
  destruct o as [ds rs cx orc | ds rs cx orc | a bz | a | keys raw q | cx orc | cx orc]; unfold step.
  - destruct (fit_args_ok N m ds rs cx) eqn:Fa; [|exact Hf]. destruct (negb _); [exact Hf|].
    destruct (m_imp m) as [c|l|s|s|s] eqn:Ei; cbn [imp_fit].
    + exact I.
    + destruct (lin_fit N aeqb l (m_rng m) ds rs (octx cx)) as [l' ok]. destruct ok; exact I.
    + destruct (fit_args_lengths m ds rs cx ltac:(rewrite Ei; reflexivity) Fa) as [L1 L2].
      pose proof (lsh_inv_fit N RG s (m_rng m) ds rs (octx cx)) as I1. pose proof (aligned_fit s (m_rng m) ds rs (octx cx) L1 L2) as I2.
      destruct (nbr_fit N RG s (m_rng m) ds rs (octx cx)) as [s' g']. cbn [fst m_imp imp_hist_inv] in *. split; assumption.
    + destruct (clu_fit N aeqb s (m_rng m) ds rs (octx cx) (o_labels orc)) as [s' ok]. destruct ok; exact I.
    + exact I.
  - destruct (fit_args_ok N m ds rs cx) eqn:Fa; [|exact Hf]. destruct (negb _); [exact Hf|].
    destruct (m_imp m) as [c|l|s|s|s] eqn:Ei; destruct (m_fitted m); cbn [imp_fit imp_partial_fit]; try exact I.
    + destruct (lin_partial_fit N aeqb l (m_rng m) ds rs (octx cx)) as [l' ok]. exact I.
    + destruct (lin_fit N aeqb l (m_rng m) ds rs (octx cx)) as [l' ok]. destruct ok; exact I.
    + destruct (fit_args_lengths m ds rs cx ltac:(rewrite Ei; reflexivity) Fa) as [L1 L2]. destruct Hf as [F1 F2].
      cbn [fst m_imp imp_hist_inv]. split; [apply lsh_inv_partial_fit; exact F1 | apply aligned_partial_fit; assumption].
    + destruct (fit_args_lengths m ds rs cx ltac:(rewrite Ei; reflexivity) Fa) as [L1 L2].
      pose proof (lsh_inv_fit N RG s (m_rng m) ds rs (octx cx)) as I1. pose proof (aligned_fit s (m_rng m) ds rs (octx cx) L1 L2) as I2.
      destruct (nbr_fit N RG s (m_rng m) ds rs (octx cx)) as [s' g']. cbn [fst m_imp imp_hist_inv] in *. split; assumption.
    + destruct (clu_partial_fit N aeqb s (m_rng m) ds rs (octx cx) (o_labels orc)) as [s' ok]. exact I.
    + destruct (clu_fit N aeqb s (m_rng m) ds rs (octx cx) (o_labels orc)) as [s' ok]. destruct ok; exact I.
  - destruct (match bz with Some _ => negb (binz_allowed (m_imp m)) | None => false end); [exact Hf|].
    destruct (amem aeqb a (m_arms m)); [exact Hf|]. cbn [fst m_imp].
    destruct (m_imp m) as [c|l|s|s|s]; cbn [imp_add_arm]; try exact I. exact Hf.
  - destruct (amem aeqb a (m_arms m)); [|exact Hf]. cbn [fst m_imp].
    destruct (m_imp m) as [c|l|s|s|s]; cbn [imp_remove_arm]; try exact I. exact Hf.
  - destruct (negb _); [exact Hf|]. destruct (negb _); [exact Hf|].
    destruct (m_imp m) as [s|s|s|s|s] eqn:Ei; try (cbn [fst]; rewrite Ei; exact Hf).
    + destruct (cf_warm_start N aeqb s keys raw q) as [s'|]; cbn [fst m_imp]; [exact I | rewrite Ei; exact I].
    + destruct (lin_warm_start N aeqb s (m_rng m) keys raw q) as [s'|]; cbn [fst m_imp]; [exact I | rewrite Ei; exact I].
  - destruct (negb (m_fitted m)); [exact Hf|]. destruct (negb (predict_args_ok m cx)); [exact Hf|].
    destruct (m_imp m) as [c|l|s|s|s] eqn:Ei; cbn [imp_query].
    + destruct (cf_predict N aeqb RG c (m_rng m) (ctx_len cx)) as [[? ?] ?]. exact I.
    + destruct (lin_expectations N aeqb RG l (m_rng m) (octx cx)) as [[? ?] ?]. exact I.
    + destruct (nbr_predict N aeqb RG s (m_rng m) (octx cx) (o_knn orc) (o_sizes orc) true) as [r g']. destruct r; cbn [fst m_imp]; rewrite ?Ei; exact Hf.
    + destruct (clu_predict N aeqb RG s (m_rng m) (octx cx) (o_assign orc) (o_sizes orc) true) as [r g']. exact I.
    + destruct (tree_predict N aeqb RG s (m_rng m) (o_leaf orc) (octx cx) true) as [r g']. exact I.
  - destruct (negb (m_fitted m)); [exact Hf|]. destruct (negb (predict_args_ok m cx)); [exact Hf|].
    destruct (m_imp m) as [c|l|s|s|s] eqn:Ei; cbn [imp_query].
    + destruct (cf_predict_exp N aeqb RG c (m_rng m) (ctx_len cx)) as [[? ?] ?]. exact I.
    + destruct (lin_expectations N aeqb RG l (m_rng m) (octx cx)) as [[? ?] ?]. exact I.
    + destruct (nbr_predict N aeqb RG s (m_rng m) (octx cx) (o_knn orc) (o_sizes orc) false) as [r g']. destruct r; cbn [fst m_imp]; rewrite ?Ei; exact Hf.
    + destruct (clu_predict N aeqb RG s (m_rng m) (octx cx) (o_assign orc) (o_sizes orc) false) as [r g']. exact I.
    + destruct (tree_predict N aeqb RG s (m_rng m) (o_leaf orc) (octx cx) false) as [r g']. exact I.
Qed.

Theorem run_preserves_hist_inv (ops : list op) (m : mab) : imp_hist_inv (m_imp m) -> imp_hist_inv (m_imp (state_after N aeqb RG m ops)).
Proof.
  revert m. induction ops as [|o t IH]; intros m Hf; unfold state_after; simpl; [auto|].
  pose proof (step_preserves_hist_inv m o Hf) as Hf1.
  destruct (step N aeqb RG m o) as [m1 r] eqn:Es. simpl in *.
  specialize (IH m1 Hf1). unfold state_after in IH. destruct (run N aeqb RG m1 t) as [m2 rs]. simpl in *. exact IH.
Qed.

Lemma constructed_neighbourhood_policy_hist_inv (m : mab) k mt p kf arms (l : @lp R A G) :
  m_imp m = INbr (nbr_init k mt p kf arms l) -> imp_hist_inv (m_imp m).
Proof. intros ->. cbn [imp_hist_inv]. split; [apply lsh_inv_init | split; reflexivity]. Qed.

End LshWholeFacade.
