(* EvalOrder.v — C16, last clause: the mean of a non-empty reward list lies between its minimum and its maximum, and
   therefore the min, mean and max analyses of the default evaluator are ordered: for every arm the credited values
   under "min" are pointwise below those under "mean", which are pointwise below those under "max", and so are their sums.
   Ordered-field laws (NumLaws) only. *)
From Coq Require Import ZArith List Bool Lia Ring.
From MW Require Import Num NumLaws Assoc AssocFacts Rng CF Matrix Lin Nbr Sim OrderFacts StatFacts LshScale.
Import ListNotations.

Section EvalOrder.
Context {R A : Type} (N : Num R) (L : NumLaws N) (aeqb : A -> A -> bool).
Add Ring RingEO : (L_ring N L).

Notation "0" := (zero N).
Notation "1" := (one N).
Infix "+" := (add N).
Infix "*" := (mul N).
Infix "-" := (sub N).
Notation "x <=? y" := (leb N x y).

(* ---- order facts ------------------------------------------------------------------------------------------ *)
Lemma le_add_mono a b c d : (a <=? b) = true -> (c <=? d) = true -> (a + c <=? b + d) = true.
Proof.
  intros H1 H2. apply (L_leb_trans N L _ (b + c)).
  - apply (L_add_leb N L); exact H1.
  - pose proof (L_add_leb N L c d b H2) as X. replace (c + b) with (b + c) in X by ring. replace (d + b) with (b + d) in X by ring. exact X.
Qed.

Lemma le_sub_nonneg a b : (a <=? b) = true -> (0 <=? b - a) = true.
Proof.
  intros H. pose proof (L_add_leb N L a b (0 - a) H) as X.
  replace (a + (0 - a)) with 0 in X by ring. replace (b + (0 - a)) with (b - a) in X by ring. exact X.
Qed.

Lemma nonneg_sub_le a b : (0 <=? b - a) = true -> (a <=? b) = true.
Proof.
  intros H. pose proof (L_add_leb N L 0 (b - a) a H) as X.
  replace (0 + a) with a in X by ring. replace (b - a + a) with b in X by ring. exact X.
Qed.

Lemma lt_0_1 : ltb N 0 1 = true.
Proof.
  rewrite (L_ltb_leb N L). destruct (1 <=? 0) eqn:E; [|reflexivity]. exfalso.
  (* 1 = 1*1 is a square, hence non-negative; with 1 <= 0 it would be 0 *)
  assert (H : (0 <=? 1) = true).
  { destruct (ltb N 0 1) eqn:E1; [apply (ltb_true_leb N L); exact E1|].
    destruct (ltb N 1 0) eqn:E2.
    - pose proof (neg_pos N L 1 E2) as P. pose proof (L_mul_pos N L _ _ P P) as Q.
      replace ((0 - 1) * (0 - 1)) with 1 in Q by ring. apply (ltb_true_leb N L). exact Q.
    - apply (ltb_false_leb N L). exact E2. }
  assert (X : 1 = 0) by (apply (L_leb_antisym N L); assumption).
  assert (Y : of_Z N 1 <> 0) by (apply (L_of_Z_pos N L); lia). rewrite (L_of_Z_1 N L) in Y. exact (Y X).
Qed.

Lemma of_nat_pos k : ltb N 0 (of_Z N (Z.of_nat (S k))) = true.
Proof.
  induction k as [|k IH].
  - change (Z.of_nat 1) with 1%Z. rewrite (L_of_Z_1 N L). exact lt_0_1.
  - replace (Z.of_nat (S (S k))) with (Z.of_nat (S k) + 1)%Z by lia. rewrite (L_of_Z_add N L), (L_of_Z_1 N L).
    rewrite (L_ltb_leb N L). destruct (of_Z N (Z.of_nat (S k)) + 1 <=? 0) eqn:E; [|reflexivity]. exfalso.
    pose proof (le_add_mono 0 _ 0 1 (ltb_true_leb N L _ _ IH) (ltb_true_leb N L _ _ lt_0_1)) as X.
    replace (0 + 0) with 0 in X by ring.
    assert (Z0 : of_Z N (Z.of_nat (S k)) + 1 = 0) by (apply (L_leb_antisym N L); assumption).
    (* then 1 <= 0 *)
    pose proof (L_add_leb N L 0 (of_Z N (Z.of_nat (S k))) 1 (ltb_true_leb N L _ _ IH)) as Y.
    replace (0 + 1) with 1 in Y by ring. rewrite Z0 in Y.
    pose proof lt_0_1 as T. rewrite (L_ltb_leb N L), Y in T. discriminate.
Qed.

(* a non-negative number divided by a positive one is non-negative *)
Lemma div_nonneg s n : (0 <=? s) = true -> ltb N 0 n = true -> (0 <=? div N s n) = true.
Proof.
  intros Hs Hn. destruct (ltb N (div N s n) 0) eqn:E; [|apply (ltb_false_leb N L); exact E]. exfalso.
  assert (Hn0 : n <> 0) by (intros X; rewrite X, (ltb_irrefl N L) in Hn; discriminate).
  pose proof (neg_pos N L _ E) as P. pose proof (L_mul_pos N L _ _ P Hn) as Q.
  replace ((0 - div N s n) * n) with (0 - div N s n * n) in Q by ring. rewrite (L_div N L s n Hn0) in Q.
  (* 0 < -s and 0 <= s *)
  pose proof (pos_neg N L s Q) as S0. assert (s = 0) by (apply (L_leb_antisym N L); assumption). subst s.
  replace (0 - 0) with 0 in Q by ring. rewrite (ltb_irrefl N L) in Q. discriminate.
Qed.

Lemma nsum_cons x (l : list R) : nsum N (x :: l) = x + nsum N l.
Proof. rewrite !(L_nsum N L). reflexivity. Qed.

Lemma nsum_nonneg (l : list R) : (forall x, In x l -> (0 <=? x) = true) -> (0 <=? nsum N l) = true.
Proof.
  induction l as [|x l IH]; intros H.
  - rewrite (L_nsum N L). simpl. apply (L_leb_refl N L).
  - rewrite nsum_cons. replace 0 with (0 + 0) by ring. apply le_add_mono; [apply H; left; reflexivity | apply IH; intros y Hy; apply H; right; exact Hy].
Qed.

Lemma nsum_sub_const (l : list R) m : nsum N (map (fun x => x - m) l) = nsum N l - of_Z N (Z.of_nat (length l)) * m.
Proof.
  induction l as [|x l IH].
  - rewrite !(L_nsum N L). simpl. rewrite (L_of_Z_0 N L). ring.
  - cbn [map length]. rewrite !nsum_cons, IH. replace (Z.of_nat (S (length l))) with (Z.of_nat (length l) + 1)%Z by lia.
    rewrite (L_of_Z_add N L), (L_of_Z_1 N L). ring.
Qed.

Lemma nsum_neg_sub (l : list R) m : 0 - nsum N (map (fun x => x - m) l) = nsum N (map (fun x => m - x) l).
Proof.
  induction l as [|x l IH]; [rewrite !(L_nsum N L); simpl; ring|].
  cbn [map]. rewrite !nsum_cons. rewrite <- IH. ring.
Qed.

(* ---- min <= mean <= max ------------------------------------------------------------------------------------ *)
Theorem mean_between_min_and_max (l : list R) : l <> [] ->
  let st := get_stats N l in (st_min st <=? st_mean st) = true /\ (st_mean st <=? st_max st) = true.
Proof.
  intros Hne. destruct l as [|h t]; [congruence|]. set (l := h :: t) in *.
  destruct (list_min_is_attained_lower_bound N L l Hne) as [_ Hmin].
  destruct (list_max_is_attained_upper_bound N L l Hne) as [_ Hmax].
  cbn [get_stats st_min st_mean st_max].
  set (n := of_Z N (Z.of_nat (length l))).
  assert (Hn : ltb N 0 n = true) by (unfold n, l; apply of_nat_pos).
  assert (Hn0 : n <> 0) by (intros X; rewrite X, (ltb_irrefl N L) in Hn; discriminate).
  assert (Hdiv : forall s m, div N (s - n * m) n = div N s n - m).
  { intros s m. apply (L_mul_cancel N L _ _ n Hn0). rewrite (L_div N L _ n Hn0).
    replace ((div N s n - m) * n) with (div N s n * n - n * m) by ring. rewrite (L_div N L s n Hn0). reflexivity. }
  split.
  - apply nonneg_sub_le. rewrite <- Hdiv. rewrite <- nsum_sub_const. apply div_nonneg; [|exact Hn].
    apply nsum_nonneg. intros y Hy. apply in_map_iff in Hy. destruct Hy as [x [<- Hx]]. apply le_sub_nonneg. apply Hmin. exact Hx.
  - apply nonneg_sub_le.
    replace (list_max N l - div N (nsum N l) n) with (0 - (div N (nsum N l) n - list_max N l)) by ring.
    rewrite <- Hdiv. rewrite <- nsum_sub_const.
    (* - (sum (x - max)) / n = sum (max - x) / n *)
    assert (E : 0 - div N (nsum N (map (fun x => x - list_max N l) l)) n = div N (nsum N (map (fun x => list_max N l - x) l)) n).
    { apply (L_mul_cancel N L _ _ n Hn0). rewrite (L_div N L _ n Hn0).
      replace ((0 - div N (nsum N (map (fun x => x - list_max N l) l)) n) * n)
        with (0 - div N (nsum N (map (fun x => x - list_max N l) l)) n * n) by ring.
      rewrite (L_div N L _ n Hn0). apply nsum_neg_sub. }
    rewrite E. apply div_nonneg; [|exact Hn].
    apply nsum_nonneg. intros y Hy. apply in_map_iff in Hy. destruct Hy as [x [<- Hx]]. apply le_sub_nonneg. apply Hmax. exact Hx.
Qed.

(* ---- the analyses are ordered -------------------------------------------------------------------------------- *)
Definition ordered_stats (st : @stats R) : Prop := (st_min st <=? st_mean st) = true /\ (st_mean st <=? st_max st) = true.

Lemma zero_stats_ordered : ordered_stats (zero_stats N).
Proof. split; apply (L_leb_refl N L). Qed.

Lemma get_stats_ordered (l : list R) : l <> [] -> ordered_stats (get_stats N l).
Proof. intros H. exact (mean_between_min_and_max l H). Qed.

(* the statistics tables of the simulator hold ordered records *)
Lemma arm_stats_ordered (arms ds : list A) (rs : list R) : Forall (fun kv => ordered_stats (snd kv)) (arm_stats N aeqb arms ds rs).
Proof.
  unfold arm_stats. apply Forall_forall. intros kv Hin. apply in_map_iff in Hin. destruct Hin as [a [<- _]]. simpl.
  destruct (arm_rewards aeqb a ds rs) as [|x l] eqn:E; [apply zero_stats_ordered | apply get_stats_ordered; discriminate].
Qed.

Lemma aget_d_ordered (d : list (A * @stats R)) (a : A) :
  Forall (fun kv => ordered_stats (snd kv)) d -> ordered_stats (aget_d aeqb (zero_stats N) d a).
Proof.
  intros H. unfold aget_d. induction d as [|[k v] t IH]; simpl; [apply zero_stats_ordered|].
  inversion H as [|? ? Hv Ht]; subst. destruct (aeqb a k); [exact Hv | apply IH; exact Ht].
Qed.

Lemma aget_ordered (d : list (A * @stats R)) (a : A) st :
  Forall (fun kv => ordered_stats (snd kv)) d -> aget aeqb d a = Some st -> ordered_stats st.
Proof.
  intros H. unfold aget. induction d as [|[k v] t IH]; simpl; [discriminate|].
  inversion H as [|? ? Hv Ht]; subst. destruct (aeqb a k); [intros E; injection E as <-; exact Hv | apply IH; exact Ht].
Qed.

Definition nstat_ordered (ns : option (list (A * @stats R))) : Prop :=
  match ns with Some row => Forall (fun kv => ordered_stats (snd kv)) row | None => True end.

(* one test row: the credited value grows with the statistic *)
Lemma credited_ordered train ns (p d : A) (r : R) :
  Forall (fun kv => ordered_stats (snd kv)) train -> nstat_ordered ns ->
  (credited N aeqb (@st_min R) train ns p d r <=? credited N aeqb (@st_mean R) train ns p d r) = true /\
  (credited N aeqb (@st_mean R) train ns p d r <=? credited N aeqb (@st_max R) train ns p d r) = true.
Proof.
  intros Ht Hn. unfold credited. destruct (aeqb p d); [split; apply (L_leb_refl N L)|].
  destruct ns as [row|]; [|exact (aget_d_ordered train p Ht)].
  destruct (aget aeqb row p) as [st|] eqn:E; [exact (aget_ordered row p st Hn E) | exact (aget_d_ordered train p Ht)].
Qed.

Lemma nsum_le (l1 l2 : list R) : Forall2 (fun x y => (x <=? y) = true) l1 l2 -> (nsum N l1 <=? nsum N l2) = true.
Proof.
  intros H. induction H as [|x y l1 l2 Hxy Hl IH]; [apply (L_leb_refl N L)|].
  rewrite !nsum_cons. apply le_add_mono; assumption.
Qed.

(* C16: for every arm the sums of the min, mean and max analyses are ordered *)
Theorem analyses_are_ordered train (nstats : list (option (list (A * @stats R)))) (preds decs : list A) (rews : list R) (a : A) :
  Forall (fun kv => ordered_stats (snd kv)) train -> Forall nstat_ordered nstats ->
  (nsum N (arm_credits N aeqb (@st_min R) train nstats preds decs rews a) <=? nsum N (arm_credits N aeqb (@st_mean R) train nstats preds decs rews a)) = true /\
  (nsum N (arm_credits N aeqb (@st_mean R) train nstats preds decs rews a) <=? nsum N (arm_credits N aeqb (@st_max R) train nstats preds decs rews a)) = true.
Proof.
  intros Ht Hn. unfold arm_credits.
  set (rows := filter _ _).
  assert (Hrows : forall t, In t rows -> nstat_ordered (snd t)).
  { intros [x ns] Hin. unfold rows in Hin. apply filter_In in Hin. destruct Hin as [Hin _].
    apply in_combine_r in Hin. cbn [snd]. rewrite Forall_forall in Hn. apply Hn. exact Hin. }
  clearbody rows. split; apply nsum_le.
  - induction rows as [|[[[p d] r] ns] rows IH]; [constructor|]. cbn [map]. constructor.
    + apply (proj1 (credited_ordered train ns p d r Ht (Hrows _ (or_introl eq_refl)))).
    + apply IH. intros t Hin. apply Hrows. right. exact Hin.
  - induction rows as [|[[[p d] r] ns] rows IH]; [constructor|]. cbn [map]. constructor.
    + apply (proj2 (credited_ordered train ns p d r Ht (Hrows _ (or_introl eq_refl)))).
    + apply IH. intros t Hin. apply Hrows. right. exact Hin.
Qed.

End EvalOrder.
