(* Mab.v — the public facade (mab.py: class MAB): argument validation in code order,
   _is_initial_fit, dispatch to the implementation object, output shapes.
   A call is an [op]; [step] returns the new state and what the caller sees. *)
From Coq Require Import ZArith List Bool.
From MW Require Import Num Assoc Rng CF Warm Matrix Lin.
Import ListNotations.

Section Mab.
Context {R A G : Type} (N : Num R) (aeqb : A -> A -> bool) (RG : RngOps R G).

Definition ctxs := list (list R).

Inductive op : Type :=
| Fit (ds : list A) (rs : list R) (cx : option ctxs)
| PartialFit (ds : list A) (rs : list R) (cx : option ctxs)
| AddArm (a : A) (bz : option (A -> R -> R))
| RemoveArm (a : A)
| WarmStart (keys : list A) (raw : A -> A -> R) (q : R)
| Predict (cx : option ctxs)
| PredictExp (cx : option ctxs).

(* what the caller observes; expectations are [option R] because neighbourhood
   policies report NaN (None) for an empty neighbourhood *)
Inductive out : Type :=
| ODone
| ORejected
| OArm (a : option A)
| OArms (l : list (option A))
| OExp (d : list (A * option R))
| OExps (l : list (list (A * option R))).

Inductive imp : Type :=
| ICf (s : @cf R A)
| ILin (s : @lin R A G).

Record mab := mkMab {
  m_imp : imp;
  m_fitted : bool;      (* _is_initial_fit *)
  m_rng : G             (* the generator object shared by MAB, _imp and the learning policy *)
}.

Definition imp_arms (i : imp) : list A := match i with ICf s => c_arms s | ILin s => l_arms s end.
Definition m_arms (m : mab) : list A := imp_arms (m_imp m).

Definition is_contextual (i : imp) : bool := match i with ICf _ => false | ILin _ => true end.

Definition is_binary (x : R) : bool := eqb N x (zero N) || eqb N x (one N).

(* learning_policy property: ThompsonSampling with binarizer None *)
Definition ts_needs_binary (i : imp) : bool :=
  match i with
  | ICf s => match c_kind s, c_binz s with KThompson, None => true | _, _ => false end
  | ILin _ => false
  end.

Definition ctx_len (cx : option ctxs) : option nat := option_map (@length _) cx.

(* _validate_fit_args (the classes of invalid argument expressible on well-typed data) *)
Definition fit_args_ok (m : mab) (ds : list A) (rs : list R) (cx : option ctxs) : bool :=
  (match cx with
   | Some c => is_contextual (m_imp m) && Nat.eqb (length ds) (length c)
   | None => negb (is_contextual (m_imp m))
   end)
  && Nat.eqb (length ds) (length rs)
  && (if ts_needs_binary (m_imp m) then forallb is_binary rs else true).

Definition predict_args_ok (m : mab) (cx : option ctxs) : bool :=
  match cx with None => negb (is_contextual (m_imp m)) | Some _ => true end.

Definition octx (cx : option ctxs) : ctxs := match cx with Some c => c | None => [] end.

(* fit / partial_fit of the implementation object; the flag is false when an exception
   escapes from inside training (the returned state is the partially updated one) *)
Definition imp_fit (i : imp) (g : G) (ds : list A) (rs : list R) (cx : option ctxs) : imp * bool :=
  match i with
  | ICf s => (ICf (cf_fit N aeqb s ds rs), true)
  | ILin s => let (s', ok) := lin_fit N aeqb s g ds rs (octx cx) in (ILin s', ok)
  end.
Definition imp_partial_fit (i : imp) (g : G) (ds : list A) (rs : list R) (cx : option ctxs) : imp * bool :=
  match i with
  | ICf s => (ICf (cf_partial_fit N aeqb s ds rs), true)
  | ILin s => let (s', ok) := lin_partial_fit N aeqb s g ds rs (octx cx) in (ILin s', ok)
  end.
Definition imp_add_arm (i : imp) (a : A) bz : imp :=
  match i with
  | ICf s => ICf (cf_add_arm N aeqb s a bz)
  | ILin s => ILin (lin_add_arm N aeqb s a)
  end.
Definition imp_remove_arm (i : imp) (a : A) : imp :=
  match i with
  | ICf s => ICf (cf_remove_arm N aeqb s a)
  | ILin s => ILin (lin_remove_arm aeqb s a)
  end.
Definition imp_is_ts (i : imp) : bool :=
  match i with
  | ICf s => match c_kind s with KThompson => true | _ => false end
  | ILin _ => false
  end.

Definition some_exp (d : list (A * R)) : list (A * option R) := map (fun kv => (fst kv, Some (snd kv))) d.

Definition imp_predict_exp (i : imp) (g : G) (cx : option ctxs) : list (list (A * option R)) * imp * G :=
  match i with
  | ICf s => let '(e, s', g') := cf_predict_exp N aeqb RG s g (ctx_len cx) in (map some_exp e, ICf s', g')
  | ILin s => let '(e, s', g') := lin_expectations N aeqb RG s g (octx cx) in (map some_exp e, ILin s', g')
  end.
Definition imp_predict (i : imp) (g : G) (cx : option ctxs) : list (option A) * imp * G :=
  match i with
  | ICf s => let '(p, s', g') := cf_predict N aeqb RG s g (ctx_len cx) in (p, ICf s', g')
  | ILin s => let '(e, s', g') := lin_expectations N aeqb RG s g (octx cx) in (map (argmax_first N) e, ILin s', g')
  end.

Definition shape_arms (l : list (option A)) : out :=
  match l with [a] => OArm a | _ => OArms l end.
Definition shape_exps (l : list (list (A * option R))) : out :=
  match l with [d] => OExp d | _ => OExps l end.

Definition step (m : mab) (o : op) : mab * out :=
  match o with
  | Fit ds rs cx =>
      if fit_args_ok m ds rs cx
      then let (i', ok) := imp_fit (m_imp m) (m_rng m) ds rs cx in
           if ok then (mkMab i' true (m_rng m), ODone) else (mkMab i' (m_fitted m) (m_rng m), ORejected)
      else (m, ORejected)
  | PartialFit ds rs cx =>
      if fit_args_ok m ds rs cx
      then if m_fitted m
           then let (i', ok) := imp_partial_fit (m_imp m) (m_rng m) ds rs cx in
                (mkMab i' true (m_rng m), if ok then ODone else ORejected)
           else let (i', ok) := imp_fit (m_imp m) (m_rng m) ds rs cx in
                if ok then (mkMab i' true (m_rng m), ODone) else (mkMab i' (m_fitted m) (m_rng m), ORejected)
      else (m, ORejected)
  | AddArm a bz =>
      if (match bz with Some _ => negb (imp_is_ts (m_imp m)) | None => false end) then (m, ORejected)
      else if amem aeqb a (m_arms m) then (m, ORejected)
      else (mkMab (imp_add_arm (m_imp m) a bz) (m_fitted m) (m_rng m), ODone)
  | RemoveArm a =>
      if amem aeqb a (m_arms m)
      then (mkMab (imp_remove_arm (m_imp m) a) (m_fitted m) (m_rng m), ODone)
      else (m, ORejected)
  | WarmStart keys raw q =>
      (* set(self.arms) == set(arm_to_features.keys()) ; 0 <= q <= 1 *)
      if negb (leb N (zero N) q && leb N q (one N)) then (m, ORejected)
      else if negb (forallb (fun a => amem aeqb a keys) (m_arms m) && forallb (fun a => amem aeqb a (m_arms m)) keys)
      then (m, ORejected)
      else match m_imp m with
           | ICf s => match cf_warm_start N aeqb s keys raw q with
                      | Some s' => (mkMab (ICf s') (m_fitted m) (m_rng m), ODone)
                      | None => (m, ORejected)
                      end
           | ILin _ => (m, ODone)
           end
  | Predict cx =>
      if negb (m_fitted m) then (m, ORejected)
      else if negb (predict_args_ok m cx) then (m, ORejected)
      else let '(p, i', g') := imp_predict (m_imp m) (m_rng m) cx in
           (mkMab i' (m_fitted m) g', shape_arms p)
  | PredictExp cx =>
      if negb (m_fitted m) then (m, ORejected)
      else if negb (predict_args_ok m cx) then (m, ORejected)
      else let '(e, i', g') := imp_predict_exp (m_imp m) (m_rng m) cx in
           (mkMab i' (m_fitted m) g', shape_exps e)
  end.

(* run a history, collecting what each call returned *)
Fixpoint run (m : mab) (ops : list op) : mab * list out :=
  match ops with
  | [] => (m, [])
  | o :: t => let (m1, r) := step m o in let (m2, rs) := run m1 t in (m2, r :: rs)
  end.

Definition state_after (m : mab) (ops : list op) : mab := fst (run m ops).

(* MAB.cold_arms *)
Definition mab_cold_arms (m : mab) : list A :=
  match m_imp m with
  | ICf s => cold_arms aeqb s
  | ILin s => filter (fun a => let x := aget_d aeqb status0 (l_status s) a in
                               negb (st_trained x) && negb (st_warm x)) (l_arms s)
  end.

End Mab.
