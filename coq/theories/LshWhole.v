(* LshWhole.v — C11 end to end: in every state any history reaches, the hash tables of an LSHNearest policy are the tables of
   the WHOLE stored history under the planes drawn at the last fit; hence the neighbourhood of a query is exactly the set of stored
   positions that share the query's hash (equivalently, its sign pattern) in at least one table, listed in ascending order - a FILTER
   of the stored history - and a query equal to a stored context always has that observation in its neighbourhood. *)
From Coq Require Import ZArith List Bool Arith Lia Permutation.
From MW Require Import Num NumLaws Assoc AssocFacts Rng Par CF CFAlg Matrix Lin Nbr LshFacts NbrBatch RowOrder NbrRowOrder.
Import ListNotations.

Section LshWhole.
Context {R A G : Type} (N : Num R) (aeqb : A -> A -> bool) (RG : RngOps R G).
Notation nbr := (@nbr R A G).
Notation obs := (A * R * list R)%type.

Definition lsh_inv (s : nbr) : Prop :=
  match n_kind s with
  | NLsh ndim _ => n_tables s = map (fun plane => lsh_insert_rows N ndim plane [] (n_cx s) 0) (n_planes s)
  | _ => True
  end.

Lemma lsh_inv_init k m p kf arms (l : @lp R A G) : lsh_inv (nbr_init k m p kf arms l).
Proof.
  unfold lsh_inv, nbr_init. cbn [n_kind n_tables n_planes n_cx]. destruct k as [r|kk|ndim nt]; try exact I.
  induction nt as [|nt IH]; [reflexivity|]. cbn [repeat map]. f_equal. exact IH.
Qed.

Lemma lsh_inv_fit (s : nbr) g ds rs cx : lsh_inv (fst (nbr_fit N RG s g ds rs cx)).
Proof.
  unfold nbr_fit. destruct (lp_binarize (n_lp s) ds rs) as [l' rs']. unfold lsh_inv.
  destruct (n_kind s) as [r|kk|ndim nt] eqn:K; cbn [fst set_hist n_kind]; rewrite ?K; try exact I.
  destruct (draw_planes RG g nt (ncols cx) ndim) as [planes g1]. cbn [fst set_lsh set_hist n_kind n_tables n_planes n_cx]. rewrite K. reflexivity.
Qed.

Lemma lsh_inv_partial_fit (s : nbr) ds rs cx : lsh_inv s -> lsh_inv (nbr_partial_fit N s ds rs cx).
Proof.
  unfold nbr_partial_fit, lsh_inv. destruct (lp_binarize (n_lp s) ds rs) as [l' rs'].
  destruct (n_kind s) as [r|kk|ndim nt] eqn:K; cbn [set_hist n_kind]; rewrite ?K; try (intros; exact I).
  intros H. cbn [set_lsh set_hist n_kind n_tables n_planes n_cx]. rewrite K. rewrite H.
  generalize (n_planes s). intros pl. induction pl as [|p pl IH]; [reflexivity|]. cbn [map combine]. f_equal; [|exact IH].
  rewrite (insert_rows_app N ndim p [] (n_cx s) cx 0). reflexivity.
Qed.

Lemma lsh_inv_add_arm (s : nbr) a bz : lsh_inv s -> lsh_inv (nbr_add_arm N aeqb s a bz).
Proof. intros H. exact H. Qed.
Lemma lsh_inv_remove_arm (s : nbr) a : lsh_inv s -> lsh_inv (nbr_remove_arm N aeqb s a).
Proof. intros H. exact H. Qed.

Lemma combine_map_r {T U} (f : T -> U) (l : list T) : combine l (map f l) = map (fun x => (x, f x)) l.
Proof. induction l as [|x l IH]; simpl; [reflexivity | rewrite IH; reflexivity]. Qed.

(* ---- the neighbourhood, exactly ---------------------------------------------------------------------------- *)
Definition collides (s : nbr) (ndim : nat) (row c : list R) : bool :=
  existsb (fun plane => Z.eqb (lsh_hash N ndim plane c) (lsh_hash N ndim plane row)) (n_planes s).

Theorem lsh_neighbourhood_exact (s : nbr) ndim nt row j :
  n_kind s = NLsh ndim nt -> lsh_inv s ->
  (In j (lsh_neighbors N s ndim row) <-> j < length (n_cx s) /\ collides s ndim row (nth j (n_cx s) []) = true).
Proof.
  intros K H. unfold lsh_inv in H. rewrite K in H. rewrite lsh_neighbourhood_membership. rewrite H. unfold collides. rewrite existsb_exists. split.
  - intros (plane & tbl & Hin & Hj). rewrite combine_map_r in Hin. apply in_map_iff in Hin. destruct Hin as [p [E Hp]].
    injection E as <- <-. apply (insert_rows_bucket N) in Hj. destruct Hj as [Hj|[i [Hi [-> Hh]]]]; [contradiction|]. cbn [plus].
    split; [exact Hi|]. exists p. split; [exact Hp | apply Z.eqb_eq; exact Hh].
  - intros (Hj & plane & Hp & Hh). exists plane, (lsh_insert_rows N ndim plane [] (n_cx s) 0). split.
    + rewrite combine_map_r. apply in_map_iff. exists plane. split; [reflexivity | exact Hp].
    + apply (insert_rows_bucket N). right. exists j. split; [exact Hj|]. split; [reflexivity | apply Z.eqb_eq; exact Hh].
Qed.


(* a query equal to a stored context finds that observation (the policy has at least one table) *)
Corollary stored_context_is_its_own_neighbour (s : nbr) ndim nt j :
  n_kind s = NLsh ndim nt -> lsh_inv s -> n_planes s <> [] -> j < length (n_cx s) ->
  In j (lsh_neighbors N s ndim (nth j (n_cx s) [])).
Proof.
  intros K H Hp Hj. apply (lsh_neighbourhood_exact s ndim nt _ j K H). split; [exact Hj|].
  unfold collides. destruct (n_planes s) as [|p t]; [contradiction|]. cbn [existsb]. rewrite Z.eqb_refl. reflexivity.
Qed.

(* ---- ascending duplicate-free position lists ------------------------------------------------------------------- *)
Fixpoint asc (l : list nat) : Prop := match l with [] => True | x :: t => (forall y, In y t -> x < y) /\ asc t end.

Lemma insert_nat_asc x l : asc l -> asc (insert_nat x l).
Proof.
  induction l as [|y t IH]; intros H; cbn [insert_nat].
  - cbn. split; [intros ? []|exact I].
  - destruct H as [H1 H2]. destruct (Nat.ltb_spec x y) as [Lt|Ge].
    + cbn [asc]. split; [|split; assumption]. intros z [<-|Hz]; [exact Lt | specialize (H1 z Hz); lia].
    + destruct (Nat.eqb_spec x y) as [->|Ne]; [cbn [asc]; split; assumption|].
      cbn [asc]. split; [|apply IH; exact H2]. intros z Hz. apply insert_nat_in in Hz. destruct Hz as [->|Hz]; [lia | exact (H1 z Hz)].
Qed.

Lemma nat_set_asc l : asc (nat_set l).
Proof.
  unfold nat_set. assert (Hgen : forall l acc, asc acc -> asc (fold_left (fun acc x => insert_nat x acc) l acc)).
  { clear l. induction l as [|x t IH]; intros acc H; cbn [fold_left]; [exact H | apply IH; apply insert_nat_asc; exact H]. }
  apply Hgen. exact I.
Qed.

Lemma asc_unique l : forall l', asc l -> asc l' -> (forall j, In j l <-> In j l') -> l = l'.
Proof.
  induction l as [|x t IH]; intros [|y t'] H H' E.
  - reflexivity.
  - exfalso. apply (proj2 (E y)). left; reflexivity.
  - exfalso. apply (proj1 (E x)). left; reflexivity.
  - destruct H as [H1 H2]. destruct H' as [H1' H2'].
    assert (x = y).
    { destruct (proj1 (E x) (or_introl eq_refl)) as [Exy|Hx]; [auto|].
      destruct (proj2 (E y) (or_introl eq_refl)) as [Eyx|Hy]; [auto|].
      specialize (H1 y Hy). specialize (H1' x Hx). lia. }
    subst y. f_equal. apply IH; [exact H2 | exact H2' |]. intros j. split; intros Hj.
    + destruct (proj1 (E j) (or_intror Hj)) as [<-|Hj']; [specialize (H1 x Hj); lia | exact Hj'].
    + destruct (proj2 (E j) (or_intror Hj)) as [<-|Hj']; [specialize (H1' x Hj); lia | exact Hj'].
Qed.

Definition positions (q : list bool) (a : nat) : list nat := map fst (filter (fun id : nat * bool => snd id) (combine (seq a (length q)) q)).

Lemma positions_in q : forall a j, In j (positions q a) <-> a <= j < a + length q /\ nth (j - a) q false = true.
Proof.
  unfold positions. induction q as [|b q IH]; intros a j; cbn [length seq combine filter snd].
  - cbn. split; [intros [] | intros [H _]; lia].
  - assert (Hr : In j (map fst (filter (fun id : nat * bool => snd id) (combine (seq (S a) (length q)) q))) <-> S a <= j < S a + length q /\ nth (j - S a) q false = true) by apply IH.
    destruct b; cbn [map fst In]; rewrite ?Hr.
    + split.
      * intros [<-|[H1 H2]]; [split; [lia | rewrite Nat.sub_diag; reflexivity]|]. split; [lia|]. replace (j - a) with (S (j - S a)) by lia. exact H2.
      * intros [H1 H2]. destruct (Nat.eq_dec a j) as [->|Ne]; [left; reflexivity|]. right. split; [lia|]. replace (j - a) with (S (j - S a)) in H2 by lia. exact H2.
    + split.
      * intros [H1 H2]. split; [lia|]. replace (j - a) with (S (j - S a)) by lia. exact H2.
      * intros [H1 H2]. destruct (Nat.eq_dec a j) as [->|Ne]; [rewrite Nat.sub_diag in H2; discriminate|]. split; [lia|]. replace (j - a) with (S (j - S a)) in H2 by lia. exact H2.
Qed.

Lemma positions_asc q : forall a, asc (positions q a).
Proof.
  unfold positions. induction q as [|b q IH]; intros a; cbn [length seq combine filter snd]; [exact I|].
  destruct b; cbn [map fst asc]; [|apply IH]. split; [|apply IH]. intros y Hy.
  pose proof (proj1 (positions_in q (S a) y) Hy) as [H _]. lia.
Qed.

(* the neighbourhood is the ascending list of the colliding stored positions *)
Theorem lsh_neighbourhood_is_the_colliding_positions (s : nbr) ndim nt row :
  n_kind s = NLsh ndim nt -> lsh_inv s ->
  lsh_neighbors N s ndim row = positions (map (collides s ndim row) (n_cx s)) 0.
Proof.
  intros K H. apply asc_unique; [apply nat_set_asc | apply positions_asc|]. intros j.
  rewrite (lsh_neighbourhood_exact s ndim nt row j K H). rewrite positions_in. rewrite map_length, Nat.sub_0_r. cbn [plus].
  split.
  - intros [H1 H2]. split; [lia|]. rewrite (nth_indep _ false (collides s ndim row [])) by (rewrite map_length; exact H1).
    rewrite map_nth. exact H2.
  - intros [H1 H2]. split; [lia|]. rewrite (nth_indep _ false (collides s ndim row [])) in H2 by (rewrite map_length; lia).
    rewrite map_nth in H2. exact H2.
Qed.

(* ---- what a query selects: a filter of the stored history -------------------------------------------------------- *)
Definition colliding (s : nbr) (ndim : nat) (row : list R) (o : obs) : bool := collides s ndim row (snd o).

Theorem lsh_selects_a_filter_of_the_history (s : nbr) (h : list obs) ndim nt row idx :
  n_kind s = NLsh ndim nt -> lsh_inv s -> n_ds s = ds_of h -> n_rs s = rs_of h -> n_cx s = cx_of h ->
  neighborhood N s row [] = Some idx ->
  selected N s idx = (ds_of (filter (colliding s ndim row) h), rs_of (filter (colliding s ndim row) h), cx_of (filter (colliding s ndim row) h)).
Proof.
  intros K H Hd Hr Hc. unfold neighborhood. rewrite K. intros E. injection E as <-.
  rewrite (lsh_neighbourhood_is_the_colliding_positions s ndim nt row K H). unfold positions.
  rewrite map_length. rewrite Hc at 1 2. unfold cx_of at 1 2. rewrite map_length, map_map.
  exact (selected_positions_are_a_filter N s h (fun o : obs => collides s ndim row (snd o)) (fun b => b) Hd Hr Hc).
Qed.

(* two LSHNearest policies with the same planes whose histories are permutations of each other *)
Theorem lsh_row_order_selects_a_permutation (s s' : nbr) (h h' : list obs) ndim nt row idx idx' :
  n_kind s = NLsh ndim nt -> n_kind s' = NLsh ndim nt -> n_planes s = n_planes s' -> lsh_inv s -> lsh_inv s' ->
  n_ds s = ds_of h -> n_rs s = rs_of h -> n_cx s = cx_of h ->
  n_ds s' = ds_of h' -> n_rs s' = rs_of h' -> n_cx s' = cx_of h' ->
  Permutation h h' ->
  neighborhood N s row [] = Some idx -> neighborhood N s' row [] = Some idx' ->
  exists sel sel' : list obs,
    selected N s idx = (ds_of sel, rs_of sel, cx_of sel) /\ selected N s' idx' = (ds_of sel', rs_of sel', cx_of sel') /\
    Permutation sel sel'.
Proof.
  intros K K' Pl H H' Hd Hr Hc Hd' Hr' Hc' P E E'.
  exists (filter (colliding s ndim row) h), (filter (colliding s ndim row) h').
  split; [eapply lsh_selects_a_filter_of_the_history; eassumption|].
  split.
  - replace (colliding s ndim row) with (colliding s' ndim row) by (unfold colliding, collides; rewrite Pl; reflexivity).
    eapply lsh_selects_a_filter_of_the_history; eassumption.
  - apply filter_permutation. exact P.
Qed.

End LshWhole.
