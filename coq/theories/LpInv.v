(* LpInv.v — the learning-policy object held by a neighbourhood policy keeps its dictionary invariant under
   everything a neighbourhood policy does with it, and its single-row expectations are keyed by its arms. *)
From Coq Require Import ZArith List Bool Lia.
From MW Require Import Num Assoc AssocFacts Rng CF CFInv Matrix Lin LinInv Nbr FacadeArms.
Import ListNotations.

Section LpInv.
Context {R A G : Type} (N : Num R) (aeqb : A -> A -> bool) (RG : RngOps R G).
Hypothesis aeqb_spec : forall x y, aeqb x y = true <-> x = y.
Notation lp := (@lp R A G).

Definition lp_ok (l : lp) : Prop := match l with LCf c => keys_ok c | LLin s => lin_keys_ok s end.

Lemma lp_fit_ok (l : lp) g ds rs cx :
  lp_ok l -> lp_ok (fst (lp_fit N aeqb l g ds rs cx)) /\ lp_arms (fst (lp_fit N aeqb l g ds rs cx)) = lp_arms l.
Proof.
  destruct l as [c|s]; simpl; intros H.
  - split; [apply (cf_fit_keys_ok N aeqb aeqb_spec); exact H | apply (cf_fit_cfg N aeqb c ds rs)].
  - pose proof (lin_fit_keys_ok N aeqb aeqb_spec s g ds rs cx H) as H1.
    pose proof (lin_fit_arms N aeqb aeqb_spec s g ds rs cx H) as H2.
    destruct (lin_fit N aeqb s g ds rs cx) as [s' ok]. simpl in *. auto.
Qed.

Lemma lp_add_arm_ok (l : lp) a bz :
  lp_ok l -> ~ In a (lp_arms l) -> lp_ok (lp_add_arm N aeqb l a bz) /\ lp_arms (lp_add_arm N aeqb l a bz) = lp_arms l ++ [a].
Proof.
  destruct l as [c|s]; simpl; intros H Hn.
  - split; [apply (cf_add_arm_keys_ok N aeqb aeqb_spec); assumption | apply cf_add_arm_arms].
  - split; [apply (lin_add_arm_keys_ok N aeqb aeqb_spec); assumption | reflexivity].
Qed.

Lemma lp_remove_arm_ok (l : lp) a :
  lp_ok l -> lp_ok (lp_remove_arm N aeqb l a) /\ lp_arms (lp_remove_arm N aeqb l a) = lremove aeqb (lp_arms l) a.
Proof.
  destruct l as [c|s]; simpl; intros H.
  - split; [apply (cf_remove_arm_keys_ok N aeqb); assumption | apply cf_remove_arm_arms].
  - split; [apply (lin_remove_arm_keys_ok aeqb); assumption | reflexivity].
Qed.

Lemma set_ctxbin_ok (c : @cf R A) b : keys_ok c -> keys_ok (set_ctxbin c b).
Proof. unfold keys_ok; simpl; auto. Qed.

Lemma lp_binarize_ok (l : lp) ds rs :
  lp_ok l -> lp_ok (fst (lp_binarize l ds rs)) /\ lp_arms (fst (lp_binarize l ds rs)) = lp_arms l.
Proof.
  destruct l as [c|s]; simpl; intros H; [|auto].
  destruct (c_kind c); simpl; auto. destruct (c_binz c); simpl; auto.
Qed.

Lemma lp_mark_converted_ok (l : lp) bz :
  lp_ok l -> lp_ok (lp_mark_converted l bz) /\ lp_arms (lp_mark_converted l bz) = lp_arms l.
Proof.
  destruct l as [c|s]; simpl; intros H; [|destruct bz; auto].
  destruct bz; simpl; auto. destruct (c_kind c); simpl; auto.
Qed.

Lemma lp_expectations1_ok (l : lp) g row :
  rng_lengths_ok RG -> lp_ok l ->
  let '(e, l', _) := lp_expectations1 N aeqb RG l g row in
  akeys e = lp_arms l /\ lp_ok l' /\ lp_arms l' = lp_arms l.
Proof.
  intros Hrng. destruct l as [c|s]; simpl; intros H.
  - pose proof (cf_predict_exp_ok N aeqb RG c g (Some 1%nat) Hrng H) as H1.
    destruct (cf_predict_exp N aeqb RG c g (Some 1%nat)) as [[e c'] g']. destruct H1 as (Hf & Hl & Hk & Ha).
    simpl. unfold out_len in Hl; simpl in Hl.
    destruct e as [|d t]; [simpl in Hl; discriminate|]. inversion Hf; subst. simpl. auto.
  - pose proof (lin_expectations_ok N aeqb RG aeqb_spec s g [row] Hrng H) as H1.
    destruct (lin_expectations N aeqb RG s g [row]) as [[e s'] g']. destruct H1 as (Hf & Hl & Hk & Ha).
    simpl. destruct e as [|d t]; [simpl in Hl; discriminate|]. inversion Hf; subst. simpl. auto.
Qed.

End LpInv.
