(* ForgetInv.v — the hypothesis of Forget.v's Clusters theorem (every per-cluster policy satisfies keys_ok and clean) holds in
   every state any history of facade calls reaches. *)
From Coq Require Import ZArith List Bool Lia.
From MW Require Import Num Assoc AssocFacts Rng Par CF CFInv CFClean Matrix Lin LinInv Warm WarmInv Nbr Clu Tree Mab
     FacadeArms LpInv FacadeCF NbrInv CluTreeInv FacadeAll Forget.
Import ListNotations.

Section ForgetInv.
Context {R A G : Type} (N : Num R) (aeqb : A -> A -> bool) (RG : RngOps R G).
Hypothesis aeqb_spec : forall x y, aeqb x y = true <-> x = y.
Notation mab := (@mab R A G).
Notation op := (@op R A).
Notation imp := (@imp R A G).
Notation finv := (imp_forget_inv N).

Lemma imp_fit_finv (i : imp) g ds rs cx orc : finv i -> finv (fst (fst (imp_fit N aeqb RG i g ds rs cx orc))).
Proof.
  destruct i as [c|l|s|s|s]; cbn [imp_fit]; intros H; try exact I.
  - destruct (lin_fit N aeqb l g ds rs (octx cx)); exact I.
  - destruct (nbr_fit N RG s g ds rs (octx cx)); exact I.
  - pose proof (clu_fit_lps_inv N aeqb aeqb_spec s g ds rs (octx cx) (o_labels orc) H) as F.
    destruct (clu_fit N aeqb s g ds rs (octx cx) (o_labels orc)); exact F.
Qed.

Lemma imp_partial_fit_finv (i : imp) g ds rs cx orc : finv i -> finv (fst (fst (imp_partial_fit N aeqb i g ds rs cx orc))).
Proof.
  destruct i as [c|l|s|s|s]; cbn [imp_partial_fit]; intros H; try exact I.
  - destruct (lin_partial_fit N aeqb l g ds rs (octx cx)); exact I.
  - pose proof (clu_partial_fit_lps_inv N aeqb aeqb_spec s g ds rs (octx cx) (o_labels orc) H) as F.
    destruct (clu_partial_fit N aeqb s g ds rs (octx cx) (o_labels orc)); exact F.
Qed.

Lemma imp_query_finv (i : imp) g cx orc p : finv i -> finv (snd (fst (imp_query N aeqb RG i g cx orc p))).
Proof.
  destruct i as [c|l|s|s|s]; cbn [imp_query]; intros H.
  - destruct p; [destruct (cf_predict N aeqb RG c g (ctx_len cx)) as [[? ?] ?] | destruct (cf_predict_exp N aeqb RG c g (ctx_len cx)) as [[? ?] ?]]; exact I.
  - destruct (lin_expectations N aeqb RG l g (octx cx)) as [[? ?] ?]; exact I.
  - destruct (nbr_predict N aeqb RG s g (octx cx) (o_knn orc) (o_sizes orc) p); exact I.
  - destruct (clu_predict N aeqb RG s g (octx cx) (o_assign orc) (o_sizes orc) p); exact H.
  - destruct (tree_predict N aeqb RG s g (o_leaf orc) (octx cx) p); exact I.
Qed.

Theorem step_preserves_forget_inv (m : mab) (o : op) :
  imp_inv (m_imp m) -> finv (m_imp m) -> finv (m_imp (fst (step N aeqb RG m o))).
Proof.
  intros Hinv Hf.
  destruct o as [ds rs cx orc | ds rs cx orc | a bz | a | keys raw q | cx orc | cx orc]; unfold step.
  - destruct (fit_args_ok N m ds rs cx); [|exact Hf]. destruct (negb _); [exact Hf|].
    pose proof (imp_fit_finv (m_imp m) (m_rng m) ds rs cx orc Hf) as H.
    destruct (imp_fit N aeqb RG (m_imp m) (m_rng m) ds rs cx orc) as [[i' g'] ok]. destruct ok; exact H.
  - destruct (fit_args_ok N m ds rs cx); [|exact Hf]. destruct (negb _); [exact Hf|].
    destruct (m_fitted m).
    + pose proof (imp_partial_fit_finv (m_imp m) (m_rng m) ds rs cx orc Hf) as H.
      destruct (imp_partial_fit N aeqb (m_imp m) (m_rng m) ds rs cx orc) as [[i' g'] ok]. exact H.
    + pose proof (imp_fit_finv (m_imp m) (m_rng m) ds rs cx orc Hf) as H.
      destruct (imp_fit N aeqb RG (m_imp m) (m_rng m) ds rs cx orc) as [[i' g'] ok]. destruct ok; exact H.
  - destruct (match bz with Some _ => negb (binz_allowed (m_imp m)) | None => false end); [exact Hf|].
    destruct (amem aeqb a (m_arms m)) eqn:Em; [exact Hf|]. cbn [fst m_imp].
    apply (amem_false aeqb aeqb_spec) in Em. unfold m_arms in Em.
    destruct (m_imp m) as [c|l|s|s|s]; cbn [imp_add_arm]; try exact I.
    apply (clu_add_arm_lps_inv N aeqb aeqb_spec); [exact Hf|].
    destruct Hinv as (_ & _ & Hl). unfold lps_ok in Hl. eapply Forall_impl; [|exact Hl]. intros l [_ E]. cbn beta in E. rewrite E. exact Em.
  - destruct (amem aeqb a (m_arms m)); [|exact Hf]. cbn [fst m_imp].
    destruct (m_imp m) as [c|l|s|s|s]; cbn [imp_remove_arm]; try exact I.
    apply (clu_remove_arm_lps_inv N aeqb); exact Hf.
  - destruct (negb _); [exact Hf|]. destruct (negb _); [exact Hf|].
    destruct (m_imp m) as [s|s|s|s|s] eqn:Ei; try (cbn [fst]; rewrite Ei; exact Hf).
    + destruct (cf_warm_start N aeqb s keys raw q) as [s'|]; cbn [fst m_imp]; [exact I | rewrite Ei; exact I].
    + destruct (lin_warm_start N aeqb s (m_rng m) keys raw q) as [s'|]; cbn [fst m_imp]; [exact I | rewrite Ei; exact I].
  - destruct (negb (m_fitted m)); [exact Hf|]. destruct (negb (predict_args_ok m cx)); [exact Hf|].
    pose proof (imp_query_finv (m_imp m) (m_rng m) cx orc true Hf) as H.
    destruct (imp_query N aeqb RG (m_imp m) (m_rng m) cx orc true) as [[r i'] g']. destruct r; exact H.
  - destruct (negb (m_fitted m)); [exact Hf|]. destruct (negb (predict_args_ok m cx)); [exact Hf|].
    pose proof (imp_query_finv (m_imp m) (m_rng m) cx orc false Hf) as H.
    destruct (imp_query N aeqb RG (m_imp m) (m_rng m) cx orc false) as [[r i'] g']. destruct r; exact H.
Qed.

Theorem run_preserves_forget_inv (ops : list op) (m : mab) :
  rng_lengths_ok RG -> imp_inv (m_imp m) -> finv (m_imp m) -> finv (m_imp (state_after N aeqb RG m ops)).
Proof.
  intros Hrng. revert m. induction ops as [|o t IH]; intros m Hi Hf; unfold state_after; simpl; [auto|].
  pose proof (step_preserves_imp_inv N aeqb RG aeqb_spec m o Hrng Hi) as Hi1.
  pose proof (step_preserves_forget_inv m o Hi Hf) as Hf1.
  destruct (step N aeqb RG m o) as [m1 r] eqn:Es. simpl in *.
  specialize (IH m1 Hi1 Hf1). unfold state_after in IH.
  destruct (run N aeqb RG m1 t) as [m2 rs]. simpl in *. exact IH.
Qed.

(* a freshly constructed Clusters bandit satisfies it *)
Lemma constructed_clusters_forget_inv (m : mab) n (arms : list A) k hp bz : NoDup arms ->
  m_imp m = IClu (clu_init n arms (LCf (cf_init N k hp bz arms))) -> imp_inv (m_imp m) /\ finv (m_imp m).
Proof.
  intros Hn ->. split.
  - cbn [imp_inv]. apply clu_init_inv; [exact Hn | cbn [lp_ok]; apply keys_ok_init; exact Hn | reflexivity].
  - cbn [imp_forget_inv]. apply clu_init_lps_inv. cbn [lp_inv]. split; [apply keys_ok_init; exact Hn | apply clean_init].
Qed.

End ForgetInv.
