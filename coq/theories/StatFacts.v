(* StatFacts.v — C16: the minimum and maximum the Simulator reports for a list of rewards are elements of the list
   that bound every element (order laws), hence min <= max. *)
From Coq Require Import ZArith List Bool Lia.
From MW Require Import Num NumLaws Assoc Rng CF Matrix Lin Nbr Sim OrderFacts.
Import ListNotations.

Section StatFacts.
Context {R : Type} (N : Num R) (L : NumLaws N).

Lemma min_fold (l : list R) (b : R) :
  let r := fold_left (fun b x => if ltb N x b then x else b) l b in
  leb N r b = true /\ (forall x, In x l -> leb N r x = true) /\ (r = b \/ In r l).
Proof.
  revert b. induction l as [|x t IH]; intros b; simpl.
  - repeat split; [apply (L_leb_refl N L) | tauto | left; reflexivity].
  - destruct (ltb N x b) eqn:E.
    + destruct (IH x) as (H1 & H2 & H3). repeat split.
      * eapply (L_leb_trans N L); [exact H1 | apply (ltb_true_leb N L); exact E].
      * intros y [<-|Hin]; [exact H1 | apply H2; exact Hin].
      * right. destruct H3 as [->|H3]; [left; reflexivity | right; exact H3].
    + destruct (IH b) as (H1 & H2 & H3). repeat split.
      * exact H1.
      * intros y [<-|Hin]; [eapply (L_leb_trans N L); [exact H1 | apply (ltb_false_leb N L); exact E] | apply H2; exact Hin].
      * destruct H3 as [->|H3]; [left; reflexivity | right; right; exact H3].
Qed.

Lemma max_fold (l : list R) (b : R) :
  let r := fold_left (fun b x => if ltb N b x then x else b) l b in
  leb N b r = true /\ (forall x, In x l -> leb N x r = true) /\ (r = b \/ In r l).
Proof.
  revert b. induction l as [|x t IH]; intros b; simpl.
  - repeat split; [apply (L_leb_refl N L) | tauto | left; reflexivity].
  - destruct (ltb N b x) eqn:E.
    + destruct (IH x) as (H1 & H2 & H3). repeat split.
      * eapply (L_leb_trans N L); [apply (ltb_true_leb N L); exact E | exact H1].
      * intros y [<-|Hin]; [exact H1 | apply H2; exact Hin].
      * right. destruct H3 as [->|H3]; [left; reflexivity | right; exact H3].
    + destruct (IH b) as (H1 & H2 & H3). repeat split.
      * exact H1.
      * intros y [<-|Hin]; [eapply (L_leb_trans N L); [apply (ltb_false_leb N L); exact E | exact H1] | apply H2; exact Hin].
      * destruct H3 as [->|H3]; [left; reflexivity | right; right; exact H3].
Qed.

Theorem list_min_is_attained_lower_bound (l : list R) :
  l <> [] -> In (list_min N l) l /\ forall x, In x l -> leb N (list_min N l) x = true.
Proof.
  destruct l as [|h t]; [congruence|]. intros _. unfold list_min. destruct (min_fold t h) as (H1 & H2 & H3).
  split; [destruct H3 as [->|H3]; [left; reflexivity | right; exact H3]|].
  intros x [<-|Hin]; [exact H1 | apply H2; exact Hin].
Qed.

Theorem list_max_is_attained_upper_bound (l : list R) :
  l <> [] -> In (list_max N l) l /\ forall x, In x l -> leb N x (list_max N l) = true.
Proof.
  destruct l as [|h t]; [congruence|]. intros _. unfold list_max. destruct (max_fold t h) as (H1 & H2 & H3).
  split; [destruct H3 as [->|H3]; [left; reflexivity | right; exact H3]|].
  intros x [<-|Hin]; [exact H1 | apply H2; exact Hin].
Qed.

Corollary stats_min_le_max (rs : list R) : rs <> [] -> leb N (st_min (get_stats N rs)) (st_max (get_stats N rs)) = true.
Proof.
  intros Hne. unfold get_stats; simpl. destruct (list_min_is_attained_lower_bound rs Hne) as [Hin _].
  apply (proj2 (list_max_is_attained_upper_bound rs Hne)). exact Hin.
Qed.

End StatFacts.
