(* C17Singular.v — finding D22 as a theorem about the model: with l2_lambda = 0 a partial_fit can be rejected (the matrix of the
   second arm, x x' for a single row x, is exactly singular: np.linalg.inv raises) AFTER the first arm's regression was refitted.
   Witness over the rationals: arms 1, 2; fit arm 1 on the unit rows; partial_fit [1, 2] on rows (1,1), (1,2). *)
From Coq Require Import ZArith List Bool QArith Qcanon.
From MW Require Import Num Assoc Rng CF Matrix Lin Warm Nbr Clu Tree Mab QcInst.
Import ListNotations.

Definition qz (z : Z) : Qc := Q2Qc (inject_Z z).
Definition d22_orc : @oracle Qc Z := mkOracle [] [] [] (fun _ _ => O) [].
Definition d22_bandit : @mab Qc Z nat :=
  mkMab (ILin (lin_init QcNum RRidge (qz 0) (qz 0) (qz 0) false true [1; 2]%Z)) false 0%nat.
Definition d22_fitted : @mab Qc Z nat :=
  fst (step QcNum Z.eqb ToyRng d22_bandit (Fit [1; 1]%Z [qz 1; qz 2] (Some [[qz 1; qz 0]; [qz 0; qz 1]]) d22_orc)).
Definition d22_call : @op Qc Z := PartialFit [1; 2]%Z [qz 5; qz 1] (Some [[qz 1; qz 1]; [qz 1; qz 2]]) d22_orc.

Definition beta_of (m : @mab Qc Z nat) (a : Z) : list Qc :=
  match m_imp m with ILin s => r_beta (aget_d Z.eqb ridge_new (l_models s) a) | _ => [] end.

Theorem rejected_singular_partial_fit_refuted :
  snd (step QcNum Z.eqb ToyRng d22_fitted d22_call) = ORejected /\
  beta_of d22_fitted 1%Z = [qz 1; qz 2] /\
  beta_of (fst (step QcNum Z.eqb ToyRng d22_fitted d22_call)) 1%Z <> [qz 1; qz 2].
Proof. vm_compute. repeat split; discriminate. Qed.
