(* NumLaws.v — the algebraic laws under which the "algebraic" theorems are stated (exact
   arithmetic), and the proof that the rational instance QcNum satisfies them. *)
From Coq Require Import ZArith List Bool QArith Qcanon Ring Field Lia.
From MW Require Import Num.
Import ListNotations.

Record NumLaws {R : Type} (N : Num R) : Prop := mkLaws {
  L_ring : ring_theory (zero N) (one N) (add N) (mul N) (sub N) (fun x => sub N (zero N) x) (@eq R);
  L_div : forall x y, y <> zero N -> mul N (div N x y) y = x;
  L_mul_cancel : forall x z y, y <> zero N -> mul N x y = mul N z y -> x = z;
  L_nsum : forall l, nsum N l = fold_right (add N) (zero N) l;
  L_psum : forall l, psum N l = fold_left (add N) l (zero N);
  L_of_Z_add : forall a b, of_Z N (a + b) = add N (of_Z N a) (of_Z N b);
  L_of_Z_0 : of_Z N 0 = zero N;
  L_of_Z_1 : of_Z N 1 = one N;
  L_of_Z_pos : forall z, (0 < z)%Z -> of_Z N z <> zero N;
  (* order *)
  L_leb_refl : forall x, leb N x x = true;
  L_leb_trans : forall x y z, leb N x y = true -> leb N y z = true -> leb N x z = true;
  L_leb_total : forall x y, leb N x y = true \/ leb N y x = true;
  L_leb_antisym : forall x y, leb N x y = true -> leb N y x = true -> x = y;
  L_ltb_leb : forall x y, ltb N x y = negb (leb N y x);
  L_eqb_eq : forall x y, eqb N x y = true <-> x = y;
  L_add_leb : forall x y z, leb N x y = true -> leb N (add N x z) (add N y z) = true;
  L_mul_pos : forall x y, ltb N (zero N) x = true -> ltb N (zero N) y = true -> ltb N (zero N) (mul N x y) = true
}.

Section Derived.
Context {R : Type} (N : Num R) (L : NumLaws N).

Lemma nsum_app l1 l2 : nsum N (l1 ++ l2) = add N (nsum N l1) (nsum N l2).
Proof.
  rewrite !(L_nsum N L). induction l1 as [|x t IH]; simpl.
  - symmetry. apply (Radd_0_l (L_ring N L)).
  - rewrite IH. apply (Radd_assoc (L_ring N L)).
Qed.

Lemma add_0_l x : add N (zero N) x = x.
Proof. apply (Radd_0_l (L_ring N L)). Qed.
Lemma add_0_r x : add N x (zero N) = x.
Proof. rewrite (Radd_comm (L_ring N L)). apply add_0_l. Qed.
Lemma add_comm x y : add N x y = add N y x.
Proof. apply (Radd_comm (L_ring N L)). Qed.
Lemma add_assoc x y z : add N x (add N y z) = add N (add N x y) z.
Proof. apply (Radd_assoc (L_ring N L)). Qed.

Lemma nsum_nil : nsum N [] = zero N.
Proof. rewrite (L_nsum N L); reflexivity. Qed.

End Derived.

(* ---- the rational instance satisfies the laws ------------------------------------ *)
Lemma Qc_leb_spec (x y : Qc) : Qc_leb x y = true <-> (x <= y)%Qc.
Proof. unfold Qc_leb, Qcle. apply Qle_bool_iff. Qed.

Lemma QcLaws : NumLaws QcNum.
Proof.
  constructor; simpl.
  - constructor; intros; try ring.
  - intros x y Hy. field. exact Hy.
  - intros x z y Hy H. assert (E : (x * y / y = z * y / y)%Qc) by (rewrite H; reflexivity).
    replace (x * y / y)%Qc with x in E by (field; exact Hy). replace (z * y / y)%Qc with z in E by (field; exact Hy). exact E.
  - reflexivity.
  - reflexivity.
  - intros a b. unfold Qc_of_Z. apply Qc_is_canon. unfold Qcplus, Q2Qc; cbn [this].
    rewrite !Qred_correct. rewrite inject_Z_plus. reflexivity.
  - reflexivity.
  - reflexivity.
  - intros z Hz E. unfold Qc_of_Z in E. apply (f_equal (fun q : Qc => Qnum (this q))) in E. simpl in E.
    assert (H : Qred (inject_Z z) == inject_Z z) by apply Qred_correct.
    unfold Qeq in H. simpl in H. rewrite E in H. lia.
  - intros x. apply Qc_leb_spec. apply Qcle_refl.
  - intros x y z H1 H2. apply Qc_leb_spec in H1, H2. apply Qc_leb_spec. eapply Qcle_trans; eauto.
  - intros x y. destruct (Qclt_le_dec x y) as [H|H]; [left; apply Qc_leb_spec; apply Qclt_le_weak; exact H | right; apply Qc_leb_spec; exact H].
  - intros x y H1 H2. apply Qc_leb_spec in H1, H2. apply Qcle_antisym; assumption.
  - intros x y. unfold Qc_ltb, Qc_leb. reflexivity.
  - intros x y. unfold Qc_eqb. split.
    + intros H. apply Qeq_bool_iff in H. apply Qc_is_canon. exact H.
    + intros ->. apply Qeq_bool_iff. reflexivity.
  - intros x y z H. apply Qc_leb_spec in H. apply Qc_leb_spec. apply Qcplus_le_compat; [exact H | apply Qcle_refl].
  - intros x y Hx Hy. unfold Qc_ltb in *. apply negb_true_iff in Hx, Hy. apply negb_true_iff.
    change (Qc_leb x 0 = false) in Hx. change (Qc_leb y 0 = false) in Hy. change (Qc_leb (x * y) 0 = false).
    destruct (Qc_leb (x * y) 0) eqn:E; [|reflexivity]. exfalso.
    assert (Hx' : (0 < x)%Qc) by (apply Qcnot_le_lt; intros H; apply Qc_leb_spec in H; congruence).
    assert (Hy' : (0 < y)%Qc) by (apply Qcnot_le_lt; intros H; apply Qc_leb_spec in H; congruence).
    apply Qc_leb_spec in E. pose proof (Qcmult_lt_compat_r 0 x y Hy' Hx') as Hm. replace (0 * y)%Qc with 0%Qc in Hm by ring.
    apply (Qclt_not_le _ _ Hm). exact E.
Qed.
