(* Mab.v — the public facade (mab.py: class MAB): argument validation in code order,
   _is_initial_fit, dispatch to the implementation object, output shapes.
   A call is an [op]; [step] returns the new state and what the caller sees. *)
From Coq Require Import ZArith List Bool.
From MW Require Import Num Assoc Rng CF Warm Matrix Lin Nbr Clu Tree.
Import ListNotations.

Section Mab.
Context {R A G : Type} (N : Num R) (aeqb : A -> A -> bool) (RG : RngOps R G).

Definition ctxs := list (list R).

(* answers of the third-party libraries for one call (see DESIGN.md 2.4) *)
Record oracle := mkOracle {
  o_knn : list (list nat);         (* per query row: np.argpartition(d, k-1)[:k] *)
  o_labels : list nat;             (* kmeans.labels_ after kmeans.fit(all stored contexts) *)
  o_assign : list nat;             (* kmeans.predict(query rows) *)
  o_leaf : A -> list R -> nat;     (* arm_to_tree[a].apply([x])[0] *)
  o_sizes : list nat               (* the partition of the query rows into chunks (n_jobs) *)
}.

Inductive op : Type :=
| Fit (ds : list A) (rs : list R) (cx : option ctxs) (orc : oracle)
| PartialFit (ds : list A) (rs : list R) (cx : option ctxs) (orc : oracle)
| AddArm (a : A) (bz : option (A -> R -> R))
| RemoveArm (a : A)
| WarmStart (keys : list A) (raw : A -> A -> R) (q : R)
| Predict (cx : option ctxs) (orc : oracle)
| PredictExp (cx : option ctxs) (orc : oracle).

(* what the caller observes; expectations are [option R] because neighbourhood
   policies report NaN (None) for an empty neighbourhood *)
Inductive out : Type :=
| ODone
| ORejected
| OArm (a : option A)
| OArms (l : list (option A))
| OExp (d : list (A * option R))
| OExps (l : list (list (A * option R))).

Inductive imp : Type :=
| ICf (s : @cf R A)
| ILin (s : @lin R A G)
| INbr (s : @nbr R A G)
| IClu (s : @clu R A G)
| ITree (s : @tree R A).

Record mab := mkMab {
  m_imp : imp;
  m_fitted : bool;      (* _is_initial_fit *)
  m_rng : G             (* the generator object shared by MAB, _imp and the learning policy *)
}.

Definition imp_arms (i : imp) : list A :=
  match i with
  | ICf s => c_arms s | ILin s => l_arms s | INbr s => n_arms s | IClu s => k_arms s | ITree s => t_arms s
  end.
Definition m_arms (m : mab) : list A := imp_arms (m_imp m).

Definition is_contextual (i : imp) : bool := match i with ICf _ => false | _ => true end.

Definition is_binary (x : R) : bool := eqb N x (zero N) || eqb N x (one N).

Definition cf_ts_nobinz (s : @cf R A) : bool :=
  match c_kind s, c_binz s with KThompson, None => true | _, _ => false end.
Definition lp_ts_nobinz (l : @lp R A G) : bool := match l with LCf s => cf_ts_nobinz s | LLin _ => false end.

(* learning_policy property: ThompsonSampling with binarizer None *)
Definition ts_needs_binary (i : imp) : bool :=
  match i with
  | ICf s => cf_ts_nobinz s
  | ILin _ => false
  | INbr s => lp_ts_nobinz (n_lp s)
  | IClu s => match k_lps s with l :: _ => lp_ts_nobinz l | [] => false end
  | ITree s => cf_ts_nobinz (t_lp s)
  end.

Definition ctx_len (cx : option ctxs) : option nat := option_map (@length _) cx.

(* _validate_fit_args (the classes of invalid argument expressible on well-typed data) *)
Definition fit_args_ok (m : mab) (ds : list A) (rs : list R) (cx : option ctxs) : bool :=
  (match cx with
   | Some c => is_contextual (m_imp m) && Nat.eqb (length ds) (length c)
   | None => negb (is_contextual (m_imp m))
   end)
  && Nat.eqb (length ds) (length rs)
  && (if ts_needs_binary (m_imp m) then forallb is_binary rs else true).

Definition predict_args_ok (m : mab) (cx : option ctxs) : bool :=
  match cx with None => negb (is_contextual (m_imp m)) | Some _ => true end.

Definition octx (cx : option ctxs) : ctxs := match cx with Some c => c | None => [] end.

(* fit / partial_fit of the implementation object; the flag is false when an exception
   escapes from inside training (the returned state is the partially updated one) *)
Definition imp_fit (i : imp) (g : G) (ds : list A) (rs : list R) (cx : option ctxs) (orc : oracle) : imp * G * bool :=
  match i with
  | ICf s => (ICf (cf_fit N aeqb s ds rs), g, true)
  | ILin s => let (s', ok) := lin_fit N aeqb s g ds rs (octx cx) in (ILin s', g, ok)
  | INbr s => let (s', g') := nbr_fit N RG s g ds rs (octx cx) in (INbr s', g', true)
  | IClu s => let (s', ok) := clu_fit N aeqb s g ds rs (octx cx) (o_labels orc) in (IClu s', g, ok)
  | ITree s => (ITree (tree_fit aeqb s (o_leaf orc) ds rs (octx cx)), g, true)
  end.
Definition imp_partial_fit (i : imp) (g : G) (ds : list A) (rs : list R) (cx : option ctxs) (orc : oracle) : imp * G * bool :=
  match i with
  | ICf s => (ICf (cf_partial_fit N aeqb s ds rs), g, true)
  | ILin s => let (s', ok) := lin_partial_fit N aeqb s g ds rs (octx cx) in (ILin s', g, ok)
  | INbr s => (INbr (nbr_partial_fit N s ds rs (octx cx)), g, true)
  | IClu s => let (s', ok) := clu_partial_fit N aeqb s g ds rs (octx cx) (o_labels orc) in (IClu s', g, ok)
  | ITree s => (ITree (tree_partial_fit aeqb s (o_leaf orc) ds rs (octx cx)), g, true)
  end.
Definition imp_add_arm (i : imp) (a : A) bz : imp :=
  match i with
  | ICf s => ICf (cf_add_arm N aeqb s a bz)
  | ILin s => ILin (lin_add_arm N aeqb s a)
  | INbr s => INbr (nbr_add_arm N aeqb s a bz)
  | IClu s => IClu (clu_add_arm N aeqb s a bz)
  | ITree s => ITree (tree_add_arm N aeqb s a bz)
  end.
Definition imp_remove_arm (i : imp) (a : A) : imp :=
  match i with
  | ICf s => ICf (cf_remove_arm N aeqb s a)
  | ILin s => ILin (lin_remove_arm aeqb s a)
  | INbr s => INbr (nbr_remove_arm N aeqb s a)
  | IClu s => IClu (clu_remove_arm N aeqb s a)
  | ITree s => ITree (tree_remove_arm N aeqb s a)
  end.

(* shape errors raised from inside training before anything is assigned (the repaired code is atomic):
   another context width than the stored history / the fitted trees, fewer rows than clusters *)
Definition width_ok (stored new : ctxs) : bool :=
  match stored, new with
  | _ :: _, _ :: _ => Nat.eqb (ncols stored) (ncols new)
  | _, _ => true
  end.
Definition train_shape_ok (i : imp) (is_partial : bool) (ds : list A) (cx : option ctxs) : bool :=
  match i with
  | INbr s => if is_partial then width_ok (n_cx s) (octx cx) else true
  | IClu s => (if is_partial then width_ok (k_cx s) (octx cx) && Nat.leb (k_n s) (length (k_cx s) + length ds)
               else Nat.leb (k_n s) (length ds))
  | ITree s => if is_partial then match t_nf s, octx cx with Some d, _ :: _ => Nat.eqb d (ncols (octx cx)) | _, _ => true end else true
  | ILin s => if is_partial then match l_nf s, octx cx with Some d, _ :: _ => Nat.eqb d (ncols (octx cx)) | _, _ => true end else true
  | _ => true
  end.

Definition cf_is_ts (s : @cf R A) : bool := match c_kind s with KThompson => true | _ => false end.
(* add_arm's binarizer check: isinstance(_imp, TS) or isinstance(_imp.lp, TS); _Clusters has
   no attribute lp, so the check raises for Clusters whenever a binarizer is given *)
Definition binz_allowed (i : imp) : bool :=
  match i with
  | ICf s => cf_is_ts s
  | ILin _ => false
  | INbr s => match n_lp s with LCf c => cf_is_ts c | LLin _ => false end
  | IClu _ => false
  | ITree s => cf_is_ts (t_lp s)
  end.

Definition some_exp (d : list (A * R)) : list (A * option R) := map (fun kv => (fst kv, Some (snd kv))) d.

Definition lefts (l : list (option A + list (A * option R))) : list (option A) :=
  map (fun x => match x with inl a => a | inr _ => None end) l.
Definition rights (l : list (option A + list (A * option R))) : list (list (A * option R)) :=
  map (fun x => match x with inr d => d | inl _ => [] end) l.

(* _imp.predict / _imp.predict_expectations; None = the call raises *)
Definition imp_query (i : imp) (g : G) (cx : option ctxs) (orc : oracle) (is_predict : bool)
  : option (list (option A + list (A * option R))) * imp * G :=
  match i with
  | ICf s =>
      if is_predict then
        let '(p, s', g') := cf_predict N aeqb RG s g (ctx_len cx) in (Some (map inl p), ICf s', g')
      else
        let '(e, s', g') := cf_predict_exp N aeqb RG s g (ctx_len cx) in (Some (map (fun d => inr (some_exp d)) e), ICf s', g')
  | ILin s =>
      let '(e, s', g') := lin_expectations N aeqb RG s g (octx cx) in
      (Some (map (fun d => if is_predict then inl (argmax_first N d) else inr (some_exp d)) e), ILin s', g')
  | INbr s =>
      let (r, g') := nbr_predict N aeqb RG s g (octx cx) (o_knn orc) (o_sizes orc) is_predict in (r, i, g')
  | IClu s =>
      let (r, g') := clu_predict N aeqb RG s g (octx cx) (o_assign orc) (o_sizes orc) is_predict in (Some r, i, g')
  | ITree s =>
      let (r, g') := tree_predict N aeqb RG s g (o_leaf orc) (octx cx) is_predict in (Some r, i, g')
  end.

Definition shape_arms (l : list (option A)) : out :=
  match l with [a] => OArm a | _ => OArms l end.
Definition shape_exps (l : list (list (A * option R))) : out :=
  match l with [d] => OExp d | _ => OExps l end.

Definition step (m : mab) (o : op) : mab * out :=
  match o with
  | Fit ds rs cx orc =>
      if fit_args_ok m ds rs cx
      then if negb (train_shape_ok (m_imp m) false ds cx) then (m, ORejected) else
           let '(i', g', ok) := imp_fit (m_imp m) (m_rng m) ds rs cx orc in
           if ok then (mkMab i' true g', ODone) else (mkMab i' (m_fitted m) g', ORejected)
      else (m, ORejected)
  | PartialFit ds rs cx orc =>
      if fit_args_ok m ds rs cx
      then if negb (train_shape_ok (m_imp m) (m_fitted m) ds cx) then (m, ORejected) else
           if m_fitted m
           then let '(i', g', ok) := imp_partial_fit (m_imp m) (m_rng m) ds rs cx orc in
                (mkMab i' true g', if ok then ODone else ORejected)
           else let '(i', g', ok) := imp_fit (m_imp m) (m_rng m) ds rs cx orc in
                if ok then (mkMab i' true g', ODone) else (mkMab i' (m_fitted m) g', ORejected)
      else (m, ORejected)
  | AddArm a bz =>
      if (match bz with Some _ => negb (binz_allowed (m_imp m)) | None => false end) then (m, ORejected)
      else if amem aeqb a (m_arms m) then (m, ORejected)
      else (mkMab (imp_add_arm (m_imp m) a bz) (m_fitted m) (m_rng m), ODone)
  | RemoveArm a =>
      if amem aeqb a (m_arms m)
      then (mkMab (imp_remove_arm (m_imp m) a) (m_fitted m) (m_rng m), ODone)
      else (m, ORejected)
  | WarmStart keys raw q =>
      (* 0 <= q <= 1 ; set(self.arms) == set(arm_to_features.keys()) *)
      if negb (leb N (zero N) q && leb N q (one N)) then (m, ORejected)
      else if negb (forallb (fun a => amem aeqb a keys) (m_arms m) && forallb (fun a => amem aeqb a (m_arms m)) keys)
      then (m, ORejected)
      else match m_imp m with
           | ICf s => match cf_warm_start N aeqb s keys raw q with
                      | Some s' => (mkMab (ICf s') (m_fitted m) (m_rng m), ODone)
                      | None => (m, ORejected)
                      end
           | ILin s => match lin_warm_start N aeqb s (m_rng m) keys raw q with
                       | Some s' => (mkMab (ILin s') (m_fitted m) (m_rng m), ODone)
                       | None => (m, ORejected)
                       end
           | _ => (m, ODone)      (* neighbourhood policies: warm_start is `pass` *)
           end
  | Predict cx orc =>
      if negb (m_fitted m) then (m, ORejected)
      else if negb (predict_args_ok m cx) then (m, ORejected)
      else let '(r, i', g') := imp_query (m_imp m) (m_rng m) cx orc true in
           match r with
           | Some l => (mkMab i' (m_fitted m) g', shape_arms (lefts l))
           | None => (mkMab i' (m_fitted m) g', ORejected)
           end
  | PredictExp cx orc =>
      if negb (m_fitted m) then (m, ORejected)
      else if negb (predict_args_ok m cx) then (m, ORejected)
      else let '(r, i', g') := imp_query (m_imp m) (m_rng m) cx orc false in
           match r with
           | Some l => (mkMab i' (m_fitted m) g', shape_exps (rights l))
           | None => (mkMab i' (m_fitted m) g', ORejected)
           end
  end.

(* run a history, collecting what each call returned *)
Fixpoint run (m : mab) (ops : list op) : mab * list out :=
  match ops with
  | [] => (m, [])
  | o :: t => let (m1, r) := step m o in let (m2, rs) := run m1 t in (m2, r :: rs)
  end.

Definition state_after (m : mab) (ops : list op) : mab := fst (run m ops).

(* MAB.cold_arms: [] whenever there is a neighbourhood policy *)
Definition mab_cold_arms (m : mab) : list A :=
  match m_imp m with
  | ICf s => cold_arms aeqb s
  | ILin s => lin_cold_arms aeqb s
  | _ => []
  end.

End Mab.
