(*  C17 — A rejected call changes nothing.
   
    The model returns, for a rejected call, the state after whatever the code had already assigned when it
    raised; the theorems say that state is the one before the call (Leibniz equality):
     * add_arm, remove_arm, warm_start: for EVERY policy combination, every argument;
     * fit / partial_fit: for context-free bandits, TreeBandit, Radius/KNearest/LSHNearest and Clusters over a context-free policy - including the
       shape errors from inside training (context width, fewer rows than clusters are rejected before anything
       is assigned in the repaired code: fixes D9, Clusters history, TreeBandit width);
     * predict / predict_expectations before the first fit, and (fix D26) a query whose contexts have another width than the bandit was trained on: the
       facade rejects it before the policy and its generator are touched (Series.v: vstep);
     * linear policies: a partial_fit with another context width is rejected from inside training by the first arm that has
       rows and leaves the policy and the bandit Leibniz-equal (C17Lin);
     * linear policies with l2_lambda > 0 (scale=False, ordered-field laws; LinPD.v, LinPDFacade.v): in every state a history of facade calls
       reaches, every per-arm matrix is lambda*I or lambda*I + X'X for rows X of the fitted width; such a matrix is never singular (C02), so
       training on a rectangular context array never raises from inside a per-arm task, and EVERY rejected fit / partial_fit of a linear
       bandit leaves it Leibniz-equal to what it was (rejected_linear_training_call_changes_nothing);
    ..._partial: for l2_lambda = 0 linear policies, and Clusters over linear policies, can raise from np.linalg.inv inside a per-arm
    task after earlier arms were updated - for l2_lambda = 0 only: for l2_lambda > 0 the matrix is never singular (C02,
    ridge_fits_never_singular); the branch is modelled, and for l2_lambda = 0 the property is REFUTED on the model with a concrete witness
    (finding D22, reproduced on the code: LinAlgError after the first arm was refitted). Ill-typed arguments are outside the model and covered by the 25-class relation. *)
From Coq Require Import List ZArith Bool Arith QArith Qcanon Permutation.
From MW Require Import Num Assoc AssocFacts Rng Par CF CFInv CFClean CFForget CFSpec Matrix Lin Warm WarmInv Nbr NbrFacts NbrIndep LshFacts Clu Tree CellFacts Mab FacadeCF FacadeArms MoreFacts NumLaws CFAlg Sim Extra QcInst OrderFacts ExpIrrel LinInv FacadeLin LpInv NbrInv CluTreeInv FacadeAll ToyFacts C09All C10All LinForget LinSim MatrixFacts GaussJordan LinSpec NbrIndepGen CluIndep C17Lin WarmIdem C14More LshScale TreeLeaf Rename PopSpec CopyFacts StatFacts CluBatch LinWarm C17Singular LinPD LinPDFacade Series.
Import ListNotations.

Theorem C17_rejected_arm_or_warm_start_call_changes_nothing :
  forall (R A G : Type) (N : Num R) (aeqb : A -> A -> bool) (RG : RngOps R G) (m : (@mab R A G)) (o : (@op R A)),
  match o with
  | AddArm _ _ | RemoveArm _ | WarmStart _ _ _ => True
  | _ => False
  end -> snd (step N aeqb RG m o) = ORejected -> fst (step N aeqb RG m o) = m.
Proof. exact @rejected_nontraining_call_changes_nothing. Qed.
Print Assumptions C17_rejected_arm_or_warm_start_call_changes_nothing.

Theorem C17_rejected_training_call_changes_nothing_partial :
  forall (R A G : Type) (N : Num R) (aeqb : A -> A -> bool) (RG : RngOps R G) 
    (m : (@mab R A G)) (ds : list A) (rs : list R) (cx : option (@ctxs R)) (orc : (@oracle R A)) 
    (partial : bool),
  never_raises (m_imp m) ->
  let o := if partial then PartialFit ds rs cx orc else Fit ds rs cx orc in
  snd (step N aeqb RG m o) = ORejected -> fst (step N aeqb RG m o) = m.
Proof. exact @rejected_training_call_changes_nothing. Qed.
Print Assumptions C17_rejected_training_call_changes_nothing_partial.

Theorem C17_query_before_fit_rejected_without_change :
  forall (R A G : Type) (N : Num R) (aeqb : A -> A -> bool) (RG : RngOps R G) 
    (m : (@mab R A G)) (cx : option (@ctxs R)) (orc : (@oracle R A)),
  m_fitted m = false ->
  step N aeqb RG m (Predict cx orc) = (m, ORejected) /\
  step N aeqb RG m (PredictExp cx orc) = (m, ORejected).
Proof. exact @rejected_query_before_fit. Qed.
Print Assumptions C17_query_before_fit_rejected_without_change.

Theorem C17_rejected_linear_partial_fit_changes_nothing :
  forall (R A G : Type) (N : Num R) (aeqb : A -> A -> bool) (RG : RngOps R G) 
    (m : (@mab R A G)) (s : (@lin R A G)) (ds : list A) (rs : list R) (cx : (@mat R)) (orc : (@oracle R A)) 
    (w d : nat),
  m_imp m = ILin s ->
  m_fitted m = true ->
  l_nf s = Some d ->
  uniform_width w cx ->
  w <> d ->
  snd (step N aeqb RG m (PartialFit ds rs (Some cx) orc)) = ORejected ->
  fst (step N aeqb RG m (PartialFit ds rs (Some cx) orc)) = m.
Proof. exact @rejected_linear_partial_fit_changes_nothing. Qed.
Print Assumptions C17_rejected_linear_partial_fit_changes_nothing.

Theorem C17_linear_policy_unchanged_by_width_rejected_partial_fit :
  forall (R A G : Type) (N : Num R) (aeqb : A -> A -> bool) (s : (@lin R A G)) (g : G) 
    (ds : list A) (rs : list R) (cx : (@mat R)) (w d : nat),
  uniform_width w cx ->
  l_nf s = Some d ->
  w <> d ->
  snd (lin_partial_fit N aeqb s g ds rs cx) = false -> fst (lin_partial_fit N aeqb s g ds rs cx) = s.
Proof. exact @lin_partial_fit_width_rejected. Qed.
Print Assumptions C17_linear_policy_unchanged_by_width_rejected_partial_fit.

Theorem C17_rejected_add_arm_unchanged :
  forall (R A G : Type) (N : Num R) (aeqb : A -> A -> bool) (RG : RngOps R G) 
    (m : (@mab R A G)) (a : A) (bz : option (A -> R -> R)),
  snd (step N aeqb RG m (AddArm a bz)) = ORejected -> fst (step N aeqb RG m (AddArm a bz)) = m.
Proof. exact @add_arm_rejected_unchanged. Qed.
Print Assumptions C17_rejected_add_arm_unchanged.

Theorem C17_rejected_singular_partial_fit_at_l2_zero_refuted :
  snd (step QcNum Z.eqb ToyRng d22_fitted d22_call) = ORejected /\
  beta_of d22_fitted 1 = [qz 1; qz 2] /\
  beta_of (fst (step QcNum Z.eqb ToyRng d22_fitted d22_call)) 1 <> [qz 1; qz 2].
Proof. exact @rejected_singular_partial_fit_refuted. Qed.
Print Assumptions C17_rejected_singular_partial_fit_at_l2_zero_refuted.

Theorem C17_query_of_another_width_is_rejected_unchanged :
  forall (R A G : Type) (N : Num R) (aeqb : A -> A -> bool) (RG : RngOps R G) 
    (m : (@mab R A G)) (cx : option (@ctxs R)) (orc : (@oracle R A)),
  query_shape_ok (m_imp m) cx = false ->
  vstep N aeqb RG m (Predict cx orc) = (m, ORejected) /\
  vstep N aeqb RG m (PredictExp cx orc) = (m, ORejected).
Proof. exact @query_of_another_width_is_rejected_unchanged. Qed.
Print Assumptions C17_query_of_another_width_is_rejected_unchanged.

Theorem C17_width_validation_passes_the_call_on_or_rejects_it_unchanged :
  forall (R A G : Type) (N : Num R) (aeqb : A -> A -> bool) (RG : RngOps R G) (m : (@mab R A G)) (o : (@op R A)),
  vstep N aeqb RG m o = step N aeqb RG m o \/ vstep N aeqb RG m o = (m, ORejected).
Proof. exact @vstep_is_step_or_rejects_unchanged. Qed.
Print Assumptions C17_width_validation_passes_the_call_on_or_rejects_it_unchanged.

Theorem C17_rejected_linear_training_call_changes_nothing_for_positive_lambda :
  forall (R A G : Type) (N : Num R),
  NumLaws N ->
  forall (aeqb : A -> A -> bool) (RG : RngOps R G),
  (forall x y : A, aeqb x y = true <-> x = y) ->
  forall (m : (@mab R A G)) (s : (@lin R A G)) (ds : list A) (rs : list R) (cx : option (@ctxs R)) (orc : (@oracle R A)),
  m_imp m = ILin s ->
  lin_mab_inv N m ->
  rect cx ->
  (snd (step N aeqb RG m (Fit ds rs cx orc)) = ORejected ->
   fst (step N aeqb RG m (Fit ds rs cx orc)) = m) /\
  (snd (step N aeqb RG m (PartialFit ds rs cx orc)) = ORejected ->
   fst (step N aeqb RG m (PartialFit ds rs cx orc)) = m).
Proof. exact @rejected_linear_training_call_changes_nothing. Qed.
Print Assumptions C17_rejected_linear_training_call_changes_nothing_for_positive_lambda.

Theorem C17_linear_invariant_on_every_history :
  forall (R A G : Type) (N : Num R),
  NumLaws N ->
  forall (aeqb : A -> A -> bool) (RG : RngOps R G),
  (forall x y : A, aeqb x y = true <-> x = y) ->
  forall (ops : list (@op R A)) (m : (@mab R A G)) (s : (@lin R A G)),
  Forall op_rect ops ->
  m_imp m = ILin s -> lin_inv N (m_fitted m) s -> lin_mab_inv N (state_after N aeqb RG m ops).
Proof. exact @run_preserves_lin_inv. Qed.
Print Assumptions C17_linear_invariant_on_every_history.

Theorem C17_constructed_linear_bandit_satisfies_the_invariant :
  forall (R A G : Type) (N : Num R) (m : (@mab R A G)) (k : regkind) (alpha eps l2 : R) 
    (kf : bool) (arms : list A),
  NoDup arms ->
  ltb N (zero N) l2 = true ->
  m_imp m = ILin (lin_init N k alpha eps l2 false kf arms) -> m_fitted m = false -> lin_mab_inv N m.
Proof. exact @constructed_linear_bandit_inv. Qed.
Print Assumptions C17_constructed_linear_bandit_satisfies_the_invariant.

Theorem C17_linear_fit_never_raises_for_positive_lambda :
  forall (R A G : Type) (N : Num R),
  NumLaws N ->
  forall aeqb : A -> A -> bool,
  (forall x y : A, aeqb x y = true <-> x = y) ->
  forall (s : (@lin R A G)) (g : G) (ds : list A) (rs : list R) (cx : (@mat R)),
  ltb N (zero N) (l_l2 s) = true ->
  lin_keys_ok s ->
  l_scale s = false ->
  uniform_width (ncols cx) cx ->
  snd (lin_fit N aeqb s g ds rs cx) = true /\
  lin_pd N (fst (lin_fit N aeqb s g ds rs cx)) /\
  l_nf (fst (lin_fit N aeqb s g ds rs cx)) = Some (ncols cx) /\
  l_l2 (fst (lin_fit N aeqb s g ds rs cx)) = l_l2 s.
Proof. exact @lin_fit_never_fails. Qed.
Print Assumptions C17_linear_fit_never_raises_for_positive_lambda.

Theorem C17_linear_partial_fit_never_raises_for_positive_lambda :
  forall (R A G : Type) (N : Num R),
  NumLaws N ->
  forall aeqb : A -> A -> bool,
  (forall x y : A, aeqb x y = true <-> x = y) ->
  forall (s : (@lin R A G)) (g : G) (ds : list A) (rs : list R) (cx : (@mat R)) (d : nat),
  ltb N (zero N) (l_l2 s) = true ->
  lin_keys_ok s ->
  lin_pd N s ->
  l_nf s = Some d ->
  uniform_width d cx ->
  snd (lin_partial_fit N aeqb s g ds rs cx) = true /\
  lin_pd N (fst (lin_partial_fit N aeqb s g ds rs cx)) /\
  l_nf (fst (lin_partial_fit N aeqb s g ds rs cx)) = Some d /\
  l_l2 (fst (lin_partial_fit N aeqb s g ds rs cx)) = l_l2 s.
Proof. exact @lin_partial_fit_never_fails. Qed.
Print Assumptions C17_linear_partial_fit_never_raises_for_positive_lambda.

(* non-vacuity: a LinUCB bandit (lambda = 2) over the rationals after fit, add_arm, partial_fit and a query satisfies the invariant; a
   partial_fit with three instead of two columns is rejected and leaves the bandit as it was *)
Definition q17 (z : Z) : Qc := Q2Qc (inject_Z z).
Definition ex17_m0 : @mab Qc Z nat := mkMab (ILin (lin_init QcNum RUcb (q17 1) (q17 0) (q17 2) false false [1; 2]%Z)) false 7%nat.
Definition ex17_o : @oracle Qc Z := mkOracle [] [] [] (fun _ _ => 0%nat) [].
Definition ex17_ops : list (@op Qc Z) :=
  [Fit [1; 2; 1]%Z [q17 1; q17 0; q17 2] (Some [[q17 1; q17 0]; [q17 0; q17 1]; [q17 1; q17 1]]) ex17_o;
   AddArm 3%Z None;
   PartialFit [3; 2]%Z [q17 2; q17 2] (Some [[q17 4; q17 1]; [q17 0; q17 3]]) ex17_o;
   PredictExp (Some [[q17 1; q17 2]]) ex17_o].
Definition ex17_m := state_after QcNum Z.eqb ToyRng ex17_m0 ex17_ops.
Definition ex17_bad := PartialFit [1]%Z [q17 1] (Some [[q17 1; q17 2; q17 3]]) ex17_o.
Example C17_linear_example :
  lin_mab_inv QcNum ex17_m /\ m_fitted ex17_m = true /\
  snd (step QcNum Z.eqb ToyRng ex17_m ex17_bad) = ORejected /\ fst (step QcNum Z.eqb ToyRng ex17_m ex17_bad) = ex17_m.
Proof.
  assert (Hrect : Forall (op_rect (R:=Qc) (A:=Z)) ex17_ops) by (repeat constructor).
  assert (H0 : lin_mab_inv QcNum ex17_m0).
  { apply (constructed_linear_bandit_inv QcNum ex17_m0 RUcb (q17 1) (q17 0) (q17 2) false [1; 2]%Z); try reflexivity.
    repeat constructor; simpl; intuition discriminate. }
  pose proof (run_preserves_lin_inv QcNum QcLaws Z.eqb ToyRng Z.eqb_eq ex17_ops ex17_m0 _ Hrect eq_refl H0) as H.
  split; [exact H|]. split; [vm_compute; reflexivity|]. split; vm_compute; reflexivity.
Qed.

