(* CFClean.v — second reachable-state invariant of the context-free policies: the per-arm
   fields a policy never uses (the merged record has one slot per dictionary of any policy)
   keep their initial values.  Together with [keys_ok] this makes "equal on everything the
   policy reads" the same as Leibniz equality, which the fit-forgets theorems need. *)
From Coq Require Import ZArith List Bool Lia.
From MW Require Import Num Assoc AssocFacts Rng CF CFInv.
Import ListNotations.

Section CFClean.
Context {R A G : Type} (N : Num R) (aeqb : A -> A -> bool) (RG : RngOps R G).
Hypothesis aeqb_spec : forall x y, aeqb x y = true <-> x = y.

Notation cf := (@cf R A).
Notation "0" := (zero N).
Notation "1" := (one N).

Definition st_ok (k : cfkind) (st : @armst R) : Prop :=
  match k with
  | KGreedy | KPopularity => s_mean st = 0 /\ s_expo st = 0 /\ s_succ st = 1 /\ s_fail st = 1
  | KUcb => s_expo st = 0 /\ s_succ st = 1 /\ s_fail st = 1
  | KSoftmax => s_succ st = 1 /\ s_fail st = 1
  | KThompson => s_sum st = 0 /\ s_count st = 0%Z /\ s_mean st = 0 /\ s_expo st = 0
  | KRandom => st = armst0 N
  end.

Definition clean (s : cf) : Prop :=
  Forall (fun kv => st_ok (c_kind s) (snd kv)) (c_stats s)
  /\ (c_kind s <> KUcb -> c_total s = 0%Z)
  /\ (c_kind s <> KPopularity -> c_pyfloat s = false)
  /\ (c_kind s = KRandom -> Forall (fun kv => snd kv = 0) (c_exp s) /\ Forall (fun kv => snd kv = @status0 A) (c_status s)).

Lemma st_ok_armst0 k : st_ok k (armst0 N).
Proof. destruct k; simpl; auto. Qed.

Lemma Forall_afromkeys {V} (P : A * V -> Prop) (ks : list A) (v : V) :
  (forall k, P (k, v)) -> Forall P (afromkeys ks v).
Proof. intros H; unfold afromkeys; apply Forall_forall; intros x Hx; apply in_map_iff in Hx; destruct Hx as [k [E _]]; subst; apply H. Qed.

Lemma Forall_aset {V} (P : A * V -> Prop) (d : list (A * V)) k v :
  (forall k', P (k', v)) -> Forall P d -> Forall P (aset aeqb d k v).
Proof.
  intros Hv. induction d as [|[k' v'] t IH]; intros H; simpl.
  - constructor; [apply Hv | constructor].
  - inversion H; subst. destruct (aeqb k k'); constructor; auto.
Qed.

Lemma Forall_apop {V} (P : A * V -> Prop) (d : list (A * V)) k : Forall P d -> Forall P (apop aeqb d k).
Proof.
  induction d as [|[k' v'] t IH]; intros H; simpl; [constructor|].
  inversion H; subst. destruct (aeqb k k'); [assumption | constructor; auto].
Qed.

Lemma Forall_map_snd {V W} (P : A * W -> Prop) (Q : A * V -> Prop) (f : A * V -> W) (d : list (A * V)) :
  (forall kv, Q kv -> P (fst kv, f kv)) -> Forall Q d -> Forall P (map (fun kv => (fst kv, f kv)) d).
Proof.
  intros H HQ. apply Forall_forall. intros x Hx. apply in_map_iff in Hx. destruct Hx as [kv [E Hin]]; subst.
  apply H. rewrite Forall_forall in HQ; apply HQ; exact Hin.
Qed.

Lemma aget_d_Forall {V} (P : V -> Prop) (d : list (A * V)) (dflt : V) k :
  Forall (fun kv => P (snd kv)) d -> P dflt -> P (aget_d aeqb dflt d k).
Proof.
  intros H Hd. unfold aget_d. induction d as [|[k' v'] t IH]; simpl; [exact Hd|].
  inversion H; subst. destruct (aeqb k k'); [assumption | apply IH; assumption].
Qed.

Lemma clean_init k hp bz arms : clean (cf_init N k hp bz arms).
Proof.
  unfold clean, cf_init; simpl. repeat split; auto.
  - apply Forall_afromkeys; intros; apply st_ok_armst0.
  - apply Forall_afromkeys; reflexivity.
  - apply Forall_afromkeys; reflexivity.
Qed.

(* setters that do not touch what [clean] speaks about *)
Lemma clean_set_exp s e : c_kind s <> KRandom -> clean s -> clean (set_exp s e).
Proof. intros Hk (a&b&c&d); unfold clean; simpl; repeat split; auto; intros; contradiction. Qed.
Lemma clean_set_status s e : c_kind s <> KRandom -> clean s -> clean (set_status s e).
Proof. intros Hk (a&b&c&d); unfold clean; simpl; repeat split; auto; intros; contradiction. Qed.

Lemma clean_fit_arm s a ds rs : clean s -> clean (cf_fit_arm N aeqb s a ds rs).
Proof.
  intros Hc. pose proof Hc as (Hs & Ht & Hp & Hr).
  assert (Hst : st_ok (c_kind s) (aget_d aeqb (armst0 N) (c_stats s) a))
    by (apply (aget_d_Forall (st_ok (c_kind s))); [exact Hs | apply st_ok_armst0]).
  unfold cf_fit_arm.
  destruct (c_kind s) eqn:Ek; simpl in Hst;
    repeat match goal with
           | |- context [if ?b then _ else _] => destruct b
           end; try exact Hc;
    unfold clean; simpl; rewrite ?Ek;
    (repeat split; [ first [ exact Hs | apply Forall_aset; [intros; simpl; tauto | exact Hs] ] | auto; try congruence .. ]);
    try (intros; discriminate).
Qed.

Lemma clean_parallel_fit s ds rs : clean s -> clean (cf_parallel_fit N aeqb s ds rs).
Proof.
  unfold cf_parallel_fit. generalize (c_arms s) as l. intros l; revert s.
  induction l as [|a t IH]; intros s H; simpl; [exact H | apply IH; apply clean_fit_arm; exact H].
Qed.


Lemma clean_set_trained s ds p : c_kind s <> KRandom -> clean s -> clean (set_trained aeqb s ds p).
Proof. intros Hk Hc. unfold set_trained. apply clean_set_status; assumption. Qed.

Lemma clean_reset_status s : c_kind s <> KRandom -> clean s -> clean (reset_status s).
Proof. intros Hk Hc. unfold reset_status. apply clean_set_status; assumption. Qed.

Lemma clean_set_total s z : c_kind s = KUcb -> clean s -> clean (set_total s z).
Proof. intros Hk (a&b&c&d); unfold clean; simpl; rewrite Hk in *; repeat split; auto; intros; try congruence; discriminate. Qed.

Lemma clean_set_pyfloat s z : c_kind s = KPopularity -> clean s -> clean (set_pyfloat s z).
Proof. intros Hk (a&b&c&d); unfold clean; simpl; rewrite Hk in *; repeat split; auto; intros; try congruence; discriminate. Qed.

Lemma clean_reset_sums s : c_kind s <> KThompson -> c_kind s <> KRandom -> clean s -> clean (reset_sums N s).
Proof.
  intros Hk1 Hk2 (a&b&c&d); unfold clean, reset_sums; simpl; repeat split; auto; try (intros; contradiction).
  apply (Forall_map_snd _ (fun kv => st_ok (c_kind s) (snd kv))); [|exact a].
  intros kv H; simpl. destruct (c_kind s); simpl in *; try tauto; congruence.
Qed.

Lemma clean_reset_counts_ts s : c_kind s = KThompson -> clean s -> clean (reset_counts_ts N s).
Proof.
  intros Hk (a&b&c&d); unfold clean, reset_counts_ts; simpl; rewrite Hk in *; repeat split; auto; try (intros; discriminate).
  apply (Forall_map_snd _ (fun kv => st_ok KThompson (snd kv))); [|exact a].
  intros kv H; simpl in *; tauto.
Qed.

Lemma clean_softmax_expectation s : c_kind s = KSoftmax -> clean s -> clean (softmax_expectation N aeqb s).
Proof.
  intros Hk (a&b&c&d); unfold clean, softmax_expectation; simpl; rewrite Hk in *; repeat split; auto; try (intros; discriminate).
  apply (Forall_map_snd _ (fun kv => st_ok KSoftmax (snd kv))); [|exact a].
  intros kv H; simpl in *; tauto.
Qed.

Lemma clean_popularity_normalize s : c_kind s = KPopularity -> clean s -> clean (popularity_normalize N s).
Proof.
  intros Hk (a&b&c&d); unfold clean, popularity_normalize.
  destruct (eqb N _ _); simpl; rewrite Hk in *; repeat split; auto; intros; try congruence; discriminate.
Qed.

Lemma clean_popularity_raw_means s : c_kind s = KPopularity -> clean s -> clean (popularity_raw_means N aeqb s).
Proof. intros Hk Hc. unfold popularity_raw_means. apply clean_set_exp; [congruence | exact Hc]. Qed.

Lemma kind_parallel_fit (s : cf) ds rs : c_kind (cf_parallel_fit N aeqb s ds rs) = c_kind s.
Proof. apply (parallel_fit_cfg N aeqb s ds rs). Qed.
Lemma kind_set_trained (s : cf) ds p : c_kind (set_trained aeqb s ds p) = c_kind s. Proof. reflexivity. Qed.
Lemma kind_softmax_expectation (s : cf) : c_kind (softmax_expectation N aeqb s) = c_kind s. Proof. reflexivity. Qed.
Lemma kind_popularity_normalize (s : cf) : c_kind (popularity_normalize N s) = c_kind s.
Proof. apply (popularity_normalize_cfg N s). Qed.
Lemma kind_popularity_raw_means (s : cf) : c_kind (popularity_raw_means N aeqb s) = c_kind s. Proof. reflexivity. Qed.
Lemma kind_reset_sums (s : cf) : c_kind (reset_sums N s) = c_kind s. Proof. reflexivity. Qed.
Lemma kind_reset_counts_ts (s : cf) : c_kind (reset_counts_ts N s) = c_kind s. Proof. reflexivity. Qed.
Lemma kind_reset_status (s : cf) : c_kind (reset_status s) = c_kind s. Proof. reflexivity. Qed.
Lemma kind_set_exp (s : cf) e : c_kind (set_exp s e) = c_kind s. Proof. reflexivity. Qed.
Lemma kind_set_total (s : cf) e : c_kind (set_total s e) = c_kind s. Proof. reflexivity. Qed.
Lemma kind_set_pyfloat (s : cf) e : c_kind (set_pyfloat s e) = c_kind s. Proof. reflexivity. Qed.

Hint Rewrite kind_set_trained kind_softmax_expectation kind_popularity_normalize kind_popularity_raw_means
     kind_parallel_fit kind_reset_sums kind_reset_counts_ts kind_reset_status kind_set_exp kind_set_total kind_set_pyfloat : kinddb.

Ltac kind_solve Ek :=
  autorewrite with kinddb; rewrite ?Ek; first [reflexivity | discriminate].

Ltac clean_step Ek :=
  match goal with
  | |- clean (set_trained _ _ _ _) => apply clean_set_trained; [kind_solve Ek|]
  | |- clean (softmax_expectation _ _ _) => apply clean_softmax_expectation; [kind_solve Ek|]
  | |- clean (popularity_normalize _ _) => apply clean_popularity_normalize; [kind_solve Ek|]
  | |- clean (popularity_raw_means _ _ _) => apply clean_popularity_raw_means; [kind_solve Ek|]
  | |- clean (cf_parallel_fit _ _ _ _ _) => apply clean_parallel_fit
  | |- clean (reset_status _) => apply clean_reset_status; [kind_solve Ek|]
  | |- clean (reset_sums _ _) => apply clean_reset_sums; [kind_solve Ek | kind_solve Ek |]
  | |- clean (reset_counts_ts _ _) => apply clean_reset_counts_ts; [kind_solve Ek|]
  | |- clean (set_exp _ _) => apply clean_set_exp; [kind_solve Ek|]
  | |- clean (set_total _ _) => apply clean_set_total; [kind_solve Ek|]
  | |- clean (set_pyfloat _ _) => apply clean_set_pyfloat; [kind_solve Ek|]
  end.

Theorem cf_fit_clean s ds rs : clean s -> clean (cf_fit N aeqb s ds rs).
Proof.
  intros Hc. unfold cf_fit. destruct (c_kind s) eqn:Ek; repeat (clean_step Ek); exact Hc.
Qed.

Theorem cf_partial_fit_clean s ds rs : clean s -> clean (cf_partial_fit N aeqb s ds rs).
Proof.
  intros Hc. unfold cf_partial_fit. destruct (c_kind s) eqn:Ek; repeat (clean_step Ek); exact Hc.
Qed.

Theorem cf_add_arm_clean s a bz : clean s -> clean (cf_add_arm N aeqb s a bz).
Proof.
  intros (Hs & Ht & Hp & Hr). unfold cf_add_arm, clean, softmax_expectation.
  destruct (c_kind s) eqn:Ek; try destruct bz; simpl; rewrite ?Ek;
    (repeat split; auto; try congruence; try (intros; discriminate)).
  all: try solve [apply Forall_aset; [intros; apply st_ok_armst0 | exact Hs]].
  all: try solve [apply (Forall_map_snd _ (fun kv => st_ok KSoftmax (snd kv)));
                  [intros kv H; simpl in *; tauto | apply Forall_aset; [intros; apply (st_ok_armst0 KSoftmax) | exact Hs]]].
  all: try solve [apply Forall_aset; [reflexivity | apply Hr; reflexivity]].
Qed.

Theorem cf_remove_arm_clean s a : clean s -> clean (cf_remove_arm N aeqb s a).
Proof.
  intros (Hs & Ht & Hp & Hr). unfold cf_remove_arm, clean, softmax_expectation, popularity_normalize.
  destruct (c_kind s) eqn:Ek; simpl;
    repeat match goal with |- context [if ?b then _ else _] => destruct b; simpl end; rewrite ?Ek;
    (repeat split; auto; try congruence; try (intros; discriminate)).
  all: try solve [apply Forall_apop; exact Hs].
  all: try solve [apply (Forall_map_snd _ (fun kv => st_ok KSoftmax (snd kv)));
                  [intros kv H; simpl in *; tauto | apply Forall_apop; exact Hs]].
  all: try solve [apply Forall_apop; apply Hr; reflexivity].
Qed.

End CFClean.
