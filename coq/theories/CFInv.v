(* CFInv.v — the dictionary invariant of the context-free policies: every per-arm
   dictionary has exactly the current arms as keys, in arm-list order, without
   duplicates; it is preserved by every operation; outputs range over the arms. *)
From Coq Require Import ZArith List Bool Lia.
From MW Require Import Num Assoc AssocFacts Rng CF.
Import ListNotations.

Section CFInv.
Context {R A G : Type} (N : Num R) (aeqb : A -> A -> bool) (RG : RngOps R G).
Hypothesis aeqb_spec : forall x y, aeqb x y = true <-> x = y.

Notation cf := (@cf R A).

Definition keys_ok (s : cf) : Prop :=
  NoDup (c_arms s) /\ akeys (c_exp s) = c_arms s /\ akeys (c_status s) = c_arms s /\ akeys (c_stats s) = c_arms s.

Lemma keys_ok_init k hp bz arms : NoDup arms -> keys_ok (cf_init N k hp bz arms).
Proof.
  intros H; unfold keys_ok, cf_init; simpl.
  repeat split; [exact H | apply akeys_afromkeys ..].
Qed.

(* the "shape" of a state: everything the invariant talks about *)
Definition same_shape (s s' : cf) : Prop :=
  c_arms s' = c_arms s /\ akeys (c_exp s') = akeys (c_exp s) /\
  akeys (c_status s') = akeys (c_status s) /\ akeys (c_stats s') = akeys (c_stats s).

Lemma same_shape_refl s : same_shape s s.
Proof. unfold same_shape; auto. Qed.

Lemma same_shape_trans s1 s2 s3 : same_shape s1 s2 -> same_shape s2 s3 -> same_shape s1 s3.
Proof. unfold same_shape; intros (a&b&c&d) (e&f&g&h); repeat split; congruence. Qed.

Lemma keys_ok_shape s s' : same_shape s s' -> keys_ok s -> keys_ok s'.
Proof. unfold same_shape, keys_ok; intros (a&b&c&d) (e&f&g&h); repeat split; congruence. Qed.

Lemma fit_arm_shape s a ds rs :
  In a (akeys (c_exp s)) -> In a (akeys (c_stats s)) -> same_shape s (cf_fit_arm N aeqb s a ds rs).
Proof.
  intros He Hs. unfold cf_fit_arm, same_shape.
  destruct (c_kind s); simpl;
    repeat match goal with
           | |- context [if ?b then _ else _] => destruct b; simpl
           end;
    rewrite ?(akeys_aset_in aeqb aeqb_spec) by assumption; auto.
Qed.

Lemma parallel_fit_shape_gen s ds rs l :
  (forall a, In a l -> In a (akeys (c_exp s)) /\ In a (akeys (c_stats s))) ->
  same_shape s (fold_left (fun s a => cf_fit_arm N aeqb s a ds rs) l s).
Proof.
  revert s. induction l as [|a t IH]; intros s H; simpl; [apply same_shape_refl|].
  destruct (H a (or_introl eq_refl)) as [He Hs].
  pose proof (fit_arm_shape s a ds rs He Hs) as Hsh.
  eapply same_shape_trans; [exact Hsh|].
  apply IH. intros b Hb. destruct (H b (or_intror Hb)) as [He' Hs'].
  destruct Hsh as (_ & Hk1 & _ & Hk2). rewrite Hk1, Hk2. auto.
Qed.

Lemma parallel_fit_shape s ds rs : keys_ok s -> same_shape s (cf_parallel_fit N aeqb s ds rs).
Proof.
  intros (Hn & He & _ & Hs). unfold cf_parallel_fit. apply parallel_fit_shape_gen.
  intros a Ha; rewrite He, Hs; auto.
Qed.

Lemma set_trained_status_keys (ds : list A) (p : bool) (arms : list A) (st : list (A * @status A)) :
  akeys (fold_left (fun stt a =>
        if amem aeqb a ds then
          match aget aeqb stt a with
          | Some x => aset aeqb stt a (if p then mkStatus true (st_warm x) (st_by x) else mkStatus true false None)
          | None => stt
          end
        else stt) arms st) = akeys st.
Proof.
  revert st. induction arms as [|a t IH]; intros st; simpl; [reflexivity|].
  rewrite IH. destruct (amem aeqb a ds); [|reflexivity].
  destruct (aget aeqb st a) eqn:E; [|reflexivity].
  apply (akeys_aset_in aeqb aeqb_spec). eapply aget_some_in; eauto.
Qed.

Lemma set_trained_shape s ds p : same_shape s (set_trained aeqb s ds p).
Proof.
  unfold set_trained, same_shape; simpl. repeat split; try reflexivity.
  apply set_trained_status_keys.
Qed.

Lemma softmax_expectation_shape s : same_shape s (softmax_expectation N aeqb s).
Proof.
  unfold softmax_expectation, same_shape; simpl. repeat split; try reflexivity.
  - unfold akeys; rewrite map_map; reflexivity.
  - unfold akeys; rewrite map_map; reflexivity.
Qed.

Lemma popularity_normalize_shape s : same_shape s (popularity_normalize N s).
Proof.
  unfold popularity_normalize, same_shape.
  destruct (eqb N _ _); simpl; repeat split; try reflexivity.
  - apply akeys_areset.
  - unfold akeys; rewrite map_map; reflexivity.
Qed.

Lemma popularity_raw_means_shape s : same_shape s (popularity_raw_means N aeqb s).
Proof.
  unfold popularity_raw_means, same_shape; simpl. repeat split; try reflexivity.
  unfold akeys; rewrite map_map; reflexivity.
Qed.

Lemma reset_sums_shape s : same_shape s (reset_sums N s).
Proof. unfold reset_sums, same_shape; simpl; repeat split; try reflexivity. unfold akeys; rewrite map_map; reflexivity. Qed.

Lemma reset_counts_ts_shape s : same_shape s (reset_counts_ts N s).
Proof. unfold reset_counts_ts, same_shape; simpl; repeat split; try reflexivity. unfold akeys; rewrite map_map; reflexivity. Qed.

Lemma reset_status_ok s : keys_ok s -> keys_ok (reset_status s).
Proof. intros (a&b&c&d); unfold keys_ok, reset_status; simpl; repeat split; auto. apply akeys_afromkeys. Qed.

Lemma set_exp_reset_ok s v : keys_ok s -> keys_ok (set_exp s (areset (c_exp s) v)).
Proof. intros (a&b&c&d); unfold keys_ok; simpl; repeat split; auto. rewrite akeys_areset; exact b. Qed.

Lemma set_total_ok s z : keys_ok s -> keys_ok (set_total s z).
Proof. intros H; exact H. Qed.
Lemma set_pyfloat_ok s z : keys_ok s -> keys_ok (set_pyfloat s z).
Proof. intros H; exact H. Qed.

Ltac shape_step :=
  match goal with
  | |- keys_ok (set_trained _ _ _ _) => eapply keys_ok_shape; [apply set_trained_shape|]
  | |- keys_ok (softmax_expectation _ _ _) => eapply keys_ok_shape; [apply softmax_expectation_shape|]
  | |- keys_ok (popularity_normalize _ _) => eapply keys_ok_shape; [apply popularity_normalize_shape|]
  | |- keys_ok (popularity_raw_means _ _ _) => eapply keys_ok_shape; [apply popularity_raw_means_shape|]
  | |- keys_ok (reset_sums _ _) => eapply keys_ok_shape; [apply reset_sums_shape|]
  | |- keys_ok (reset_counts_ts _ _) => eapply keys_ok_shape; [apply reset_counts_ts_shape|]
  | |- keys_ok (reset_status _) => apply reset_status_ok
  | |- keys_ok (set_total _ _) => apply set_total_ok
  | |- keys_ok (set_pyfloat _ _) => apply set_pyfloat_ok
  | |- keys_ok (cf_parallel_fit _ _ ?s _ _) =>
      let H := fresh "H" in
      assert (H : keys_ok s); [| eapply keys_ok_shape; [apply (parallel_fit_shape s); exact H | exact H]]
  end.

Lemma reset_sums_exp s v : keys_ok s -> keys_ok (set_exp (reset_sums N s) (areset (c_exp s) v)).
Proof.
  intros (a&b&c&d); unfold keys_ok, reset_sums; simpl; repeat split; auto.
  - rewrite akeys_areset; exact b.
  - unfold akeys; rewrite map_map; exact d.
Qed.

Theorem cf_fit_keys_ok s ds rs : keys_ok s -> keys_ok (cf_fit N aeqb s ds rs).
Proof.
  intros H. unfold cf_fit. destruct (c_kind s); repeat shape_step;
    try (apply reset_sums_exp; exact H); try exact H.
Qed.

Theorem cf_partial_fit_keys_ok s ds rs : keys_ok s -> keys_ok (cf_partial_fit N aeqb s ds rs).
Proof.
  intros H. unfold cf_partial_fit. destruct (c_kind s); repeat shape_step; exact H.
Qed.

Theorem cf_add_arm_keys_ok s a bz : keys_ok s -> ~ In a (c_arms s) -> keys_ok (cf_add_arm N aeqb s a bz).
Proof.
  intros (Hn & He & Hst & Hs) Hnot.
  assert (Hn' : NoDup (c_arms s ++ [a])) by (apply nodup_app_single; assumption).
  assert (E1 : forall v, akeys (aset aeqb (c_exp s) a v) = c_arms s ++ [a])
    by (intros v; rewrite (akeys_aset_notin aeqb aeqb_spec); rewrite He; [reflexivity | exact Hnot]).
  assert (E2 : forall v, akeys (aset aeqb (c_stats s) a v) = c_arms s ++ [a])
    by (intros v; rewrite (akeys_aset_notin aeqb aeqb_spec); rewrite Hs; [reflexivity | exact Hnot]).
  assert (E3 : forall v, akeys (aset aeqb (c_status s) a v) = c_arms s ++ [a])
    by (intros v; rewrite (akeys_aset_notin aeqb aeqb_spec); rewrite Hst; [reflexivity | exact Hnot]).
  unfold cf_add_arm, keys_ok, softmax_expectation.
  destruct (c_kind s); try destruct bz; simpl; rewrite ?akeys_map_snd, ?E1, ?E2, ?E3; repeat split; auto.
Qed.

Theorem cf_remove_arm_keys_ok s a : keys_ok s -> keys_ok (cf_remove_arm N aeqb s a).
Proof.
  intros (Hn & He & Hst & Hs).
  assert (Hn' : NoDup (lremove aeqb (c_arms s) a)) by (apply lremove_nodup; assumption).
  unfold cf_remove_arm, keys_ok, softmax_expectation, popularity_normalize.
  destruct (c_kind s); simpl;
    repeat match goal with |- context [if ?b then _ else _] => destruct b; simpl end;
    rewrite ?akeys_map_snd, ?akeys_areset, ?akeys_apop, ?He, ?Hst, ?Hs; repeat split; auto.
Qed.

(* ---- configuration is never changed by training -------------------------------- *)
Definition same_cfg (s s' : cf) : Prop :=
  c_kind s' = c_kind s /\ c_hp s' = c_hp s /\ c_binz s' = c_binz s /\ c_ctxbin s' = c_ctxbin s /\ c_arms s' = c_arms s.

Lemma same_cfg_refl s : same_cfg s s.
Proof. unfold same_cfg; auto. Qed.
Lemma same_cfg_trans s1 s2 s3 : same_cfg s1 s2 -> same_cfg s2 s3 -> same_cfg s1 s3.
Proof. unfold same_cfg; intros (a&b&c&d&e) (f&g&h&i&j); repeat split; congruence. Qed.

Lemma fit_arm_cfg s a ds rs : same_cfg s (cf_fit_arm N aeqb s a ds rs).
Proof.
  unfold cf_fit_arm, same_cfg.
  destruct (c_kind s) eqn:Ek; simpl;
    repeat match goal with |- context [if ?b then _ else _] => destruct b; simpl end; auto.
Qed.

Lemma parallel_fit_cfg s ds rs : same_cfg s (cf_parallel_fit N aeqb s ds rs).
Proof.
  unfold cf_parallel_fit. generalize (c_arms s) as l. intros l; revert s.
  induction l as [|a t IH]; intros s; simpl; [apply same_cfg_refl|].
  eapply same_cfg_trans; [apply fit_arm_cfg | apply IH].
Qed.

Lemma set_trained_cfg s ds p : same_cfg s (set_trained aeqb s ds p).
Proof. unfold same_cfg, set_trained; simpl; auto. Qed.
Lemma softmax_expectation_cfg s : same_cfg s (softmax_expectation N aeqb s).
Proof. unfold same_cfg, softmax_expectation; simpl; auto. Qed.
Lemma popularity_normalize_cfg s : same_cfg s (popularity_normalize N s).
Proof. unfold same_cfg, popularity_normalize; destruct (eqb N _ _); simpl; auto. Qed.
Lemma popularity_raw_means_cfg s : same_cfg s (popularity_raw_means N aeqb s).
Proof. unfold same_cfg, popularity_raw_means; simpl; auto. Qed.
Lemma reset_sums_cfg s : same_cfg s (reset_sums N s).
Proof. unfold same_cfg, reset_sums; simpl; auto. Qed.
Lemma reset_counts_ts_cfg s : same_cfg s (reset_counts_ts N s).
Proof. unfold same_cfg, reset_counts_ts; simpl; auto. Qed.
Lemma reset_status_cfg s : same_cfg s (reset_status s).
Proof. unfold same_cfg, reset_status; simpl; auto. Qed.
Lemma set_exp_cfg s e : same_cfg s (set_exp s e).
Proof. unfold same_cfg; simpl; auto. Qed.
Lemma set_total_cfg s e : same_cfg s (set_total s e).
Proof. unfold same_cfg; simpl; auto. Qed.
Lemma set_pyfloat_cfg s e : same_cfg s (set_pyfloat s e).
Proof. unfold same_cfg; simpl; auto. Qed.

Ltac cfg_step :=
  match goal with
  | |- same_cfg ?s ?s => apply same_cfg_refl
  | |- same_cfg _ (set_trained _ _ _ _) => eapply same_cfg_trans; [|apply set_trained_cfg]
  | |- same_cfg _ (softmax_expectation _ _ _) => eapply same_cfg_trans; [|apply softmax_expectation_cfg]
  | |- same_cfg _ (popularity_normalize _ _) => eapply same_cfg_trans; [|apply popularity_normalize_cfg]
  | |- same_cfg _ (popularity_raw_means _ _ _) => eapply same_cfg_trans; [|apply popularity_raw_means_cfg]
  | |- same_cfg _ (reset_sums _ _) => eapply same_cfg_trans; [|apply reset_sums_cfg]
  | |- same_cfg _ (reset_counts_ts _ _) => eapply same_cfg_trans; [|apply reset_counts_ts_cfg]
  | |- same_cfg _ (reset_status _) => eapply same_cfg_trans; [|apply reset_status_cfg]
  | |- same_cfg _ (set_exp _ _) => eapply same_cfg_trans; [|apply set_exp_cfg]
  | |- same_cfg _ (set_total _ _) => eapply same_cfg_trans; [|apply set_total_cfg]
  | |- same_cfg _ (set_pyfloat _ _) => eapply same_cfg_trans; [|apply set_pyfloat_cfg]
  | |- same_cfg _ (cf_parallel_fit _ _ _ _ _) => eapply same_cfg_trans; [|apply parallel_fit_cfg]
  end.

Lemma cf_fit_cfg s ds rs : same_cfg s (cf_fit N aeqb s ds rs).
Proof.
  unfold cf_fit. destruct (c_kind s) eqn:Ek; repeat cfg_step.
  (* Thompson: binarize does not touch the state *)
Qed.

Lemma cf_partial_fit_cfg s ds rs : same_cfg s (cf_partial_fit N aeqb s ds rs).
Proof. unfold cf_partial_fit. destruct (c_kind s) eqn:Ek; repeat cfg_step. Qed.

(* ---- outputs ----------------------------------------------------------------- *)
(* the oracle answers with as many values as requested *)
Definition shape_size (shape : list nat) : nat := fold_left Nat.mul shape 1%nat.
Definition rng_lengths_ok : Prop :=
  forall g, (forall shape, length (fst (draw_r RG g (RqRand shape))) = shape_size shape)
         /\ (forall a b size, length (fst (draw_r RG g (RqBeta a b size))) = size)
         /\ (forall alpha size, length (fst (draw_r RG g (RqDirichlet alpha size))) = (size * length alpha)%nat).


Lemma akeys_combine (ks : list A) (vs : list R) : length vs = length ks -> akeys (combine ks vs) = ks.
Proof.
  revert vs; induction ks as [|k t IH]; intros [|v vs] H; simpl in *; try discriminate; [reflexivity|].
  f_equal; apply IH; lia.
Qed.

Lemma chunk_rows_length rows n (l : list R) : length (chunk_rows rows n l) = rows.
Proof. revert l; induction rows as [|r IH]; intros l; simpl; [reflexivity | f_equal; apply IH]. Qed.

Lemma chunk_rows_widths rows n (l : list R) :
  length l = (rows * n)%nat -> Forall (fun r => length r = n) (chunk_rows rows n l).
Proof.
  revert l; induction rows as [|r IH]; intros l H; simpl; [constructor|].
  constructor.
  - rewrite firstn_length; simpl in H; lia.
  - apply IH. rewrite skipn_length; simpl in H; lia.
Qed.

Lemma draw_scalars_length g n : length (fst (draw_scalars N RG g n)) = n.
Proof.
  revert g; induction n as [|k IH]; intros g; simpl; [reflexivity|].
  destruct (draw_r RG g (RqRand [])) as [u g1]. specialize (IH g1).
  destruct (draw_scalars N RG g1 k) as [rest g2]; simpl in *. f_equal; exact IH.
Qed.

Lemma last_Forall {T} (P : T -> Prop) (l : list T) (d : T) : Forall P l -> P d -> P (last l d).
Proof.
  induction l as [|x t IH]; intros H Hd; simpl; [exact Hd|].
  inversion H; subst. destruct t; [assumption | apply IH; assumption].
Qed.

Definition out_len (m : option nat) : nat := if is_single m then 1%nat else msize m.

Lemma out_len_msize m : msize m = out_len m.
Proof. destruct m as [k|]; unfold out_len, is_single, msize; [|reflexivity]. destruct (Nat.eqb_spec k 1); congruence. Qed.

Theorem cf_predict_exp_ok s g m :
  rng_lengths_ok -> keys_ok s ->
  let '(e, s', g') := cf_predict_exp N aeqb RG s g m in
  Forall (fun d => akeys d = c_arms s) e /\ length e = out_len m /\ keys_ok s' /\ c_arms s' = c_arms s.
Proof.
  intros Hrng Hk. pose proof Hk as (Hn & He & Hst & Hs).
  unfold cf_predict_exp.
  destruct (c_kind s) eqn:Ek.
  - (* greedy *)
    destruct (is_single m) eqn:Esm.
    + destruct (draw_r RG g (RqRand [])) as [u g1].
      destruct (ltb N (hd0 N u) (c_hp s)).
      * pose proof (draw_scalars_length g1 (length (c_arms s))) as Hl.
        destruct (draw_scalars N RG g1 (length (c_arms s))) as [vals g2]; simpl in Hl.
        repeat split; auto.
        -- constructor; [apply akeys_combine; exact Hl | constructor].
        -- unfold out_len; rewrite Esm; reflexivity.
      * repeat split; auto. unfold out_len; rewrite Esm; reflexivity.
    + destruct (Hrng g) as (Hr & _ & _).
      pose proof (Hr [msize m]) as Hp.
      destruct (draw_r RG g (RqRand [msize m])) as [p g1]; simpl in Hp.
      destruct (Hrng g1) as (Hr1 & _ & _).
      pose proof (Hr1 [msize m; length (c_arms s)]) as Hv.
      destruct (draw_r RG g1 (RqRand [msize m; length (c_arms s)])) as [rv g2]; simpl in Hv.
      unfold shape_size in Hp, Hv; simpl in Hp, Hv.
      assert (Hw : Forall (fun r => length r = length (c_arms s)) (chunk_rows (msize m) (length (c_arms s)) rv))
        by (apply chunk_rows_widths; lia).
      repeat split; auto.
      * apply Forall_forall. intros d Hd. apply in_map_iff in Hd. destruct Hd as [[pv row] [Hd Hin]]. subst d.
        apply in_combine_r in Hin. rewrite Forall_forall in Hw. specialize (Hw _ Hin).
        simpl. destruct (ltb N pv (c_hp s)); [apply akeys_combine; exact Hw | exact He].
      * rewrite map_length, combine_length, chunk_rows_length. unfold out_len; rewrite Esm. lia.
  - (* ucb *)
    repeat split; auto.
    + destruct (is_single m); [constructor; [exact He | constructor] | apply Forall_forall; intros d Hd; apply repeat_spec in Hd; subst; exact He].
    + unfold out_len; destruct (is_single m); [reflexivity | apply repeat_length].
  - (* softmax *)
    destruct (Hrng g) as (_ & _ & Hd).
    pose proof (Hd (map (fun v => add N v (eps_mach N)) (avals (c_exp s))) (msize m)) as Hl.
    destruct (draw_r RG g (RqDirichlet _ (msize m))) as [dv g1]; simpl in Hl.
    repeat split; auto.
    + apply Forall_forall. intros d Hin. apply in_map_iff in Hin. destruct Hin as [row [Hd' Hin]]. subst d.
      pose proof (chunk_rows_widths (msize m) _ dv Hl) as Hw. rewrite Forall_forall in Hw. specialize (Hw _ Hin).
      rewrite <- He. apply akeys_combine. rewrite Hw. unfold akeys, avals; rewrite !map_length; reflexivity.
    + rewrite map_length, chunk_rows_length. apply out_len_msize.
  - (* popularity *)
    destruct (Hrng g) as (_ & _ & Hd).
    pose proof (Hd (map (fun v => add N v (eps_mach N)) (avals (c_exp s))) (msize m)) as Hl.
    destruct (draw_r RG g (RqDirichlet _ (msize m))) as [dv g1]; simpl in Hl.
    repeat split; auto.
    + apply Forall_forall. intros d Hin. apply in_map_iff in Hin. destruct Hin as [row [Hd' Hin]]. subst d.
      pose proof (chunk_rows_widths (msize m) _ dv Hl) as Hw. rewrite Forall_forall in Hw. specialize (Hw _ Hin).
      rewrite <- He. apply akeys_combine. rewrite Hw. unfold akeys, avals; rewrite !map_length; reflexivity.
    + rewrite map_length, chunk_rows_length. apply out_len_msize.
  - (* thompson *)
    destruct (draw_betas N aeqb RG g (c_stats s) (akeys (c_exp s)) (msize m)) as [betas g1].
    set (rows := map (fun i => map (fun a => (a, nth i (aget_d aeqb [] betas a) (zero N))) (c_arms s)) (seq 0 (msize m))).
    assert (Hrows : Forall (fun d => akeys d = c_arms s) rows).
    { apply Forall_forall. intros d Hin. unfold rows in Hin. apply in_map_iff in Hin. destruct Hin as [i [Hd _]]. subst d.
      unfold akeys; rewrite map_map; simpl; apply map_id. }
    repeat split; auto.
    + unfold rows; rewrite map_length, seq_length. apply out_len_msize.
    + simpl. apply (last_Forall (fun d => akeys d = c_arms s)); assumption.
  - (* random *)
    destruct (Hrng g) as (Hr & _ & _).
    pose proof (Hr [msize m; length (c_arms s)]) as Hv.
    destruct (draw_r RG g (RqRand [msize m; length (c_arms s)])) as [rv g1]; simpl in Hv.
    unfold shape_size in Hv; simpl in Hv.
    repeat split; auto.
    + apply Forall_forall. intros d Hin. apply in_map_iff in Hin. destruct Hin as [row [Hd' Hin]]. subst d.
      assert (Hw : Forall (fun r => length r = length (c_arms s)) (chunk_rows (msize m) (length (c_arms s)) rv))
        by (apply chunk_rows_widths; lia).
      rewrite Forall_forall in Hw. apply akeys_combine. apply Hw; exact Hin.
    + rewrite map_length, chunk_rows_length. apply out_len_msize.
Qed.

End CFInv.
