(* LinSpec.v — C02, what the linear policies have learned after ANY history fit(D0), partial_fit(D1), ...,
   partial_fit(Dk) (scale=False): for every arm, with X / y the rows / rewards of that arm in D0 ++ D1 ++ ... ++ Dk,
     A = lambda*I + X'X,   X'y accumulated,   A_inv = inv(A),   beta = A_inv (X'y),
   however the rows are split among the calls (the split enters only through the order of floating-point
   additions; under the ring laws X'X and X'y of a concatenation are the sums of the parts), and an arm with no
   rows keeps the constructor's state.  [inverse] is the model of np.linalg.inv (Gauss-Jordan with partial
   pivoting); its agreement with numpy's is part of the correspondence run. *)
From Coq Require Import ZArith List Bool Lia.
From MW Require Import Num NumLaws Assoc AssocFacts Rng CF CFInv Matrix MatrixFacts GaussJordan Lin LinInv LinForget LinSim.
Import ListNotations.

Section LinSpec.
Context {R A G : Type} (N : Num R) (L : NumLaws N) (aeqb : A -> A -> bool).
Hypothesis aeqb_spec : forall x y, aeqb x y = true <-> x = y.
Notation lin := (@lin R A G).
Notation ridge := (@ridge R G).

(* consecutive _RidgeRegression.fit calls on one regression object *)
Fixpoint ridge_fits (d : nat) (m : ridge) (bs : list (mat (R:=R) * vec (R:=R))) : option ridge :=
  match bs with
  | [] => Some m
  | (x, y) :: t => match ridge_fit N d m x y with Some m1 => ridge_fits d m1 t | None => None end
  end.

Theorem ridge_fits_normal_equations (d : nat) (bs : list (mat (R:=R) * vec (R:=R))) (m m' : ridge) :
  r_scaler m = None -> bs <> [] -> Forall (fun b => length (fst b) = length (snd b)) bs ->
  ridge_fits d m bs = Some m' ->
  r_A m' = madd N (r_A m) (xtx N d (concat (map fst bs))) /\
  r_Xty m' = vadd N (r_Xty m) (xty N d (concat (map fst bs)) (concat (map snd bs))) /\
  inverse N d (r_A m') = Some (r_Ainv m') /\ r_beta m' = mat_vec N (r_Ainv m') (r_Xty m') /\ r_scaler m' = None.
Proof.
  revert m. induction bs as [|[x y] t IH]; intros m Hs Hne Hlen H; [congruence|].
  simpl in H. destruct (ridge_fit N d m x y) as [m1|] eqn:E1; [|discriminate].
  assert (H1 : r_A m1 = madd N (r_A m) (xtx N d x) /\ r_Xty m1 = vadd N (r_Xty m) (xty N d x y) /\
               inverse N d (r_A m1) = Some (r_Ainv m1) /\ r_beta m1 = mat_vec N (r_Ainv m1) (r_Xty m1) /\ r_scaler m1 = None).
  { unfold ridge_fit in E1. rewrite Hs in E1. destruct (inverse N d (madd N (r_A m) (xtx N d x))) as [ainv|] eqn:Ei; [|discriminate].
    injection E1 as <-. simpl. auto. }
  destruct H1 as (A1 & B1 & C1 & D1 & S1).
  inversion Hlen as [|b bs' Hb Hrest]; subst. simpl in Hb.
  destruct t as [|b2 t'].
  - simpl in H. injection H as <-. simpl. rewrite !app_nil_r. auto.
  - destruct (IH m1 S1 ltac:(discriminate) Hrest H) as (A2 & B2 & C2 & D2 & S2).
    split; [|split; [|auto]].
    + rewrite A2, A1. change (concat (map fst ((x, y) :: b2 :: t'))) with (x ++ concat (map fst (b2 :: t'))).
      generalize (concat (map fst (b2 :: t'))) as rest. intros rest. rewrite (xtx_app N L). apply (madd_assoc N L).
    + rewrite B2, B1. change (concat (map fst ((x, y) :: b2 :: t'))) with (x ++ concat (map fst (b2 :: t'))).
      change (concat (map snd ((x, y) :: b2 :: t'))) with (y ++ concat (map snd (b2 :: t'))).
      generalize (concat (map fst (b2 :: t'))) as rest. generalize (concat (map snd (b2 :: t'))) as resty. intros resty rest.
      rewrite (xty_app N L) by exact Hb. apply (vadd_assoc N L).
Qed.

(* ---- one training call changes the model of arm a only through a's own rows ------------------------------ *)
Definition model (s : lin) (a : A) : ridge := aget_d aeqb ridge_new (l_models s) a.

Lemma lin_fit_arm_model (s s' : lin) g b ds rs cx a :
  lin_fit_arm N aeqb s g b ds rs cx = Some s' ->
  l_nf s' = l_nf s /\ l_kind s' = l_kind s /\ l_l2 s' = l_l2 s /\ l_arms s' = l_arms s /\
  (a <> b -> model s' a = model s a) /\
  (fst (arm_rows aeqb b ds rs cx) = [] -> s' = s) /\
  (fst (arm_rows aeqb b ds rs cx) <> [] ->
     option_map erase_rng (ridge_fit N (match l_nf s with Some d => d | None => O end) (model s b)
                             (fst (arm_rows aeqb b ds rs cx)) (snd (arm_rows aeqb b ds rs cx)))
     = Some (erase_rng (model s' b))).
Proof.
  unfold lin_fit_arm. destruct (arm_rows aeqb b ds rs cx) as [x y]. simpl fst; simpl snd.
  destruct x as [|r0 x'].
  - intros E; injection E as <-. repeat split; auto. congruence.
  - destruct (negb _); [discriminate|].
    set (d := match l_nf s with Some d => d | None => O end).
    set (m1 := mkRidge _ _ _ _ _ _).
    destruct (ridge_fit N d m1 (r0 :: x') y) as [m2|] eqn:E2; [|discriminate].
    intros E; injection E as <-. simpl. repeat split; auto.
    + intros Hab. unfold model; simpl. unfold aget_d. rewrite (aget_aset_other aeqb aeqb_spec) by exact Hab. reflexivity.
    + discriminate.
    + intros _. pose proof (ridge_fit_erase N d (model s b) m1 (r0 :: x') y eq_refl) as H. rewrite E2 in H. rewrite H. simpl.
      unfold model; simpl. unfold aget_d. rewrite (aget_aset_same aeqb aeqb_spec). reflexivity.
Qed.

Lemma lin_parallel_fit_model (arms : list A) (s : lin) g ds rs cx a :
  NoDup arms -> snd (lin_parallel_fit N aeqb s g arms ds rs cx) = true ->
  let s' := fst (lin_parallel_fit N aeqb s g arms ds rs cx) in
  l_nf s' = l_nf s /\ l_kind s' = l_kind s /\ l_l2 s' = l_l2 s /\ l_arms s' = l_arms s /\
  (~ In a arms \/ fst (arm_rows aeqb a ds rs cx) = [] -> erase_rng (model s' a) = erase_rng (model s a)) /\
  (In a arms -> fst (arm_rows aeqb a ds rs cx) <> [] ->
     option_map erase_rng (ridge_fit N (match l_nf s with Some d => d | None => O end) (model s a)
                             (fst (arm_rows aeqb a ds rs cx)) (snd (arm_rows aeqb a ds rs cx)))
     = Some (erase_rng (model s' a))).
Proof.
  revert s. induction arms as [|b t IH]; intros s Hn Hok; simpl in *.
  - repeat split; auto. intros [].
  - destruct (lin_fit_arm N aeqb s g b ds rs cx) as [s1|] eqn:E1; [|simpl in Hok; discriminate].
    inversion Hn as [|? ? Hnb Hnt]; subst.
    destruct (lin_fit_arm_model s s1 g b ds rs cx a E1) as (F1 & F2 & F3 & F4 & F5 & F6 & F7).
    destruct (IH s1 Hnt Hok) as (I1 & I2 & I3 & I4 & I5 & I6).
    split; [congruence|]. split; [congruence|]. split; [congruence|]. split; [congruence|]. split.
    + intros Hcase. rewrite I5.
      * destruct (keqb_dec aeqb aeqb_spec a b) as [Eab|Nab].
        -- subst b. destruct Hcase as [Hnot|Hemp]; [exfalso; apply Hnot; left; reflexivity|]. rewrite (F6 Hemp). reflexivity.
        -- rewrite (F5 Nab). reflexivity.
      * destruct Hcase as [Hnot|Hemp]; [left; intros Hin; apply Hnot; right; exact Hin | right; exact Hemp].
    + intros Hin Hrows. destruct Hin as [<-|Hin].
      * transitivity (Some (erase_rng (model s1 b))); [exact (F7 Hrows)|]. f_equal. symmetry. apply I5. left. exact Hnb.
      * assert (Nab : a <> b) by (intros ->; contradiction).
        rewrite <- (F5 Nab), <- F1. apply (I6 Hin Hrows).
Qed.

(* ---- whole histories ------------------------------------------------------------------------------------ *)
Definition batch := (list A * list R * mat (R:=R))%type.

Fixpoint lin_partials (s : lin) (g : G) (h : list batch) : lin * bool :=
  match h with
  | [] => (s, true)
  | (ds, rs, cx) :: t =>
      let (s1, ok) := lin_partial_fit N aeqb s g ds rs cx in
      if ok then lin_partials s1 g t else (s1, false)
  end.

(* the non-empty row blocks of arm a, in call order *)
Definition arm_batches (a : A) (h : list batch) : list (mat (R:=R) * vec (R:=R)) :=
  filter (fun b => match fst b with [] => false | _ => true end)
         (map (fun b => let '(ds, rs, cx) := (b : batch) in arm_rows aeqb a ds rs cx) h).

Lemma ridge_fits_erase d (bs : list (mat (R:=R) * vec (R:=R))) (m m' : ridge) :
  erase_rng m = erase_rng m' -> option_map erase_rng (ridge_fits d m bs) = option_map erase_rng (ridge_fits d m' bs).
Proof.
  revert m m'. induction bs as [|[x y] t IH]; intros m m' E; simpl; [rewrite E; reflexivity|].
  pose proof (ridge_fit_erase N d m m' x y E) as H.
  destruct (ridge_fit N d m x y) as [m1|]; destruct (ridge_fit N d m' x y) as [m1'|]; simpl in H; try discriminate; [|reflexivity].
  apply IH. injection H as H. unfold erase_rng. congruence.
Qed.

Lemma ridge_fits_app d (b1 b2 : list (mat (R:=R) * vec (R:=R))) (m : ridge) :
  ridge_fits d m (b1 ++ b2) = match ridge_fits d m b1 with Some m1 => ridge_fits d m1 b2 | None => None end.
Proof.
  revert m. induction b1 as [|[x y] t IH]; intros m; simpl; [reflexivity|].
  destruct (ridge_fit N d m x y); [apply IH | reflexivity].
Qed.

Lemma arm_rows_lengths a ds (rs : list R) (cx : mat (R:=R)) : length (fst (arm_rows aeqb a ds rs cx)) = length (snd (arm_rows aeqb a ds rs cx)).
Proof. unfold arm_rows. simpl. rewrite !map_length. reflexivity. Qed.

Lemma lin_partial_fit_model (s : lin) g ds rs cx a :
  NoDup (l_arms s) -> In a (l_arms s) -> snd (lin_partial_fit N aeqb s g ds rs cx) = true ->
  let s' := fst (lin_partial_fit N aeqb s g ds rs cx) in
  l_nf s' = l_nf s /\ l_arms s' = l_arms s /\
  (fst (arm_rows aeqb a ds rs cx) = [] -> erase_rng (model s' a) = erase_rng (model s a)) /\
  (fst (arm_rows aeqb a ds rs cx) <> [] ->
     option_map erase_rng (ridge_fit N (match l_nf s with Some d => d | None => O end) (model s a)
                             (fst (arm_rows aeqb a ds rs cx)) (snd (arm_rows aeqb a ds rs cx)))
     = Some (erase_rng (model s' a))).
Proof.
  intros Hn Hin. unfold lin_partial_fit.
  pose proof (lin_parallel_fit_model (l_arms s) s g ds rs cx a Hn) as H.
  destruct (lin_parallel_fit N aeqb s g (l_arms s) ds rs cx) as [s4 ok]. simpl in H.
  destruct ok; simpl; [|discriminate]. intros _. destruct (H eq_refl) as (H1 & _ & _ & H4 & H5 & H6).
  repeat split; auto.
Qed.

(* after fit(D0) and any number of partial_fit calls that all succeed, the regression of arm a is the one obtained by
   feeding a's non-empty row blocks, in order, to a freshly initialised regression *)
Theorem lin_history_models (s0 : lin) g d0 rs0 cx0 (h : list batch) (a : A) :
  lin_keys_ok s0 -> In a (l_arms s0) ->
  snd (lin_fit N aeqb s0 g d0 rs0 cx0) = true ->
  snd (lin_partials (fst (lin_fit N aeqb s0 g d0 rs0 cx0)) g h) = true ->
  let d := ncols cx0 in
  let sk := fst (lin_partials (fst (lin_fit N aeqb s0 g d0 rs0 cx0)) g h) in
  exists m', ridge_fits d (ridge_init N (set_lnf s0 (Some d)) d (model s0 a)) (arm_batches a ((d0, rs0, cx0) :: h)) = Some m' /\
             erase_rng (model sk a) = erase_rng m'.
Proof.
  intros Hk Hin Hok0 Hokh d sk.
  pose proof Hk as (Hn & He & Hst & Hm).
  (* the first fit *)
  assert (H1 : exists m1, ridge_fits d (ridge_init N (set_lnf s0 (Some d)) d (model s0 a)) (arm_batches a [(d0, rs0, cx0)]) = Some m1 /\
                          erase_rng (model (fst (lin_fit N aeqb s0 g d0 rs0 cx0)) a) = erase_rng m1 /\
                          l_nf (fst (lin_fit N aeqb s0 g d0 rs0 cx0)) = Some d).
  { unfold lin_fit in *. fold d in Hok0 |- *.
    set (s3 := set_lstatus (set_models (set_lnf s0 (Some d)) _) _) in *.
    assert (Ha3 : l_arms s3 = l_arms s0) by reflexivity.
    assert (Hm3 : model s3 a = ridge_init N (set_lnf s0 (Some d)) d (model s0 a)).
    { unfold model, s3; simpl. unfold aget_d.
      change (map (fun am : A * ridge => (fst am, ridge_init N (set_lnf s0 (Some d)) d (snd am))) (l_models s0))
        with (mmap (ridge_init N (set_lnf s0 (Some d)) d) (l_models s0)).
      rewrite (aget_mmap aeqb).
      destruct (aget_in aeqb aeqb_spec (l_models s0) a) as [v Ev]; [rewrite Hm; exact Hin|]. rewrite Ev. reflexivity. }
    pose proof (lin_parallel_fit_model (l_arms s3) s3 g d0 rs0 cx0 a) as H. rewrite Ha3 in H. specialize (H Hn).
    change (l_arms s3) with (l_arms s0) in Hok0 |- *.
    destruct (lin_parallel_fit N aeqb s3 g (l_arms s0) d0 rs0 cx0) as [s4 ok]. cbn [fst snd] in H.
    destruct ok; simpl in Hok0 |- *; [|discriminate]. destruct (H eq_refl) as (F1 & _ & _ & _ & F5 & F6).
    unfold arm_batches. cbn [map].
    remember (arm_rows aeqb a d0 rs0 cx0) as xy eqn:Exy in *. destruct xy as [x y]. cbn [fst snd] in *.
    destruct x as [|r0 x'].
    - cbn [filter fst]. eexists; split; [reflexivity|]. split; [|exact F1]. change (model (lset_trained aeqb s4 d0 false) a) with (model s4 a).
      rewrite F5 by (right; reflexivity). rewrite Hm3. reflexivity.
    - cbn [filter fst]. specialize (F6 Hin ltac:(discriminate)). change (l_nf s3) with (Some d) in F6. rewrite Hm3 in F6.
      cbn [ridge_fits].
      destruct (ridge_fit N d (ridge_init N (set_lnf s0 (Some d)) d (model s0 a)) (r0 :: x') y) as [m2|]; simpl in F6; [|discriminate].
      exists m2. split; [reflexivity|]. split; [|exact F1]. change (model (lset_trained aeqb s4 d0 false) a) with (model s4 a).
      apply (f_equal (fun o => match o with Some v => v | None => erase_rng m2 end)) in F6. simpl in F6. symmetry. exact F6. }
  (* the partial fits *)
  destruct H1 as (m1 & R1 & E1 & Nf1).
  assert (Ha1 : l_arms (fst (lin_fit N aeqb s0 g d0 rs0 cx0)) = l_arms s0) by (apply (lin_fit_arms N aeqb aeqb_spec); exact Hk).
  assert (Happ : arm_batches a ((d0, rs0, cx0) :: h) = arm_batches a [(d0, rs0, cx0)] ++ arm_batches a h).
  { change ((d0, rs0, cx0) :: h) with ([(d0, rs0, cx0)] ++ h). unfold arm_batches. rewrite map_app, filter_app. reflexivity. }
  rewrite Happ, ridge_fits_app, R1. subst sk. clear Happ.
  generalize dependent (fst (lin_fit N aeqb s0 g d0 rs0 cx0)). intros s1 Hokh E1 Nf1 Ha1.
  clear R1 Hok0. revert s1 m1 Hokh E1 Nf1 Ha1. induction h as [|[[ds rs] cx] t IH]; intros s1 m1 Hokh E1 Nf1 Ha1; simpl.
  - exists m1. auto.
  - simpl in Hokh.
    pose proof (lin_partial_fit_model s1 g ds rs cx a) as P. rewrite Ha1 in P. specialize (P Hn Hin).
    destruct (lin_partial_fit N aeqb s1 g ds rs cx) as [s2 ok]. cbn [fst snd] in P.
    destruct ok; [|simpl in Hokh; discriminate]. destruct (P eq_refl) as (P1 & P2 & P3 & P4).
    unfold arm_batches. cbn [map].
    remember (arm_rows aeqb a ds rs cx) as xy eqn:Exy in *. destruct xy as [x y]. cbn [fst snd] in *.
    destruct x as [|r0 x'].
    + cbn [filter fst]. fold (arm_batches a t). apply IH; [exact Hokh | rewrite P3 by reflexivity; exact E1 | congruence | congruence].
    + cbn [filter fst]. fold (arm_batches a t). specialize (P4 ltac:(discriminate)). rewrite Nf1 in P4. cbn [ridge_fits].
      pose proof (ridge_fit_erase N d (model s1 a) m1 (r0 :: x') y E1) as Hfe. rewrite P4 in Hfe.
      destruct (ridge_fit N d m1 (r0 :: x') y) as [m2|]; simpl in Hfe; [|discriminate].
      apply (f_equal (fun o => match o with Some v => v | None => erase_rng m2 end)) in Hfe. simpl in Hfe. apply IH; [exact Hokh | congruence | congruence | congruence].
Qed.

(* the closed form: with X, y all the rows / rewards of arm a in the history *)
Theorem lin_history_normal_equations (s0 : lin) g d0 rs0 cx0 (h : list batch) (a : A) :
  lin_keys_ok s0 -> In a (l_arms s0) -> l_scale s0 = false ->
  snd (lin_fit N aeqb s0 g d0 rs0 cx0) = true ->
  snd (lin_partials (fst (lin_fit N aeqb s0 g d0 rs0 cx0)) g h) = true ->
  let d := ncols cx0 in
  let mk := model (fst (lin_partials (fst (lin_fit N aeqb s0 g d0 rs0 cx0)) g h)) a in
  let bs := arm_batches a ((d0, rs0, cx0) :: h) in
  let X := concat (map fst bs) in let y := concat (map snd bs) in
  (bs = [] -> erase_rng mk = erase_rng (ridge_init N (set_lnf s0 (Some d)) d (model s0 a))) /\
  (bs <> [] ->
     r_A mk = madd N (mscale N (l_l2 s0) (identity N d)) (xtx N d X) /\
     r_Xty mk = vadd N (zeros N d) (xty N d X y) /\
     inverse N d (r_A mk) = Some (r_Ainv mk) /\ r_beta mk = mat_vec N (r_Ainv mk) (r_Xty mk)).
Proof.
  intros Hk Hin Hsc Hok0 Hokh d mk bs X y.
  destruct (lin_history_models s0 g d0 rs0 cx0 h a Hk Hin Hok0 Hokh) as (m' & Hf & He).
  fold d in Hf. fold bs in Hf. fold mk in He.
  split.
  - intros Eb. rewrite Eb in Hf. simpl in Hf. injection Hf as <-. exact He.
  - intros Hne.
    assert (Hs0 : r_scaler (ridge_init N (set_lnf s0 (Some d)) d (model s0 a)) = None) by (unfold ridge_init; simpl; rewrite Hsc; reflexivity).
    assert (Hl : Forall (fun b => length (fst b) = length (snd b)) bs).
    { unfold bs, arm_batches. apply Forall_forall. intros b Hb. apply filter_In in Hb. destruct Hb as [Hb _].
      apply in_map_iff in Hb. destruct Hb as [[[ds rs] cx] [<- _]]. apply arm_rows_lengths. }
    destruct (ridge_fits_normal_equations d bs _ m' Hs0 Hne Hl Hf) as (A1 & B1 & C1 & D1 & _).
    unfold erase_rng in He. injection He as E1 E2 E3 E4 E5.
    rewrite E1, E2, E3, E4. rewrite A1, B1. simpl. rewrite A1 in C1. rewrite B1 in D1. simpl in C1, D1. repeat split; auto.
Qed.

(* any two ways of splitting the same per-arm rows into fit + partial_fit calls give the same regression *)
Theorem lin_split_irrelevant (s0 : lin) g g' d0 rs0 cx0 h d0' rs0' cx0' h' (a : A) :
  lin_keys_ok s0 -> In a (l_arms s0) -> l_scale s0 = false ->
  snd (lin_fit N aeqb s0 g d0 rs0 cx0) = true -> snd (lin_partials (fst (lin_fit N aeqb s0 g d0 rs0 cx0)) g h) = true ->
  snd (lin_fit N aeqb s0 g' d0' rs0' cx0') = true -> snd (lin_partials (fst (lin_fit N aeqb s0 g' d0' rs0' cx0')) g' h') = true ->
  ncols cx0 = ncols cx0' ->
  let bs := arm_batches a ((d0, rs0, cx0) :: h) in let bs' := arm_batches a ((d0', rs0', cx0') :: h') in
  bs <> [] -> bs' <> [] ->
  concat (map fst bs) = concat (map fst bs') -> concat (map snd bs) = concat (map snd bs') ->
  let mk := model (fst (lin_partials (fst (lin_fit N aeqb s0 g d0 rs0 cx0)) g h)) a in
  let mk' := model (fst (lin_partials (fst (lin_fit N aeqb s0 g' d0' rs0' cx0')) g' h')) a in
  r_A mk = r_A mk' /\ r_Xty mk = r_Xty mk' /\ r_Ainv mk = r_Ainv mk' /\ r_beta mk = r_beta mk'.
Proof.
  intros Hk Hin Hsc O1 O2 O3 O4 Ed bs bs' Hne Hne' Ex Ey mk mk'.
  destruct (lin_history_normal_equations s0 g d0 rs0 cx0 h a Hk Hin Hsc O1 O2) as [_ H1].
  destruct (lin_history_normal_equations s0 g' d0' rs0' cx0' h' a Hk Hin Hsc O3 O4) as [_ H2].
  destruct (H1 Hne) as (A1 & B1 & C1 & D1). destruct (H2 Hne') as (A2 & B2 & C2 & D2).
  fold bs in A1, B1. fold bs' in A2, B2. fold mk in A1, B1, C1, D1. fold mk' in A2, B2, C2, D2.
  rewrite <- Ed in A2, B2, C2. rewrite <- Ex in A2, B2. rewrite <- Ey in B2.
  assert (EA : r_A mk = r_A mk') by congruence. assert (EX : r_Xty mk = r_Xty mk') by congruence.
  assert (EI : r_Ainv mk = r_Ainv mk') by (rewrite EA in C1; congruence).
  repeat split; auto. rewrite D1, D2, EI, EX. reflexivity.
Qed.

(* the coefficients are THE solution of the ridge normal equations: whenever some b satisfies
   (lambda*I + X'X) b = X'y (it always does for lambda > 0 over the reals), beta = b *)
Theorem lin_history_beta_is_the_ridge_solution (s0 : lin) g d0 rs0 cx0 (h : list batch) (a : A) (b : vec (R:=R)) :
  lin_keys_ok s0 -> In a (l_arms s0) -> l_scale s0 = false ->
  snd (lin_fit N aeqb s0 g d0 rs0 cx0) = true ->
  snd (lin_partials (fst (lin_fit N aeqb s0 g d0 rs0 cx0)) g h) = true ->
  let d := ncols cx0 in
  let mk := model (fst (lin_partials (fst (lin_fit N aeqb s0 g d0 rs0 cx0)) g h)) a in
  let bs := arm_batches a ((d0, rs0, cx0) :: h) in
  let X := concat (map fst bs) in let y := concat (map snd bs) in
  bs <> [] -> length b = d ->
  mat_vec N (madd N (mscale N (l_l2 s0) (identity N d)) (xtx N d X)) b = vadd N (zeros N d) (xty N d X y) ->
  r_beta mk = b.
Proof.
  intros Hk Hin Hsc O1 O2 d mk bs X y Hne Hb Hsol.
  destruct (lin_history_normal_equations s0 g d0 rs0 cx0 h a Hk Hin Hsc O1 O2) as [_ H].
  destruct (H Hne) as (A1 & B1 & C1 & D1). fold mk in A1, B1, C1, D1. fold d in A1, B1, C1. fold bs in A1, B1. fold X in A1, B1. fold y in B1.
  rewrite D1, B1, <- Hsol. rewrite A1 in C1.
  apply (inverse_solves N L d _ _ b (wfA_ridge_matrix N d (l_l2 s0) X) C1 Hb).
Qed.

End LinSpec.
