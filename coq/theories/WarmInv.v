(* WarmInv.v — warm_start keeps the dictionary invariants of the context-free policies. *)
From Coq Require Import ZArith List Bool Lia.
From MW Require Import Num Assoc AssocFacts Rng CF CFInv CFClean Matrix Lin Warm.
Import ListNotations.

Section WarmInv.
Context {R A G : Type} (N : Num R) (aeqb : A -> A -> bool).
Hypothesis aeqb_spec : forall x y, aeqb x y = true <-> x = y.
Notation cf := (@cf R A).

Lemma cold_arms_in (s : cf) c : In c (cold_arms aeqb s) -> In c (c_arms s).
Proof. unfold cold_arms; intros H; apply filter_In in H; tauto. Qed.

Lemma cold_to_warm_gen_fst (trained cold : list A) dt thr c w :
  In (c, w) (cold_to_warm_gen N aeqb trained cold dt thr) -> In c cold /\ In w trained.
Proof.
  unfold cold_to_warm_gen. intros H. apply in_flat_map in H. destruct H as [c' [Hc H]].
  destruct (argmin_first N _) as [w'|] eqn:E; [|contradiction].
  destruct (leb N _ thr); [|contradiction].
  destruct H as [H|[]]. injection H as -> ->. split; [exact Hc|].
  (* the arg-min of a dictionary is one of its keys *)
  unfold argmin_first in E.
  destruct (map (fun a => (a, dist_lookup N aeqb dt c a)) trained) as [|h t] eqn:Em; [discriminate|].
  injection E as E.
  assert (Hin : forall (l : list (A * R)) b, In (fst (fold_left (fun b kv => if ltb N (snd kv) (snd b) then kv else b) l b)) (map fst (b :: l))).
  { induction l as [|x l IH]; intros b; simpl; [left; reflexivity|].
    destruct (ltb N (snd x) (snd b)).
    - destruct (IH x) as [H1|H1]; simpl in *; [right; left; exact H1 | right; right; exact H1].
    - destruct (IH b) as [H1|H1]; simpl in *; [left; exact H1 | right; right; exact H1]. }
  specialize (Hin t h). rewrite E in Hin. rewrite <- Em in Hin. rewrite map_map in Hin. simpl in Hin.
  rewrite map_id in Hin. exact Hin.
Qed.

Lemma copy_arm_shape (s : cf) cw : In (fst cw) (c_arms s) -> keys_ok s -> same_shape s (copy_arm N aeqb s cw).
Proof.
  intros Hin (Hn & He & Hst & Hs). destruct cw as [c w]; simpl in Hin.
  unfold copy_arm, same_shape. destruct (c_kind s); simpl;
    rewrite ?(akeys_aset_in aeqb aeqb_spec) by (rewrite ?He, ?Hs; exact Hin); auto.
Qed.

Lemma mark_warm_shape (s : cf) cw : In (fst cw) (c_arms s) -> keys_ok s -> same_shape s (mark_warm aeqb s cw).
Proof.
  intros Hin (Hn & He & Hst & Hs). destruct cw as [c w]; simpl in Hin.
  unfold mark_warm, same_shape; simpl.
  rewrite (akeys_aset_in aeqb aeqb_spec) by (rewrite Hst; exact Hin); auto.
Qed.

Lemma fold_shape (f : cf -> A * A -> cf) (m : list (A * A)) (s : cf) :
  (forall t cw, In cw m -> c_arms t = c_arms s -> keys_ok t -> same_shape t (f t cw)) ->
  keys_ok s -> same_shape s (fold_left f m s) .
Proof.
  revert s. induction m as [|cw t IH]; intros s Hf Hk; simpl; [apply same_shape_refl|].
  pose proof (Hf s cw (or_introl eq_refl) eq_refl Hk) as H1.
  eapply same_shape_trans; [exact H1|]. apply IH.
  - intros t' cw' Hin Ha Hk'. apply Hf; [right; exact Hin | rewrite Ha; apply H1 | exact Hk'].
  - eapply keys_ok_shape; eauto.
Qed.

Theorem cf_warm_start_keys_ok (s s' : cf) keys raw q :
  keys_ok s -> cf_warm_start N aeqb s keys raw q = Some s' -> keys_ok s'.
Proof.
  intros Hk. unfold cf_warm_start.
  destruct (c_kind s) eqn:Ek; try (intros E; injection E as <-; exact Hk);
  (destruct (distance_threshold N _ q) as [thr|]; [|discriminate]; intros E; injection E as <-);
  set (m := cold_to_warm N aeqb s (distance_table N aeqb keys raw) thr);
  assert (Hm : forall cw, In cw m -> In (fst cw) (c_arms s))
    by (intros [c w] Hin; simpl; apply cold_arms_in; apply (cold_to_warm_gen_fst _ _ _ _ _ _ Hin));
  assert (H1 : same_shape s (fold_left (copy_arm N aeqb) m s))
    by (apply fold_shape; [intros t cw Hin Ha Hkt; apply copy_arm_shape; [rewrite Ha; apply Hm; exact Hin | exact Hkt] | exact Hk]).
  all: try (eapply keys_ok_shape; [|exact Hk]; eapply same_shape_trans; [exact H1|];
       apply fold_shape; [intros t cw Hin Ha Hkt; apply mark_warm_shape; [rewrite Ha; rewrite (proj1 H1); apply Hm; exact Hin | exact Hkt]
                         | eapply keys_ok_shape; eauto]).
  (* softmax: one more shape-preserving step in between *)
  assert (H2 : same_shape s (softmax_expectation N aeqb (fold_left (copy_arm N aeqb) m s)))
    by (eapply same_shape_trans; [exact H1 | apply softmax_expectation_shape]).
  eapply keys_ok_shape; [|exact Hk]. eapply same_shape_trans; [exact H2|].
  apply fold_shape; [intros t cw Hin Ha Hkt; apply mark_warm_shape; [rewrite Ha; rewrite (proj1 H2); apply Hm; exact Hin | exact Hkt]
                    | eapply keys_ok_shape; eauto].
Qed.


Lemma copy_arm_clean (s : cf) cw : c_kind s <> KRandom -> clean N s -> clean N (copy_arm N aeqb s cw).
Proof.
  intros Hnr Hc. pose proof Hc as (Hs & Ht & Hp & Hr). destruct cw as [c w].
  assert (Hw : st_ok N (c_kind s) (aget_d aeqb (armst0 N) (c_stats s) w))
    by (apply (aget_d_Forall aeqb (st_ok N (c_kind s))); [exact Hs | apply st_ok_armst0]).
  assert (Hcc : st_ok N (c_kind s) (aget_d aeqb (armst0 N) (c_stats s) c))
    by (apply (aget_d_Forall aeqb (st_ok N (c_kind s))); [exact Hs | apply st_ok_armst0]).
  unfold copy_arm.
  destruct (c_kind s) eqn:Ek; try contradiction; simpl in Hw, Hcc;
    unfold clean; simpl; rewrite ?Ek;
    (repeat split; [ apply Forall_aset; [intros; simpl; tauto | exact Hs] | auto; try congruence .. ]);
    try (intros; discriminate).
Qed.

Lemma mark_warm_clean (s : cf) cw : c_kind s <> KRandom -> clean N s -> clean N (mark_warm aeqb s cw).
Proof. intros Hnr Hc. destruct cw as [c w]. unfold mark_warm. apply clean_set_status; assumption. Qed.

Lemma copy_arm_kind (s : cf) cw : c_kind (copy_arm N aeqb s cw) = c_kind s.
Proof. destruct cw as [c w]. unfold copy_arm. destruct (c_kind s) eqn:Ek; simpl; auto. Qed.
Lemma mark_warm_kind (s : cf) cw : c_kind (mark_warm aeqb s cw) = c_kind s.
Proof. destruct cw as [c w]. reflexivity. Qed.

Lemma fold_clean (f : cf -> A * A -> cf) (m : list (A * A)) (s : cf) :
  (forall t cw, c_kind (f t cw) = c_kind t) ->
  (forall t cw, c_kind t <> KRandom -> clean N t -> clean N (f t cw)) ->
  c_kind s <> KRandom -> clean N s -> clean N (fold_left f m s) /\ c_kind (fold_left f m s) = c_kind s.
Proof.
  intros Hkf Hcf. revert s. induction m as [|cw t IH]; intros s Hk Hc; simpl; [auto|].
  destruct (IH (f s cw)) as [H1 H2]; [rewrite Hkf; exact Hk | apply Hcf; assumption|].
  split; [exact H1 | rewrite H2; apply Hkf].
Qed.

Theorem cf_warm_start_clean (s s' : cf) keys raw q :
  clean N s -> cf_warm_start N aeqb s keys raw q = Some s' -> clean N s'.
Proof.
  intros Hc. unfold cf_warm_start.
  destruct (c_kind s) eqn:Ek; try (intros E; injection E as <-; exact Hc);
  (destruct (distance_threshold N _ q) as [thr|]; [|discriminate]; intros E; injection E as <-);
  set (m := cold_to_warm N aeqb s (distance_table N aeqb keys raw) thr);
  (assert (Hnr : c_kind s <> KRandom) by (rewrite Ek; discriminate));
  destruct (fold_clean (copy_arm N aeqb) m s copy_arm_kind copy_arm_clean Hnr Hc) as [H1 K1].
  all: try (apply (fold_clean (mark_warm aeqb) m _ mark_warm_kind mark_warm_clean); [rewrite K1; exact Hnr | exact H1]).
  apply (fold_clean (mark_warm aeqb) m _ mark_warm_kind mark_warm_clean).
  - simpl. rewrite K1; exact Hnr.
  - apply clean_softmax_expectation; [rewrite K1; exact Ek | exact H1].
Qed.

End WarmInv.
