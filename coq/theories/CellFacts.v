(* CellFacts.v — C12: Clusters trains the policy of each cluster on exactly the stored rows carrying that
   cluster's label (for every labelling returned by k-means), and TreeBandit files each reward of an arm
   under the leaf of that arm's tree its context falls into (for every leaf function), in arrival order. *)
From Coq Require Import ZArith List Bool Arith Lia.
From MW Require Import Num Assoc AssocFacts Rng Par CF Matrix Lin Nbr Clu Tree.
Import ListNotations.

Section CellFacts.
Context {R A G : Type} (N : Num R) (aeqb : A -> A -> bool) (RG : RngOps R G).
Hypothesis aeqb_spec : forall x y, aeqb x y = true <-> x = y.

(* ---- Clusters --------------------------------------------------------------------------------- *)
Lemma nth_error_combine_seq {T} (l : list T) (a i : nat) (x : T) :
  nth_error l i = Some x -> nth_error (combine (seq a (length l)) l) i = Some (a + i, x).
Proof.
  revert a i. induction l as [|y t IH]; intros a i H; [destruct i; discriminate|].
  destruct i as [|i]; simpl in *.
  - injection H as ->. rewrite Nat.add_0_r. reflexivity.
  - rewrite (IH (S a) i H). f_equal. f_equal. lia.
Qed.

Theorem cluster_policy_trained_on_its_rows (s : @clu R A G) (g : G) (labels : list nat) (c : nat) (l : @lp R A G) :
  length (k_lps s) = k_n s -> nth_error (k_lps s) c = Some l ->
  nth_error (k_lps (fst (clu_refit N aeqb s g labels))) c =
  Some (fst (lp_fit N aeqb l g (rows_with_label labels c (k_ds s)) (rows_with_label labels c (k_rs s)) (rows_with_label labels c (k_cx s)))).
Proof.
  intros Hl Hc. unfold clu_refit. simpl. rewrite <- Hl.
  rewrite nth_error_map. rewrite nth_error_map.
  rewrite (nth_error_combine_seq (k_lps s) 0 c l Hc). simpl. reflexivity.
Qed.

(* the rows with label c: exactly the positions labelled c, in stored order *)
Theorem rows_with_label_spec {T} (labels : list nat) (c : nat) (l : list T) (x : T) :
  In x (rows_with_label labels c l) <-> exists i, nth_error labels i = Some c /\ nth_error l i = Some x.
Proof.
  unfold rows_with_label. rewrite in_map_iff. split.
  - intros [[lb y] [E H]]. simpl in E. subst y. apply filter_In in H. destruct H as [H1 H2]. simpl in H2.
    apply Nat.eqb_eq in H2. subst lb.
    apply In_nth_error in H1. destruct H1 as [i Hi]. exists i.
    revert labels l Hi. induction i as [|i IH]; intros [|a labels] [|b l] Hi; simpl in *; try discriminate.
    + injection Hi as -> ->. auto.
    + apply IH. exact Hi.
  - intros [i [H1 H2]]. exists (c, x). split; [reflexivity|]. apply filter_In. split; [|simpl; apply Nat.eqb_refl].
    revert labels l H1 H2. induction i as [|i IH]; intros [|a labels] [|b l] H1 H2; simpl in *; try discriminate.
    + injection H1 as ->. injection H2 as ->. left; reflexivity.
    + right. apply IH; assumption.
Qed.

(* a query row is answered by the policy of the cluster k-means assigns it to *)
Theorem cluster_query_uses_assigned_cluster (lps : list (@lp R A G)) sd seeds row rows c assign (l : @lp R A G) is_predict :
  nth_error lps c = Some l ->
  let '(e, l', _) := lp_expectations1 N aeqb RG l (create RG sd) row in
  clu_rows N aeqb RG lps (sd :: seeds) (row :: rows) (c :: assign) is_predict =
  (if is_predict then inl (argmax_first N e) else inr (map (fun kv => (fst kv, Some (snd kv))) e))
  :: clu_rows N aeqb RG (set_nth lps c l') seeds rows assign is_predict.
Proof.
  intros H. simpl. rewrite H.
  destruct (lp_expectations1 N aeqb RG l (create RG sd) row) as [[e l'] g']. reflexivity.
Qed.

(* ---- TreeBandit ------------------------------------------------------------------------------ *)
Lemma nateqb_spec : forall x y : nat, Nat.eqb x y = true <-> x = y.
Proof. intros; apply Nat.eqb_eq. Qed.

Lemma leaf_fold (leaf : A -> list R -> nat) (a : A) (rows : list (A * R * list R)) (tbl : list (nat * list R)) (lf : nat) :
  aget_d Nat.eqb [] (fold_left (fun t row => let lf0 := leaf a (snd row) in
                                             aset Nat.eqb t lf0 (aget_d Nat.eqb [] t lf0 ++ [snd (fst row)])) rows tbl) lf =
  aget_d Nat.eqb [] tbl lf ++ map (fun row => snd (fst row)) (filter (fun row => Nat.eqb (leaf a (snd row)) lf) rows).
Proof.
  revert tbl. induction rows as [|row rows IH]; intros tbl; simpl; [rewrite app_nil_r; reflexivity|].
  rewrite IH. clear IH. unfold aget_d at 1.
  destruct (Nat.eqb_spec (leaf a (snd row)) lf) as [E|E].
  - rewrite E. rewrite (aget_aset_same Nat.eqb nateqb_spec). simpl. rewrite <- app_assoc. reflexivity.
  - rewrite (aget_aset_other Nat.eqb nateqb_spec) by (intros H; apply E; symmetry; exact H). reflexivity.
Qed.

(* after _fit_arm: each leaf of the arm holds its previous rewards followed by the rewards of the arm's rows of
   this batch whose context falls into that leaf, in row order *)
Theorem tree_fit_arm_leaf (leaf : A -> list R -> nat) (lv : list (A * list (nat * list R))) (a : A) ds rs (cx : mat (R:=R)) (lf : nat) :
  let rows := filter (fun t => aeqb (fst (fst t)) a) (combine (combine ds rs) cx) in
  aget_d Nat.eqb [] (aget_d aeqb [] (tree_fit_arm aeqb leaf lv a ds rs cx) a) lf =
  aget_d Nat.eqb [] (aget_d aeqb [] lv a) lf ++ map (fun row => snd (fst row)) (filter (fun row => Nat.eqb (leaf a (snd row)) lf) rows).
Proof.
  intros rows. unfold tree_fit_arm. fold rows.
  destruct rows as [|r0 rows'] eqn:Er.
  - simpl. rewrite app_nil_r. reflexivity.
  - rewrite <- Er. unfold aget_d at 2. rewrite (aget_aset_same aeqb aeqb_spec). apply leaf_fold.
Qed.

(* other arms are not touched by the task of arm a *)
Theorem tree_fit_arm_other (leaf : A -> list R -> nat) (lv : list (A * list (nat * list R))) (a b : A) ds rs (cx : mat (R:=R)) :
  b <> a -> aget aeqb (tree_fit_arm aeqb leaf lv a ds rs cx) b = aget aeqb lv b.
Proof.
  intros Hne. unfold tree_fit_arm.
  destruct (filter (fun t => aeqb (fst (fst t)) a) (combine (combine ds rs) cx)); [reflexivity|].
  apply (aget_aset_other aeqb aeqb_spec). exact Hne.
Qed.

End CellFacts.
