(* Repro.v — C04, the reproducibility sentence itself, as corollaries of the isolation theorem: two bandits that are equal as values
   (equal constructor arguments, the seed included, give equal initial states: the constructor is a function) and receive equal call
   sequences return equal results and end in equal states -
     * in the same process, whatever else is created, trained or queried in between and however the two call sequences are interleaved;
     * in two different processes, each with its own other bandits and its own interleaving.
   (That the CODE has no state outside the bandit values - module globals, numpy's global generator, hash-order dependence - is the
   part of C04 no model exhibits: the randomness trace of the correspondence and the four-interpreter relation observe it.) *)
From Coq Require Import ZArith List Bool Arith Lia.
From MW Require Import Num Assoc Rng CF Matrix Lin Warm Nbr Clu Tree Mab Extra.
Import ListNotations.

Section Repro.
Context {R A G : Type} (N : Num R) (aeqb : A -> A -> bool) (RG : RngOps R G).
Notation mab := (@mab R A G).
Notation op := (@op R A).

Theorem equal_bandits_equal_results_same_process (w : list mab) (calls : list (nat * op)) (i j : nat) (m : mab) :
  nth_error w i = Some m -> nth_error w j = Some m ->
  only i calls = only j calls ->
  only i (snd (wrun N aeqb RG w calls)) = only j (snd (wrun N aeqb RG w calls)) /\
  nth_error (fst (wrun N aeqb RG w calls)) i = nth_error (fst (wrun N aeqb RG w calls)) j.
Proof.
  intros Hi Hj E.
  destruct (isolation N aeqb RG calls w i m Hi) as [A1 A2].
  destruct (isolation N aeqb RG calls w j m Hj) as [B1 B2].
  rewrite A1, A2, B1, B2, E. split; reflexivity.
Qed.

Theorem equal_bandits_equal_results_two_processes (w1 w2 : list mab) (calls1 calls2 : list (nat * op)) (i j : nat) (m : mab) :
  nth_error w1 i = Some m -> nth_error w2 j = Some m ->
  only i calls1 = only j calls2 ->
  only i (snd (wrun N aeqb RG w1 calls1)) = only j (snd (wrun N aeqb RG w2 calls2)) /\
  nth_error (fst (wrun N aeqb RG w1 calls1)) i = nth_error (fst (wrun N aeqb RG w2 calls2)) j.
Proof.
  intros Hi Hj E.
  destruct (isolation N aeqb RG calls1 w1 i m Hi) as [A1 A2].
  destruct (isolation N aeqb RG calls2 w2 j m Hj) as [B1 B2].
  rewrite A1, A2, B1, B2, E. split; reflexivity.
Qed.

(* a bandit constructed later (appended to the process) does not disturb the ones that exist *)
Theorem constructing_another_bandit_changes_nothing (w : list mab) (extra : mab) (calls : list (nat * op)) (i : nat) (m : mab) :
  nth_error w i = Some m ->
  only i (snd (wrun N aeqb RG (w ++ [extra]) calls)) = only i (snd (wrun N aeqb RG w calls)).
Proof.
  intros Hi.
  assert (Hi' : nth_error (w ++ [extra]) i = Some m).
  { rewrite nth_error_app1; [exact Hi | apply nth_error_Some; congruence]. }
  destruct (isolation N aeqb RG calls w i m Hi) as [A1 _].
  destruct (isolation N aeqb RG calls (w ++ [extra]) i m Hi') as [B1 _].
  rewrite A1, B1. reflexivity.
Qed.

End Repro.
