# c04_worker.py <cases.json> <mode: alone|interleaved> : prints {"digests": [...]} for a list of scenarios.
# Run in a fresh interpreter (with a chosen PYTHONHASHSEED) by relations.run_c04_batch.
import sys, json, hashlib, os
sys.path.insert(0, os.path.dirname(os.path.abspath(__file__)))
import mwh, props
import numpy as np
from mabwiser.mab import MAB, LearningPolicy, NeighborhoodPolicy

def noise(k):
    """construct / train / query other bandits with other seeds (also default-constructed policy tuples)"""
    rng = np.random.default_rng(1000 + k)
    X = rng.integers(0, 5, size=(12, 2)).astype(float)
    ds = [1, 2, 3] * 4
    rs = [float(v) for v in rng.integers(0, 2, size=12)]
    out = []
    for lp, npol in [(LearningPolicy.UCB1(), NeighborhoodPolicy.TreeBandit()),
                     (LearningPolicy.ThompsonSampling(), NeighborhoodPolicy.Clusters()),
                     (LearningPolicy.EpsilonGreedy(), None),
                     (LearningPolicy.LinTS(), NeighborhoodPolicy.KNearest(2)),
                     (LearningPolicy.Softmax(), NeighborhoodPolicy.LSHNearest())]:
        m = MAB([1, 2, 3], lp, npol, seed=77 + k)
        if npol is None:
            m.fit(ds, rs); out.append(m.predict())
        else:
            m.fit(ds, rs, X); out.append(m.predict(X[:3]))
    return out

SHARED = {}

def main():
    cases = json.load(open(sys.argv[1]))
    mode = sys.argv[2]
    digests = []
    for k, c in enumerate(cases):
        c = props.fix_case(c)
        h = hashlib.sha256()
        try:
            if mode == "interleaved":
                noise(k)
            mab, label, inv = mwh.build_mab(c)
            for j, o in enumerate(c["ops"]):
                if mode == "interleaved" and j % 2 == 0:
                    noise(k * 31 + j)
                if mode == "interleaved" and o[0] == "warm":
                    # the caller reuses ONE features dictionary for several bandits: a twin with the same arms (another seed, same
                    # history so far) is warm-started with other feature values, then the dictionary is updated IN PLACE
                    shared = SHARED.setdefault(k, {})
                    try:
                        twin, tl, ti = mwh.build_mab(dict(c, seed=c["seed"] + 17))
                        for o2 in c["ops"][:j]:
                            if o2[0] != "warm":
                                mwh.apply_op(twin, o2, tl, ti, c)
                        shared.clear(); shared.update({label(a): [float(len(o[1]) - i)] * max(1, len(f)) for i, (a, f) in enumerate(zip(o[1], o[2]))})
                        twin.warm_start(shared, o[3])
                    except Exception:
                        pass
                    shared.clear(); shared.update({label(a): list(f) for a, f in zip(o[1], o[2])})
                    try:
                        mab.warm_start(shared, o[3]); out = ("done",)
                    except Exception as e:
                        out = ("rejected", type(e).__name__)
                else:
                    out = mwh.apply_op(mab, o, label, inv, c)
                if out[0] == "rejected":
                    out = ("rejected", out[1])
                if o[0] in ("pred", "pexp"):
                    h.update(repr(out).encode())
        except Exception as e:
            h.update(("EXC " + repr(e)).encode())
        digests.append(h.hexdigest()[:20])
    print(json.dumps({"digests": digests}))

main()
