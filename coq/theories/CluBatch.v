(* CluBatch.v — C06 for Clusters (context-free learning policies other than Thompson Sampling): training the accumulated
   history in one fit, or by fit + partial_fit, leaves exactly the same state whenever k-means labels the accumulated
   history the same way (KMeans re-clusters the whole history on every partial_fit; the labelling is an oracle here).
   The per-cluster policies are RE-FITTED on their rows of the whole history, and fit forgets (C07). *)
From Coq Require Import ZArith List Bool Lia.
From MW Require Import Num Assoc AssocFacts Rng CF CFInv CFClean CFForget Matrix Lin Nbr NbrIndep Clu.
Import ListNotations.

Section CluBatch.
Context {R A G : Type} (N : Num R) (aeqb : A -> A -> bool).
Hypothesis aeqb_spec : forall x y, aeqb x y = true <-> x = y.
Notation lp := (@lp R A G).
Notation clu := (@clu R A G).

(* a context-free, non-Thompson policy in a reachable state *)
Definition plain (l : lp) : Prop :=
  match l with LCf c => keys_ok c /\ clean N c /\ c_kind c <> KThompson | LLin _ => False end.

Lemma plain_fit_twice (l : lp) g g' ds1 rs1 cx1 ds2 rs2 cx2 :
  plain l ->
  lp_fit N aeqb (fst (lp_fit N aeqb l g ds1 rs1 cx1)) g' ds2 rs2 cx2 = lp_fit N aeqb l g' ds2 rs2 cx2 /\
  plain (fst (lp_fit N aeqb l g ds1 rs1 cx1)).
Proof.
  destruct l as [c|s]; simpl; [|contradiction]. intros (Hk & Hc & Hnt).
  pose proof (cf_fit_keys_ok N aeqb aeqb_spec c ds1 rs1 Hk) as Hk1.
  pose proof (cf_fit_clean N aeqb c ds1 rs1 Hc) as Hc1.
  pose proof (cf_fit_cfg N aeqb c ds1 rs1) as Hcfg.
  assert (Ek1 : c_kind (cf_fit N aeqb c ds1 rs1) = c_kind c) by apply Hcfg.
  split; [|split; [exact Hk1 | split; [exact Hc1 | rewrite Ek1; exact Hnt]]].
  f_equal. f_equal.
  rewrite (cf_fit_forgets N aeqb (cf_fit N aeqb c ds1 rs1) ds2 rs2 Hk1 Hc1).
  rewrite (cf_fit_forgets N aeqb c ds2 rs2 Hk Hc). rewrite Ek1.
  rewrite (cf_fresh_cfg N c (cf_fit N aeqb c ds1 rs1) Hcfg).
  destruct (c_kind c); try reflexivity. congruence.
Qed.

Lemma plain_not_binz (l : lp) : plain l -> lp_is_ts_binz l = false.
Proof. destruct l as [c|s]; simpl; [|contradiction]. intros (_ & _ & Hnt). destruct (c_kind c); try reflexivity. congruence. Qed.

Lemma clu_binarize_plain (s : clu) ds rs : Forall plain (k_lps s) -> clu_binarize s ds rs = (k_lps s, rs).
Proof.
  intros H. unfold clu_binarize. destruct (k_lps s) as [|l0 t]; [reflexivity|].
  inversion H; subst. rewrite (plain_not_binz l0) by assumption. reflexivity.
Qed.

Theorem clusters_batch_equals_incremental (s : clu) g g' ds1 rs1 cx1 ds2 rs2 cx2 labels1 labels :
  Forall plain (k_lps s) -> length (k_lps s) = k_n s ->
  fst (clu_partial_fit N aeqb (fst (clu_fit N aeqb s g ds1 rs1 cx1 labels1)) g' ds2 rs2 cx2 labels)
  = fst (clu_fit N aeqb s g' (ds1 ++ ds2) (rs1 ++ rs2) (cx1 ++ cx2) labels).
Proof.
  intros Hp Hlen. pose proof (proj1 (Forall_forall _ _) Hp) as Hp'. unfold clu_fit at 2. rewrite (clu_binarize_plain s (ds1 ++ ds2) (rs1 ++ rs2) Hp).
  unfold clu_fit. rewrite (clu_binarize_plain s ds1 rs1 Hp).
  set (s1 := fst (clu_refit N aeqb (mkClu (k_n s) (k_arms s) (k_lps s) (k_exp s) ds1 rs1 cx1) g labels1)).
  assert (Hs1 : k_n s1 = k_n s /\ k_arms s1 = k_arms s /\ k_exp s1 = k_exp s /\ k_ds s1 = ds1 /\ k_rs s1 = rs1 /\ k_cx s1 = cx1 /\
                k_lps s1 = map (fun cl => fst (lp_fit N aeqb (snd cl) g (rows_with_label labels1 (fst cl) ds1) (rows_with_label labels1 (fst cl) rs1)
                                                  (rows_with_label labels1 (fst cl) cx1))) (combine (seq 0 (k_n s)) (k_lps s))).
  { unfold s1, clu_refit; simpl. repeat split; auto. rewrite map_map. apply map_ext. intros [c l]. reflexivity. }
  destruct Hs1 as (E1 & E2 & E3 & E4 & E5 & E6 & E7).
  assert (Hp1 : Forall plain (k_lps s1)).
  { rewrite E7. apply Forall_forall. intros l Hl. apply in_map_iff in Hl. destruct Hl as [[c l0] [<- Hin]]. simpl.
    apply (proj2 (plain_fit_twice l0 g g _ _ _ nil nil nil (Hp' l0 (in_combine_r _ _ _ _ Hin)))). }
  unfold clu_partial_fit. rewrite (clu_binarize_plain s1 ds2 rs2 Hp1). rewrite E1, E2, E3, E4, E5, E6.
  unfold clu_refit; simpl. f_equal. rewrite <- Hlen. clear Hp1 E7 s1 E1 E2 E3 E4 E5 E6 Hlen Hp.
  generalize 0%nat. revert Hp'. generalize (k_lps s) as lps. induction lps as [|l t IH]; intros Hp' st; simpl; [reflexivity|].
  f_equal.
  - rewrite (proj1 (plain_fit_twice l g g' _ _ _ _ _ _ (Hp' l (or_introl eq_refl)))). reflexivity.
  - apply IH. intros x Hx. apply Hp'. right. exact Hx.
Qed.

End CluBatch.
