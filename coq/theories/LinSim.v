(* LinSim.v — C07 for LinGreedy and LinUCB: the private generator copies that the per-arm regression objects
   accumulate (deep copies made by _fit_arm and warm_start) are never read by these two policies.  [lin_erase]
   forgets them; every operation commutes with it and returns the same answers, so two policies equal up to
   those copies stay so, and answer alike, under every history.  Together with LinForget.lin_fit_forgets
   (fit keeps nothing but those copies) this is "fit discards everything learned before" for LinGreedy/LinUCB. *)
From Coq Require Import ZArith List Bool Lia.
From MW Require Import Num Assoc AssocFacts Rng CF CFInv Matrix Lin LinInv Warm LinForget.
Import ListNotations.

Section LinSim.
Context {R A G : Type} (N : Num R) (aeqb : A -> A -> bool) (RG : RngOps R G).
Notation lin := (@lin R A G).
Notation ridge := (@ridge R G).

Definition erase_rng (m : ridge) : ridge := mkRidge (r_beta m) (r_A m) (r_Ainv m) (r_Xty m) (r_scaler m) None.
Definition mmap (f : ridge -> ridge) (ms : list (A * ridge)) : list (A * ridge) := map (fun am => (fst am, f (snd am))) ms.
Definition lin_erase (s : lin) : lin := set_models s (mmap erase_rng (l_models s)).
Definition lin_sim (s s' : lin) : Prop := lin_erase s = lin_erase s'.

Lemma erase_idem m : erase_rng (erase_rng m) = erase_rng m. Proof. reflexivity. Qed.
Lemma mmap_mmap f g ms : mmap f (mmap g ms) = mmap (fun m => f (g m)) ms.
Proof. unfold mmap. rewrite map_map. reflexivity. Qed.
Lemma lin_erase_idem s : lin_erase (lin_erase s) = lin_erase s.
Proof. unfold lin_erase, set_models; simpl. rewrite mmap_mmap. reflexivity. Qed.
Lemma lin_sim_erase s : lin_sim s (lin_erase s).
Proof. unfold lin_sim. rewrite lin_erase_idem. reflexivity. Qed.

Lemma aget_mmap f (ms : list (A * ridge)) a : aget aeqb (mmap f ms) a = option_map f (aget aeqb ms a).
Proof. induction ms as [|[k v] t IH]; simpl; [reflexivity|]. destruct (aeqb a k); [reflexivity | exact IH]. Qed.
Lemma aget_d_mmap (ms : list (A * ridge)) a : aget_d aeqb ridge_new (mmap erase_rng ms) a = erase_rng (aget_d aeqb ridge_new ms a).
Proof. unfold aget_d. rewrite aget_mmap. destruct (aget aeqb ms a); reflexivity. Qed.
Lemma aset_mmap f (ms : list (A * ridge)) a m : aset aeqb (mmap f ms) a (f m) = mmap f (aset aeqb ms a m).
Proof. induction ms as [|[k v] t IH]; simpl; [reflexivity|]. destruct (aeqb a k); simpl; [reflexivity | rewrite IH; reflexivity]. Qed.
Lemma apop_mmap f (ms : list (A * ridge)) a : apop aeqb (mmap f ms) a = mmap f (apop aeqb ms a).
Proof. induction ms as [|[k v] t IH]; simpl; [reflexivity|]. destruct (aeqb a k); simpl; [reflexivity | rewrite IH; reflexivity]. Qed.

(* ---- training ----------------------------------------------------------------------------------------- *)
Lemma ridge_fit_erase d (m m' : ridge) x y :
  erase_rng m = erase_rng m' -> option_map erase_rng (ridge_fit N d m x y) = option_map erase_rng (ridge_fit N d m' x y).
Proof.
  intros E. unfold erase_rng in E. injection E as E1 E2 E3 E4 E5. unfold ridge_fit. rewrite E2, E4, E5.
  destruct (match r_scaler m' with None => _ | Some _ => _ end) as [x' scl].
  destruct (inverse N d _); reflexivity.
Qed.

Lemma lin_fit_arm_erase (s : lin) g a ds rs cx :
  option_map lin_erase (lin_fit_arm N aeqb (lin_erase s) g a ds rs cx) = option_map lin_erase (lin_fit_arm N aeqb s g a ds rs cx).
Proof.
  unfold lin_fit_arm. destruct (arm_rows aeqb a ds rs cx) as [x y].
  destruct x as [|r0 x']; [simpl; rewrite lin_erase_idem; reflexivity|].
  change (l_nf (lin_erase s)) with (l_nf s). change (l_models (lin_erase s)) with (mmap erase_rng (l_models s)).
  destruct (negb _); [reflexivity|].
  set (d := match l_nf s with Some d => d | None => O end).
  rewrite aget_d_mmap.
  set (m := aget_d aeqb ridge_new (l_models s) a).
  pose proof (ridge_fit_erase d
     (mkRidge (r_beta (erase_rng m)) (r_A (erase_rng m)) (r_Ainv (erase_rng m)) (r_Xty (erase_rng m)) (r_scaler (erase_rng m))
        (Some (match r_rng (erase_rng m) with Some g' => g' | None => g end)))
     (mkRidge (r_beta m) (r_A m) (r_Ainv m) (r_Xty m) (r_scaler m) (Some (match r_rng m with Some g' => g' | None => g end)))
     (r0 :: x') y eq_refl) as H.
  destruct (ridge_fit N d (mkRidge (r_beta (erase_rng m)) _ _ _ _ _) (r0 :: x') y) as [m2|];
  destruct (ridge_fit N d (mkRidge (r_beta m) _ _ _ _ _) (r0 :: x') y) as [m2'|]; simpl in H; try discriminate; [|reflexivity].
  injection H as H1 H2 H3 H4 H5. simpl. f_equal. unfold lin_erase, set_models; simpl. f_equal.
  rewrite <- !aset_mmap. rewrite mmap_mmap.
  assert (E2 : erase_rng m2 = erase_rng m2') by (unfold erase_rng; rewrite H1, H2, H3, H4, H5; reflexivity).
  rewrite E2. reflexivity.
Qed.

Lemma lin_parallel_fit_erase (arms : list A) (s : lin) g ds rs cx :
  lin_erase (fst (lin_parallel_fit N aeqb (lin_erase s) g arms ds rs cx)) = lin_erase (fst (lin_parallel_fit N aeqb s g arms ds rs cx)) /\
  snd (lin_parallel_fit N aeqb (lin_erase s) g arms ds rs cx) = snd (lin_parallel_fit N aeqb s g arms ds rs cx).
Proof.
  assert (Gen : forall s1 s2 : lin, lin_erase s1 = lin_erase s2 ->
     lin_erase (fst (lin_parallel_fit N aeqb s1 g arms ds rs cx)) = lin_erase (fst (lin_parallel_fit N aeqb s2 g arms ds rs cx)) /\
     snd (lin_parallel_fit N aeqb s1 g arms ds rs cx) = snd (lin_parallel_fit N aeqb s2 g arms ds rs cx)).
  { induction arms as [|a t IH]; intros s1 s2 E; simpl; [auto|].
    pose proof (lin_fit_arm_erase s1 g a ds rs cx) as H1. pose proof (lin_fit_arm_erase s2 g a ds rs cx) as H2.
    rewrite E in H1. rewrite H1 in H2.
    destruct (lin_fit_arm N aeqb s1 g a ds rs cx) as [s1'|]; destruct (lin_fit_arm N aeqb s2 g a ds rs cx) as [s2'|]; simpl in H2; try discriminate.
    - apply IH. apply (f_equal (fun o => match o with Some v => v | None => lin_erase s1' end)) in H2. simpl in H2. exact H2.
    - simpl. auto. }
  apply Gen. apply lin_erase_idem.
Qed.

Lemma lset_trained_erase (s : lin) ds p : lin_erase (lset_trained aeqb s ds p) = lset_trained aeqb (lin_erase s) ds p.
Proof. reflexivity. Qed.

Theorem lin_partial_fit_erase (s : lin) g ds rs cx :
  lin_erase (fst (lin_partial_fit N aeqb (lin_erase s) g ds rs cx)) = lin_erase (fst (lin_partial_fit N aeqb s g ds rs cx)) /\
  snd (lin_partial_fit N aeqb (lin_erase s) g ds rs cx) = snd (lin_partial_fit N aeqb s g ds rs cx).
Proof.
  unfold lin_partial_fit. change (l_arms (lin_erase s)) with (l_arms s).
  pose proof (lin_parallel_fit_erase (l_arms s) s g ds rs cx) as [H1 H2].
  destruct (lin_parallel_fit N aeqb (lin_erase s) g (l_arms s) ds rs cx) as [a ok1].
  destruct (lin_parallel_fit N aeqb s g (l_arms s) ds rs cx) as [b ok2]. simpl in *. subst ok2.
  destruct ok1; simpl; [|auto]. rewrite !lset_trained_erase, H1. auto.
Qed.

Theorem lin_fit_erase (s : lin) g ds rs cx :
  lin_erase (fst (lin_fit N aeqb (lin_erase s) g ds rs cx)) = lin_erase (fst (lin_fit N aeqb s g ds rs cx)) /\
  snd (lin_fit N aeqb (lin_erase s) g ds rs cx) = snd (lin_fit N aeqb s g ds rs cx).
Proof.
  unfold lin_fit.
  set (t := set_lstatus (set_models (set_lnf s (Some (ncols cx))) _) _).
  set (te := set_lstatus (set_models (set_lnf (lin_erase s) (Some (ncols cx))) _) _).
  assert (E : lin_erase te = lin_erase t).
  { unfold te, t, lin_erase, set_lstatus, set_models, set_lnf; simpl. f_equal. unfold mmap. rewrite !map_map. apply map_ext. intros [a m]. reflexivity. }
  change (l_arms te) with (l_arms s). change (l_arms t) with (l_arms s).
  pose proof (lin_parallel_fit_erase (l_arms s) te g ds rs cx) as [A1 A2].
  pose proof (lin_parallel_fit_erase (l_arms s) t g ds rs cx) as [B1 B2].
  rewrite E in A1, A2. rewrite B1 in A1. rewrite B2 in A2.
  destruct (lin_parallel_fit N aeqb te g (l_arms s) ds rs cx) as [a ok1].
  destruct (lin_parallel_fit N aeqb t g (l_arms s) ds rs cx) as [b ok2]. simpl in *. subst ok2.
  destruct ok1; simpl; [|auto]. rewrite !lset_trained_erase, A1. auto.
Qed.

(* ---- arms, warm start ----------------------------------------------------------------------------------- *)
Theorem lin_add_arm_erase (s : lin) a : lin_erase (lin_add_arm N aeqb (lin_erase s) a) = lin_erase (lin_add_arm N aeqb s a).
Proof.
  unfold lin_add_arm, lin_erase, set_models; simpl. f_equal.
  destruct (l_nf s); rewrite <- !aset_mmap, mmap_mmap; reflexivity.
Qed.

Theorem lin_remove_arm_erase (s : lin) a : lin_erase (lin_remove_arm aeqb (lin_erase s) a) = lin_erase (lin_remove_arm aeqb s a).
Proof. unfold lin_remove_arm, lin_erase, set_models; simpl. f_equal. rewrite !apop_mmap, mmap_mmap. reflexivity. Qed.

Lemma lin_copy_arm_erase g (s : lin) cw : lin_erase (lin_copy_arm aeqb g (lin_erase s) cw) = lin_erase (lin_copy_arm aeqb g s cw).
Proof.
  destruct cw as [c w]. unfold lin_copy_arm, lin_erase, set_models; simpl. f_equal.
  rewrite aget_d_mmap. rewrite <- !aset_mmap. rewrite mmap_mmap. reflexivity.
Qed.

Lemma fold_copy_erase g (m : list (A * A)) (s1 s2 : lin) :
  lin_erase s1 = lin_erase s2 -> lin_erase (fold_left (lin_copy_arm aeqb g) m s1) = lin_erase (fold_left (lin_copy_arm aeqb g) m s2).
Proof.
  revert s1 s2. induction m as [|cw t IH]; intros s1 s2 E; simpl; [exact E|]. apply IH.
  rewrite <- (lin_copy_arm_erase g s1 cw), <- (lin_copy_arm_erase g s2 cw), E. reflexivity.
Qed.

Lemma fold_mark_erase (m : list (A * A)) (s : lin) :
  lin_erase (fold_left (lin_mark_warm aeqb) m s) = fold_left (lin_mark_warm aeqb) m (lin_erase s).
Proof. revert s. induction m as [|[c w] t IH]; intros s; simpl; [reflexivity|]. rewrite IH. reflexivity. Qed.

Theorem lin_warm_start_erase (s : lin) g keys raw q :
  option_map lin_erase (lin_warm_start N aeqb (lin_erase s) g keys raw q) = option_map lin_erase (lin_warm_start N aeqb s g keys raw q).
Proof.
  unfold lin_warm_start. destruct (distance_threshold N _ q) as [thr|]; [|reflexivity]. simpl. f_equal.
  change (lin_trained_arms aeqb (lin_erase s)) with (lin_trained_arms aeqb s).
  change (lin_cold_arms aeqb (lin_erase s)) with (lin_cold_arms aeqb s).
  rewrite !fold_mark_erase. f_equal. apply fold_copy_erase. apply lin_erase_idem.
Qed.

(* ---- queries: LinGreedy / LinUCB never read the copies ---------------------------------------------------- *)
Lemma ridge_predict_erase (s : lin) (m : ridge) g x :
  l_kind s <> RTs ->
  ridge_predict N RG s (erase_rng m) g x = (fst (fst (ridge_predict N RG s m g x)), erase_rng m, g) /\
  ridge_predict N RG s m g x = (fst (fst (ridge_predict N RG s m g x)), m, g).
Proof. intros Hk. unfold ridge_predict. destruct (l_kind s); try congruence; simpl; auto. Qed.

Lemma predict_arms_erase (s : lin) (arms : list A) ms g x :
  l_kind s <> RTs ->
  fst (fst (predict_arms N aeqb RG (lin_erase s) (mmap erase_rng ms) arms g x)) = fst (fst (predict_arms N aeqb RG s ms arms g x)) /\
  snd (predict_arms N aeqb RG (lin_erase s) (mmap erase_rng ms) arms g x) = g /\ snd (predict_arms N aeqb RG s ms arms g x) = g.
Proof.
  intros Hk. revert ms g. induction arms as [|a t IH]; intros ms g; simpl; [auto|].
  rewrite aget_d_mmap.
  assert (Hke : l_kind (lin_erase s) <> RTs) by exact Hk.
  destruct (ridge_predict_erase (lin_erase s) (aget_d aeqb ridge_new ms a) g x Hke) as [E1 _].
  destruct (ridge_predict_erase s (aget_d aeqb ridge_new ms a) g x Hk) as [_ E2].
  assert (Esame : fst (fst (ridge_predict N RG (lin_erase s) (aget_d aeqb ridge_new ms a) g x)) = fst (fst (ridge_predict N RG s (aget_d aeqb ridge_new ms a) g x)))
    by reflexivity.
  rewrite E1, E2. rewrite Esame. rewrite aset_mmap.
  specialize (IH (aset aeqb ms a (aget_d aeqb ridge_new ms a)) g).
  destruct (predict_arms N aeqb RG (lin_erase s) (mmap erase_rng (aset aeqb ms a (aget_d aeqb ridge_new ms a))) t g x) as [[r1 m1] g1].
  destruct (predict_arms N aeqb RG s (aset aeqb ms a (aget_d aeqb ridge_new ms a)) t g x) as [[r2 m2] g2].
  simpl in *. destruct IH as (I1 & I2 & I3). subst. auto.
Qed.

Theorem lin_expectations_erase (s : lin) g cx :
  l_kind s <> RTs ->
  fst (fst (lin_expectations N aeqb RG (lin_erase s) g cx)) = fst (fst (lin_expectations N aeqb RG s g cx)) /\
  snd (lin_expectations N aeqb RG (lin_erase s) g cx) = snd (lin_expectations N aeqb RG s g cx).
Proof.
  intros Hk. unfold lin_expectations.
  change (l_arms (lin_erase s)) with (l_arms s). change (l_eps (lin_erase s)) with (l_eps s).
  change (l_models (lin_erase s)) with (mmap erase_rng (l_models s)).
  destruct (draw_r RG g (RqRand [length cx])) as [rv g1].
  destruct (draw_r RG g1 _) as [rnd g2].
  match goal with |- context [predict_arms N aeqb RG s (l_models s) (l_arms s) g2 ?X] =>
    pose proof (predict_arms_erase s (l_arms s) (l_models s) g2 X Hk) as (P1 & P2 & P3);
    destruct (predict_arms N aeqb RG (lin_erase s) (mmap erase_rng (l_models s)) (l_arms s) g2 X) as [[c1 m1] h1];
    destruct (predict_arms N aeqb RG s (l_models s) (l_arms s) g2 X) as [[c2 m2] h2] end.
  simpl in *. subst. auto.
Qed.

End LinSim.
