(* PopSpec.v — C01, Popularity: after every fit / partial_fit the expectation of an arm is its share of the raw means
   mean(a) / sum of means (uniform 1/len(arms) when every mean is 0), where mean(a) = sum/count of the arm's statistics
   (0 for an arm without observations) - recomputed from the statistics on every call (fix D1). *)
From Coq Require Import ZArith List Bool Lia.
From MW Require Import Num Assoc AssocFacts Rng CF CFInv.
Import ListNotations.

Section PopSpec.
Context {R A : Type} (N : Num R) (aeqb : A -> A -> bool).
Notation cf := (@cf R A).

Definition raw_mean (st : @armst R) : R :=
  if Z.eqb (s_count st) 0 then zero N else div N (s_sum st) (of_Z N (s_count st)).

Definition shares (n_arms : nat) (raw : list (A * R)) (tot : R) : list (A * R) :=
  if eqb N tot (zero N) then areset raw (div N (one N) (of_Z N (Z.of_nat n_arms)))
  else map (fun kv => (fst kv, div N (snd kv) tot)) raw.

Theorem popularity_partial_fit_expectations (s : cf) ds rs :
  c_kind s = KPopularity ->
  let x := set_trained aeqb (cf_parallel_fit N aeqb s ds rs) ds true in
  let raw := map (fun kv => (fst kv, raw_mean (aget_d aeqb (armst0 N) (c_stats x) (fst kv)))) (c_exp x) in
  c_exp (cf_partial_fit N aeqb s ds rs) = shares (length (c_arms x)) raw (pysum N (avals raw)).
Proof.
  intros Ek x raw. unfold cf_partial_fit. rewrite Ek.
  unfold popularity_normalize, popularity_raw_means, set_pyfloat, shares, raw, raw_mean, x. simpl.
  match goal with |- context [eqb N ?t (zero N)] => destruct (eqb N t (zero N)) end; reflexivity.
Qed.

(* fit: the per-arm fits leave the raw mean of every observed arm (0 for the others) in arm_to_expectation; they are then shared out *)
Theorem popularity_fit_expectations (s : cf) ds rs :
  c_kind s = KPopularity ->
  let s1 := set_pyfloat (reset_status (set_exp (reset_sums N s) (areset (c_exp s) (zero N)))) false in
  let x := set_trained aeqb (cf_parallel_fit N aeqb s1 ds rs) ds false in
  c_exp (cf_fit N aeqb s ds rs) = shares (length (c_arms x)) (c_exp x) (pysum N (avals (c_exp x))).
Proof.
  intros Ek s1 x. unfold cf_fit. rewrite Ek. fold s1. fold x.
  assert (Hp : c_pyfloat x = false).
  { unfold x. unfold set_trained; simpl.
    assert (G : forall l (y : cf), c_pyfloat (fold_left (fun acc a => cf_fit_arm N aeqb acc a ds rs) l y) = c_pyfloat y).
    { induction l as [|a l IH]; intros y; simpl; [reflexivity|]. rewrite IH. unfold cf_fit_arm. destruct (c_kind y); simpl;
        repeat match goal with |- context [if ?c then _ else _] => destruct c; simpl end; reflexivity. }
    unfold cf_parallel_fit. rewrite G. reflexivity. }
  unfold popularity_normalize, shares. rewrite Hp.
  match goal with |- context [eqb N ?t (zero N)] => destruct (eqb N t (zero N)) end; reflexivity.
Qed.

End PopSpec.
