(* Tree.v — treebandit.py (_TreeBandit).  The regression trees are an oracle: [leaf a x] is
   arm_to_tree[a].apply([x]) for the tree currently held for arm a. *)
From Coq Require Import ZArith List Bool.
From MW Require Import Num Assoc Rng Par CF Matrix Lin Nbr.
Import ListNotations.

Section Tree.
Context {R A G : Type} (N : Num R) (aeqb : A -> A -> bool) (RG : RngOps R G).

Record tree := mkTree {
  t_kf_rebin : bool;                        (* finding D6: leaf policies re-apply the binarizer *)
  t_kf_sharedrng : bool;                    (* finding D7: leaf policies draw from the bandit's generator *)
  t_arms : list A;
  t_lp : @cf R A;                           (* self.lp *)
  t_exp : list (A * R);                     (* arm_to_expectation (zeros) *)
  t_leaves : list (A * list (nat * list R)); (* arm_to_leaf_to_rewards *)
  t_nf : option nat                         (* n_features_in_ of the fitted trees (None: no tree fitted yet) *)
}.

Definition tree_init (kf1 kf2 : bool) (arms : list A) (l : @cf R A) : tree :=
  mkTree kf1 kf2 arms l (afromkeys arms (zero N)) (afromkeys arms []) None.

Definition tree_binarize (s : tree) (ds : list A) (rs : list R) : @cf R A * list R :=
  match c_kind (t_lp s), c_binz (t_lp s) with
  | KThompson, Some _ => (set_ctxbin (t_lp s) true, binarize (set_ctxbin (t_lp s) false) ds rs)
  | _, _ => (t_lp s, rs)
  end.

(* _fit_arm: append each reward to the list of its leaf *)
Definition tree_fit_arm (leaf : A -> list R -> nat) (lv : list (A * list (nat * list R))) (a : A)
           (ds : list A) (rs : list R) (cx : mat (R:=R)) : list (A * list (nat * list R)) :=
  let rows := filter (fun t => aeqb (fst (fst t)) a) (combine (combine ds rs) cx) in
  let tbl := fold_left (fun t row => let lf := leaf a (snd row) in
                          aset Nat.eqb t lf (aget_d Nat.eqb [] t lf ++ [snd (fst row)]))
                       rows (aget_d aeqb [] lv a) in
  match rows with [] => lv | _ => aset aeqb lv a tbl end.

Definition tree_parallel_fit (s : tree) (l : @cf R A) (lv : list (A * list (nat * list R))) (nf : option nat) leaf ds rs (cx : mat (R:=R)) : tree :=
  let trains := existsb (fun a => existsb (fun d => aeqb d a) ds) (t_arms s) in
  mkTree (t_kf_rebin s) (t_kf_sharedrng s) (t_arms s) l (t_exp s)
         (fold_left (fun lv a => tree_fit_arm leaf lv a ds rs cx) (t_arms s) lv)
         (match nf with Some d => Some d | None => if trains then Some (ncols cx) else None end).

Definition tree_fit (s : tree) leaf ds rs (cx : mat (R:=R)) : tree :=
  let (l, rs') := tree_binarize s ds rs in
  tree_parallel_fit s l (afromkeys (t_arms s) []) None leaf ds rs' cx.

Definition tree_partial_fit (s : tree) leaf ds rs (cx : mat (R:=R)) : tree :=
  let (l, rs') := tree_binarize s ds rs in
  tree_parallel_fit s l (t_leaves s) (t_nf s) leaf ds rs' cx.

Definition tree_add_arm (s : tree) (a : A) bz : tree :=
  mkTree (t_kf_rebin s) (t_kf_sharedrng s) (t_arms s ++ [a]) (cf_add_arm N aeqb (t_lp s) a bz)
         (aset aeqb (t_exp s) a (zero N)) (aset aeqb (t_leaves s) a []) (t_nf s).
(* an arm's tree is fitted exactly when rewards have been filed for the arm since the last fit *)
Definition tree_arm_fitted (lv : list (A * list (nat * list R))) (a : A) : bool :=
  match aget_d aeqb [] lv a with [] => false | _ => true end.
(* remove_arm drops the arm's tree: when it was the only fitted one, no tree - hence no feature count - is left *)
Definition tree_remove_arm (s : tree) (a : A) : tree :=
  let arms' := lremove aeqb (t_arms s) a in
  let lv' := apop aeqb (t_leaves s) a in
  mkTree (t_kf_rebin s) (t_kf_sharedrng s) arms' (cf_remove_arm N aeqb (t_lp s) a)
         (apop aeqb (t_exp s) a) lv' (if existsb (tree_arm_fitted lv') arms' then t_nf s else None).

(* _create_leaf_lp + fit + predict_expectations()[arm] *)
Definition leaf_expectation (s : tree) (g : G) (a : A) (rewards : list R) : R * G :=
  let l0 := cf_init N (c_kind (t_lp s)) (c_hp (t_lp s))
                    (if t_kf_rebin s then c_binz (t_lp s) else None) [a] in
  let l1 := cf_fit N aeqb l0 (repeat a (length rewards)) rewards in
  let '(e, _, g') := cf_predict_exp N aeqb RG l1 g None in
  (aget_d aeqb (zero N) (hd [] e) a, g').

(* the arms of one row, in arm order; g is the generator the leaf policies draw from *)
Fixpoint tree_row_arms (s : tree) (leaf : A -> list R -> nat) (row : list R) (arms : list A)
         (e : list (A * R)) (g : G) : list (A * R) * G :=
  match arms with
  | [] => (e, g)
  | a :: t =>
      match aget_d aeqb [] (t_leaves s) a with
      | [] => tree_row_arms s leaf row t e g
      | tbl =>
          let '(v, g1) := leaf_expectation s g a (aget_d Nat.eqb [] tbl (leaf a row)) in
          tree_row_arms s leaf row t (aset aeqb e a v) g1
      end
  end.

(* rows of one chunk; e is the chunk's copy of arm_to_expectation, gb the bandit generator (copy) *)
Fixpoint tree_rows (s : tree) leaf (seeds : list Z) (rows : mat (R:=R)) (e : list (A * R)) (gb : G) (is_predict : bool)
  : list (option A + list (A * option R)) * G :=
  match seeds, rows with
  | sd :: seeds', row :: rows' =>
      let gl := if t_kf_sharedrng s then gb else create RG sd in
      let '(e1, g1) := tree_row_arms s leaf row (t_arms s) e gl in
      let is_greedy := match c_kind (t_lp s) with KGreedy => true | _ => false end in
      let '(r, g2) :=
        if is_predict then
          if is_greedy then
            let (u, g2) := draw_r RG g1 (RqRand []) in
            if ltb N (hd0 N u) (c_hp (t_lp s)) then
              let (z, g3) := draw_z RG g2 (RqRandint2 0 (Z.of_nat (length (t_arms s)))) in
              (inl (nth_error (t_arms s) (Z.to_nat (match z with x :: _ => x | [] => 0%Z end))), g3)
            else (inl (argmax_first N e1), g2)
          else (inl (argmax_first N e1), g1)
        else (inr (map (fun kv => (fst kv, Some (snd kv))) e1), g1) in
      let gb' := if t_kf_sharedrng s then g2 else gb in
      let '(rest, gf) := tree_rows s leaf seeds' rows' e1 gb' is_predict in
      (r :: rest, gf)
  | _, _ => ([], gb)
  end.

(* _parallel_predict with n_jobs = 1 (one chunk; the bandit generator itself is used) *)
Definition tree_predict (s : tree) (g : G) leaf (cx : mat (R:=R)) (is_predict : bool)
  : list (option A + list (A * option R)) * G :=
  let (seeds, g1) := draw_z RG g (RqRandint 2147483647 (length cx)) in
  tree_rows s leaf seeds cx (t_exp s) g1 is_predict.

End Tree.
