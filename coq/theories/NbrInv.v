(* NbrInv.v — C08 for the neighbourhood policies Radius / KNearest / LSHNearest: the invariant tying the
   facade's arm list, the NaN expectation dictionary and the template learning policy holds in every reachable
   state; every row of every answer ranges over exactly the current arms; one answer per context row. *)
From Coq Require Import ZArith List Bool Lia.
From MW Require Import Num Assoc AssocFacts Rng Par CF CFInv Matrix Lin LinInv Nbr FacadeArms LpInv FacadeCF.
Import ListNotations.

Section NbrInv.
Context {R A G : Type} (N : Num R) (aeqb : A -> A -> bool) (RG : RngOps R G).
Hypothesis aeqb_spec : forall x y, aeqb x y = true <-> x = y.
Notation lp := (@lp R A G).
Notation nbr := (@nbr R A G).

(* rng.choice(n, p=...) and rng.integers(0, n) answer with an index below n *)
Definition rng_index_ok : Prop :=
  forall g n, (0 < n)%nat ->
    (forall p, match fst (draw_z RG g (RqChoice n p)) with x :: _ => (0 <= x < Z.of_nat n)%Z | [] => True end) /\
    match fst (draw_z RG g (RqRandint2 0 (Z.of_nat n))) with x :: _ => (0 <= x < Z.of_nat n)%Z | [] => True end.

Definition res_wf (arms : list A) (is_predict : bool) (r : option A + list (A * option R)) : Prop :=
  match r with
  | inl a => is_predict = true /\ (arms <> [] -> exists x, a = Some x /\ In x arms)
  | inr d => is_predict = false /\ map fst d = arms
  end.

Definition nbr_inv (s : nbr) : Prop :=
  NoDup (n_arms s) /\ akeys (n_exp s) = n_arms s /\ lp_ok (n_lp s) /\ lp_arms (n_lp s) = n_arms s.

Lemma nbr_init_inv k m p kf arms l : NoDup arms -> lp_ok l -> lp_arms l = arms -> nbr_inv (nbr_init k m p kf arms l).
Proof. intros H1 H2 H3. unfold nbr_inv, nbr_init; simpl. repeat split; auto. apply akeys_afromkeys. Qed.

Lemma nbr_fit_inv (s : nbr) g ds rs cx : nbr_inv s -> nbr_inv (fst (nbr_fit N RG s g ds rs cx)) /\ n_arms (fst (nbr_fit N RG s g ds rs cx)) = n_arms s.
Proof.
  intros (Hn & He & Hl & Ha). unfold nbr_fit.
  pose proof (lp_binarize_ok (n_lp s) ds rs Hl) as [B1 B2].
  destruct (lp_binarize (n_lp s) ds rs) as [l' rs']. simpl in B1, B2.
  destruct (n_kind s) as [r|k|ndim ntab]; simpl.
  - unfold nbr_inv; simpl. repeat split; auto; congruence.
  - unfold nbr_inv; simpl. repeat split; auto; congruence.
  - destruct (draw_planes RG g ntab (ncols cx) ndim) as [planes g1]. unfold nbr_inv; simpl. repeat split; auto; congruence.
Qed.

Lemma nbr_partial_fit_inv (s : nbr) ds rs cx : nbr_inv s -> nbr_inv (nbr_partial_fit N s ds rs cx) /\ n_arms (nbr_partial_fit N s ds rs cx) = n_arms s.
Proof.
  intros (Hn & He & Hl & Ha). unfold nbr_partial_fit.
  pose proof (lp_binarize_ok (n_lp s) ds rs Hl) as [B1 B2].
  destruct (lp_binarize (n_lp s) ds rs) as [l' rs']. simpl in B1, B2.
  destruct (n_kind s) as [r|k|ndim ntab]; unfold nbr_inv; simpl; repeat split; auto; congruence.
Qed.

Lemma nbr_add_arm_inv (s : nbr) a bz : nbr_inv s -> ~ In a (n_arms s) -> nbr_inv (nbr_add_arm N aeqb s a bz).
Proof.
  intros (Hn & He & Hl & Ha) Hnot. unfold nbr_inv, nbr_add_arm; simpl.
  assert (Hnot' : ~ In a (lp_arms (n_lp s))) by (rewrite Ha; exact Hnot).
  pose proof (lp_add_arm_ok N aeqb aeqb_spec (n_lp s) a bz Hl Hnot') as [P1 P2].
  pose proof (lp_mark_converted_ok (lp_add_arm N aeqb (n_lp s) a bz) bz P1) as [Q1 Q2].
  repeat split.
  - apply nodup_app_single; assumption.
  - rewrite (akeys_aset_notin aeqb aeqb_spec) by (rewrite He; exact Hnot). rewrite He. reflexivity.
  - exact Q1.
  - rewrite Q2, P2, Ha. reflexivity.
Qed.

Lemma nbr_remove_arm_inv (s : nbr) a : nbr_inv s -> nbr_inv (nbr_remove_arm N aeqb s a).
Proof.
  intros (Hn & He & Hl & Ha). unfold nbr_inv, nbr_remove_arm; simpl.
  pose proof (lp_remove_arm_ok N aeqb (n_lp s) a Hl) as [P1 P2].
  repeat split.
  - apply lremove_nodup; exact Hn.
  - rewrite akeys_apop, He. reflexivity.
  - exact P1.
  - rewrite P2, Ha. reflexivity.
Qed.

(* ---- answers --------------------------------------------------------------------------------------- *)
Lemma nth_error_index_in (l : list A) (v : list Z) :
  l <> [] -> match v with x :: _ => (0 <= x < Z.of_nat (length l))%Z | [] => True end ->
  exists x, nth_error l (Z.to_nat (match v with x :: _ => x | [] => 0%Z end)) = Some x /\ In x l.
Proof.
  intros Hne Hv.
  assert (Hlt : (Z.to_nat (match v with x :: _ => x | [] => 0%Z end) < length l)%nat).
  { destruct v as [|x t]; [simpl; destruct l; [congruence | simpl; lia] | lia]. }
  destruct (nth_error l _) as [y|] eqn:E.
  - exists y; split; [reflexivity | eapply nth_error_In; eauto].
  - apply nth_error_None in E. lia.
Qed.

Lemma nbr_row_wf (s : nbr) (l : lp) seed row orc p r l' :
  rng_lengths_ok RG -> rng_index_ok -> nbr_inv s -> lp_ok l -> lp_arms l = n_arms s ->
  nbr_row N aeqb RG s l seed row orc p = Some (r, l') ->
  res_wf (n_arms s) p r /\ lp_ok l' /\ lp_arms l' = n_arms s.
Proof.
  intros Hrng Hidx (Hn & He & _ & _) Hl Ha. unfold nbr_row.
  destruct (neighborhood N s row orc) as [idx|]; [|discriminate].
  destruct idx as [|i idx].
  - destruct p.
    + destruct (negb (nnprob_len_ok s)); [discriminate|].
      destruct (draw_z RG (create RG seed) (RqChoice (length (n_arms s)) (n_nnprob s))) as [v g'] eqn:Ed.
      intros E; injection E as <- <-. split; [|auto]. simpl. split; [reflexivity|]. intros Hne.
      assert (Hpos : (0 < length (n_arms s))%nat) by (destruct (n_arms s); [congruence | simpl; lia]).
      pose proof (proj1 (Hidx (create RG seed) _ Hpos) (n_nnprob s)) as Hv. rewrite Ed in Hv. simpl in Hv.
      destruct (nth_error_index_in (n_arms s) v Hne Hv) as [x [Hx1 Hx2]]. exists x; auto.
    + intros E; injection E as <- <-. split; [|auto]. simpl. split; [reflexivity | exact He].
  - set (ds' := flat_map _ _). set (rs' := select _ _ _). set (cx' := select _ _ _).
    pose proof (lp_fit_ok N aeqb aeqb_spec l (create RG seed) ds' rs' cx' Hl) as [F1 F2].
    destruct (lp_fit N aeqb l (create RG seed) ds' rs' cx') as [l1 ok]. simpl in F1, F2.
    destruct ok; simpl; [|discriminate].
    pose proof (lp_expectations1_ok N aeqb RG aeqb_spec l1 (create RG seed) row Hrng F1) as X.
    destruct (lp_expectations1 N aeqb RG l1 (create RG seed) row) as [[e l2] g2]. destruct X as (X1 & X2 & X3).
    destruct p; intros E; injection E as <- <-; (split; [|split; [exact X2 | rewrite X3, F2; exact Ha]]); simpl.
    + split; [reflexivity|]. intros Hne. assert (He' : e <> []) by (intros E0; subst e; simpl in X1; apply Hne; congruence).
      destruct (argmax_first_in N e He') as [x [Hx1 Hx2]]. exists x. split; [exact Hx1 | rewrite X1, F2, Ha in Hx2; exact Hx2].
    + split; [reflexivity|]. rewrite map_map. simpl. change (map (fun x : A * R => fst x) e) with (akeys e). rewrite X1, F2. exact Ha.
Qed.

Lemma nbr_rows_wf (s : nbr) p :
  rng_lengths_ok RG -> rng_index_ok -> nbr_inv s ->
  forall seeds rows orcs (l : lp) res, lp_ok l -> lp_arms l = n_arms s ->
  nbr_rows N aeqb RG s l seeds rows orcs p = Some res ->
  Forall (res_wf (n_arms s) p) res /\ length res = Nat.min (length seeds) (length rows).
Proof.
  intros Hrng Hidx Hinv. induction seeds as [|sd seeds IH]; intros rows orcs l res Hl Ha; simpl.
  - intros E; injection E as <-. auto.
  - destruct rows as [|row rows]; [intros E; injection E as <-; auto|].
    destruct (nbr_row N aeqb RG s l sd row (hd [] orcs) p) as [[r l']|] eqn:Er; [|discriminate].
    destruct (nbr_row_wf s l sd row (hd [] orcs) p r l' Hrng Hidx Hinv Hl Ha Er) as (W1 & W2 & W3).
    destruct (nbr_rows N aeqb RG s l' seeds rows (tl orcs) p) as [rest|] eqn:Erest; [|discriminate].
    intros E; injection E as <-. destruct (IH rows (tl orcs) l' rest W2 W3 Erest) as [I1 I2].
    split; [constructor; assumption | simpl; lia].
Qed.

Definition opt_app' {T} (r acc : option (list T)) : option (list T) :=
  match r, acc with Some x, Some y => Some (x ++ y) | _, _ => None end.

Lemma nbr_chunks_wf (s : nbr) (l : lp) p :
  rng_lengths_ok RG -> rng_index_ok -> nbr_inv s -> lp_ok l -> lp_arms l = n_arms s ->
  forall sizes seeds (cx : mat (R:=R)) orcs res,
  fold_right opt_app' (Some [])
    (map (fun q => let '(sd, rows, orc) := (q : list Z * mat (R:=R) * list (list nat)) in nbr_rows N aeqb RG s l sd rows orc p)
         (combine (combine (chunks sizes seeds) (chunks sizes cx)) (chunks sizes orcs))) = Some res ->
  Forall (res_wf (n_arms s) p) res /\
  (length seeds = length cx -> sum_list sizes = length cx -> length res = length cx).
Proof.
  intros Hrng Hidx Hinv Hl Ha. induction sizes as [|n sizes IH]; intros seeds cx orcs res; simpl.
  - intros E; injection E as <-. split; [constructor|]. intros H1 H2. simpl. lia.
  - destruct (nbr_rows N aeqb RG s l (firstn n seeds) (firstn n cx) (firstn n orcs) p) as [x|] eqn:Ex; [|discriminate].
    destruct (fold_right opt_app' (Some []) _) as [y|] eqn:Ey; [|discriminate].
    intros E; injection E as <-.
    destruct (nbr_rows_wf s p Hrng Hidx Hinv _ _ _ l x Hl Ha Ex) as [X1 X2].
    destruct (IH _ _ _ y Ey) as [Y1 Y2].
    split; [apply Forall_app; auto|]. intros H1 H2. rewrite app_length, X2, Y2; rewrite ?firstn_length, ?skipn_length; lia.
Qed.

Theorem nbr_predict_wf (s : nbr) g cx orcs sizes p res :
  rng_lengths_ok RG -> rng_index_ok -> nbr_inv s ->
  fst (nbr_predict N aeqb RG s g cx orcs sizes p) = Some res ->
  Forall (res_wf (n_arms s) p) res /\
  ((forall g high size, length (fst (draw_z RG g (RqRandint high size))) = size) -> sum_list sizes = length cx -> length res = length cx).
Proof.
  intros Hrng Hidx Hinv. pose proof Hinv as (_ & _ & Hl & Ha). unfold nbr_predict.
  destruct (draw_z RG g (RqRandint 2147483647 (length cx))) as [seeds g1] eqn:Ed. simpl. intros E.
  change (fun r acc => match r with Some x => match acc with Some y => Some (x ++ y) | None => None end | None => None end)
    with (@opt_app' (option A + list (A * option R))) in E.
  destruct (nbr_chunks_wf s (n_lp s) p Hrng Hidx Hinv Hl Ha sizes seeds cx orcs res E) as [W1 W2].
  split; [exact W1|]. intros Hz Hs. apply W2; [|exact Hs]. specialize (Hz g 2147483647%Z (length cx)). rewrite Ed in Hz. exact Hz.
Qed.

End NbrInv.
