(* C14More.v — the Thompson binarizer under Clusters and TreeBandit.
   Clusters: the history stores the rewards converted once by the (common) binarizer and every per-cluster policy is
   marked, so the policies trained on the stored history convert nothing.
   TreeBandit: the stored leaf rewards are converted once at fit time; the leaf policies created at prediction time have
   no binarizer in the documented behaviour (model flag t_kf_rebin = false) and re-apply it in the code (finding D6). *)
From Coq Require Import ZArith List Bool Lia.
From MW Require Import Num Assoc Rng CF Matrix Lin Nbr Clu Tree MoreFacts.
Import ListNotations.

Section C14More.
Context {R A G : Type} (N : Num R) (aeqb : A -> A -> bool) (RG : RngOps R G).

Theorem clusters_store_converted_rewards (s : @clu R A G) (l0 : @lp R A G) (c0 : @cf R A) t ds rs :
  l0 = LCf c0 -> k_lps s = l0 :: t -> lp_is_ts_binz l0 = true ->
  snd (clu_binarize s ds rs) = binarize (set_ctxbin c0 false) ds rs /\
  fst (clu_binarize s ds rs) = map (fun l => fst (lp_binarize l ds rs)) (k_lps s) /\
  (forall l, In l (fst (clu_binarize s ds rs)) -> forall c, l = LCf c -> lp_is_ts_binz l = true -> c_ctxbin c = true).
Proof.
  intros -> El Hb. unfold clu_binarize. rewrite El. rewrite Hb. cbn [fst snd].
  split; [unfold lp_binarize; rewrite Hb; reflexivity|]. split; [reflexivity|].
  intros l Hin c -> Hts. apply in_map_iff in Hin. destruct Hin as [l0 [E Hl0]].
  destruct l0 as [c1|s1]; [|discriminate].
  unfold lp_binarize in E. destruct (lp_is_ts_binz (LCf c1 : @lp R A G)) eqn:E1; cbn [fst] in E; injection E as <-; [reflexivity|].
  (* a policy that was not converted is not a Thompson-with-binarizer policy *) congruence.
Qed.

(* a marked policy trained on the stored rewards converts nothing: every reward is converted exactly once *)
Corollary marked_cluster_policy_trains_on_stored_rewards (c : @cf R A) ds rs :
  c_ctxbin c = true -> binarize c ds rs = rs.
Proof. apply binarize_marked_is_identity. Qed.

(* TreeBandit: what is stored in the leaves is converted once *)
Theorem tree_stores_converted_rewards (s : @tree R A) ds rs f :
  c_kind (t_lp s) = KThompson -> c_binz (t_lp s) = Some f ->
  tree_binarize s ds rs = (set_ctxbin (t_lp s) true, binarize (set_ctxbin (t_lp s) false) ds rs).
Proof. intros Ek Eb. unfold tree_binarize. rewrite Ek, Eb. reflexivity. Qed.

(* the leaf policy of the documented behaviour has no binarizer: it uses the stored rewards as they are *)
Theorem tree_leaf_policy_has_no_binarizer (s : @tree R A) g a rewards :
  t_kf_rebin s = false ->
  leaf_expectation N aeqb RG s g a rewards =
  leaf_expectation N aeqb RG (mkTree false (t_kf_sharedrng s) (t_arms s) (set_binz (t_lp s) None) (t_exp s) (t_leaves s) (t_nf s)) g a rewards.
Proof. intros H. unfold leaf_expectation. simpl. rewrite H. reflexivity. Qed.

End C14More.
