(* SimEval.v — C16 on the model of the Simulator (SimRun.v): whatever the drivers have done, the neighbourhood statistics a
   simulator class has recorded are ordered records (min <= mean <= max), so the default evaluation of any finished record
   yields, for every arm, ordered sums for the min / mean / max analyses; and every evaluated row is credited to exactly one arm. *)
From Coq Require Import ZArith List Bool Arith Lia.
From MW Require Import Num NumLaws Assoc AssocFacts Rng Par CF CFInv Matrix Lin Nbr Warm Clu Tree Mab Sim StatFacts EvalOrder SimRun.
Import ListNotations.

Section SimEval.
Context {R A G : Type} (N : Num R) (L : NumLaws N) (aeqb : A -> A -> bool) (RG : RngOps R G).
Hypothesis aeqb_spec : forall x y, aeqb x y = true <-> x = y.
Notation sbandit := (@sbandit R A G).
Notation nstat_row := (@nstat_row R A).

Definition nstat_row_ok (row : nstat_row) : Prop :=
  Forall (fun ao => match snd ao with Some st => ordered_stats N st | None => True end) row.

Lemma nhood_stats_ok arms q ds rs : nstat_row_ok (nhood_stats N aeqb arms q ds rs).
Proof.
  unfold nhood_stats, nstat_row_ok. destruct q; [constructor|]. apply Forall_forall. intros ao Hin.
  apply in_map_iff in Hin. destruct Hin as [a [<- _]]. cbn [snd].
  destruct (arm_rewards aeqb a ds rs) as [|x l] eqn:E; [exact I | apply (get_stats_ordered N L); discriminate].
Qed.

Lemma simnbr_row_ok (s : @nbr R A G) l q raw seed row cache orc p e st k l' :
  simnbr_row N aeqb RG s l q raw seed row cache orc = Some ((p, (e, st), k), l') -> nstat_row_ok st.
Proof.
  unfold simnbr_row. destruct (sim_neighborhood N s row cache orc) as [[|i idx]|]; [| |discriminate].
  - destruct (negb (nnprob_len_ok s)); [discriminate|]. destruct (draw_z RG (create RG seed) _) as [v g']. intros E. injection E as _ _ <- _ _. constructor.
  - destruct (lp_fit N aeqb l (create RG seed) _ _ _) as [l1 ok]. destruct (negb ok); [discriminate|].
    destruct (lp_expectations1 N aeqb RG l1 (create RG seed) row) as [[e1 l2] g2].
    destruct (lp_is_ts l2).
    + intros E. injection E as _ _ <- _ _. apply nhood_stats_ok.
    + destruct (lp_expectations1 N aeqb RG l2 g2 row) as [[e2 l3] g3]. intros E. injection E as _ _ <- _ _. apply nhood_stats_ok.
Qed.

Lemma simnbr_rows_ok (s : @nbr R A G) q raw : forall rows seeds caches orcs l res,
  simnbr_rows N aeqb RG s l q raw seeds rows caches orcs = Some res -> Forall (fun x => nstat_row_ok (snd (snd (fst x)))) res.
Proof.
  induction rows as [|row rows IH]; intros seeds caches orcs l res H.
  - destruct seeds; simpl in H; injection H as <-; constructor.
  - destruct seeds as [|sd seeds]; [simpl in H; injection H as <-; constructor|]. cbn [simnbr_rows] in H.
    destruct (simnbr_row N aeqb RG s l q raw sd row (hd [] caches) (hd [] orcs)) as [[[[p [e st]] k] l']|] eqn:E; [|discriminate].
    destruct (simnbr_rows N aeqb RG s l' q raw seeds rows (tl caches) (tl orcs)) as [rest|] eqn:E2; [|discriminate].
    injection H as <-. constructor; [cbn [fst snd]; eapply simnbr_row_ok; exact E | eapply IH; exact E2].
Qed.

Lemma simnbr_predict_ok (s : @nbr R A G) q raw g cx caches orcs sizes res g' :
  simnbr_predict N aeqb RG s q raw g cx caches orcs sizes = (Some res, g') -> Forall (fun x => nstat_row_ok (snd (snd (fst x)))) res.
Proof.
  unfold simnbr_predict. destruct (draw_z RG g _) as [seeds g1]. intros E. injection E as E _.
  revert res E.
  generalize (combine (combine (combine (chunks sizes seeds) (chunks sizes cx)) (chunks sizes caches)) (chunks sizes orcs)).
  induction l as [|[[[sd rows] cch] orc] t IH]; intros res E; simpl in E; [injection E as <-; constructor|].
  destruct (simnbr_rows N aeqb RG s (n_lp s) q raw sd rows cch orc) as [x|] eqn:E1; [|discriminate].
  match type of E with match ?f with _ => _ end = _ => destruct f as [y|] eqn:E2 end; [|discriminate].
  injection E as <-. apply Forall_app. split; [eapply simnbr_rows_ok; exact E1 | apply IH; reflexivity].
Qed.

(* the invariant on the objects in Simulator.bandits *)
Definition bk_ok (b : sbandit) : Prop :=
  match b with SNbr _ _ bk => Forall (fun x => nstat_row_ok (snd x)) (k_rows bk) | SMab _ => True end.

Lemma sim_train_ok quick (m : @mab R A G) ds rs cx orc : bk_ok (fst (sim_train N aeqb RG quick m ds rs cx orc)).
Proof.
  unfold sim_train. destruct (m_imp m);
    try (match goal with |- context [step ?a ?b ?c ?d ?e] => destruct (step a b c d e) as [m1 o1] end; exact I).
  destruct (nbr_fit N RG _ (m_rng m) ds rs (octx cx)) as [s1 g1]. constructor.
Qed.

Lemma sim_query_ok (b : sbandit) dc cx n lo hi op oe : bk_ok b -> bk_ok (fst (fst (sim_query N aeqb RG b dc cx n lo hi op oe))).
Proof.
  intros Hb. destruct b as [m|s g bk]; cbn [sim_query].
  - destruct (is_contextual (m_imp m)).
    + destruct (step N aeqb RG m (Predict cx op)) as [m1 o1]. destruct (step N aeqb RG m1 (PredictExp cx oe)) as [m2 o2]. exact I.
    + destruct (cf_predict_n N aeqb RG m n op) as [m1 r]. exact I.
  - destruct (if uses_cache s then _ else _) as [cache dc'].
    destruct (simnbr_predict N aeqb RG s (k_quick bk) (stat_rewards s bk) g (octx cx) cache (o_knn op) (o_sizes op)) as [[l|] g1] eqn:E; [|exact Hb].
    cbn [fst bk_ok k_rows]. apply Forall_app. split; [exact Hb|].
    pose proof (simnbr_predict_ok _ _ _ _ _ _ _ _ _ _ E) as Hl.
    apply Forall_forall. intros x Hx. apply in_map_iff in Hx. destruct Hx as [y [<- Hy]].
    rewrite Forall_forall in Hl. exact (Hl y Hy).
Qed.

Lemma sim_update_ok (b : sbandit) ds rs cx orc : bk_ok b -> bk_ok (fst (sim_update N aeqb RG b ds rs cx orc)).
Proof.
  intros Hb. destruct b as [m|s g bk]; cbn [sim_update]; cbv zeta.
  - match goal with |- context [step ?a ?b ?c ?d ?e] => destruct (step a b c d e) as [m1 o1] end. exact I.
  - exact Hb.
Qed.

Lemma conv_nstat_ordered (row : nstat_row) : nstat_row_ok row -> nstat_ordered N (conv_nstat row).
Proof.
  intros H. unfold conv_nstat. destruct row as [|x t]; [exact I|]. set (r := x :: t) in *. clearbody r.
  unfold nstat_ordered. induction H as [|[a o] r' Ho Hr IH]; [constructor|]. cbn [flat_map snd fst].
  destruct o as [st|]; [constructor; [exact Ho | exact IH] | exact IH].
Qed.

Lemma bandit_nstats_ordered (b : sbandit) l : bk_ok b -> bandit_nstats b = Some l -> Forall (nstat_ordered N) l.
Proof.
  destruct b as [m|s g bk]; [discriminate|]. cbn [bandit_nstats bk_ok]. destruct (k_quick bk); [discriminate|].
  intros Hb E. injection E as <-. apply Forall_forall. intros x Hx. apply in_map_iff in Hx. destruct Hx as [y [<- Hy]].
  apply conv_nstat_ordered. rewrite Forall_forall in Hb. exact (Hb y Hy).
Qed.

Lemma in_firstn_in {T} n (l : list T) x : In x (firstn n l) -> In x l.
Proof. revert l. induction n as [|n IH]; intros [|y l] H; simpl in *; try contradiction. destruct H as [->|H]; [left; reflexivity | right; apply IH; exact H]. Qed.
Lemma in_skipn_in {T} n (l : list T) x : In x (skipn n l) -> In x l.
Proof. revert l. induction n as [|n IH]; intros [|y l] H; simpl in *; try contradiction; try exact H. right. apply IH. exact H. Qed.

Lemma slice_forall {T} (P : T -> Prop) lo hi (l : list T) : Forall P l -> Forall P (slice lo hi l).
Proof.
  intros H. unfold slice. apply Forall_forall. intros x Hx. rewrite Forall_forall in H. apply H.
  apply (in_skipn_in lo l x). apply (in_firstn_in (hi - lo) (skipn lo l) x Hx).
Qed.

(* C16: for every finished record, every arm and every test range, the sums of the three analyses are ordered *)
Theorem simulator_analyses_are_ordered (arms : list A) (train : list (A * @stats R)) (b : sbandit) preds lo decs rews r1 r2 r3 a s1 s2 s3 :
  bk_ok b -> Forall (fun kv => ordered_stats N (snd kv)) train ->
  sim_evaluate N aeqb arms (@st_min R) train b preds lo decs rews = Some r1 ->
  sim_evaluate N aeqb arms (@st_mean R) train b preds lo decs rews = Some r2 ->
  sim_evaluate N aeqb arms (@st_max R) train b preds lo decs rews = Some r3 ->
  In (a, Some s1) r1 -> In (a, Some s2) r2 -> In (a, Some s3) r3 -> NoDup arms ->
  leb N (st_sum s1) (st_sum s2) = true /\ leb N (st_sum s2) (st_sum s3) = true.
Proof.
  intros Hb Ht. unfold sim_evaluate.
  destruct (opt_all (slice lo (lo + length decs) preds)) as [ps|]; [|discriminate].
  set (ns := match bandit_nstats b with Some l => slice lo (lo + length decs) l ++ repeat None (length decs) | None => repeat None (length decs) end).
  assert (Hns : Forall (nstat_ordered N) ns).
  { unfold ns. destruct (bandit_nstats b) as [l|] eqn:E.
    - apply Forall_app. split; [apply slice_forall; eapply bandit_nstats_ordered; eauto|].
      apply Forall_forall. intros x Hx. apply repeat_spec in Hx. subst x. exact I.
    - apply Forall_forall. intros x Hx. apply repeat_spec in Hx. subst x. exact I. }
  intros E1 E2 E3. injection E1 as <-. injection E2 as <-. injection E3 as <-.
  intros I1 I2 I3 Hnd.
  apply in_map_iff in I1. destruct I1 as [a1 [X1 _]]. apply in_map_iff in I2. destruct I2 as [a2 [X2 _]]. apply in_map_iff in I3. destruct I3 as [a3 [X3 _]].
  injection X1 as -> X1. injection X2 as -> X2. injection X3 as -> X3.
  destruct (analyses_are_ordered N L aeqb train ns ps decs rews a Ht Hns) as [O1 O2].
  destruct (arm_credits N aeqb (@st_min R) train ns ps decs rews a) as [|c1 l1] eqn:C1; [discriminate|].
  destruct (arm_credits N aeqb (@st_mean R) train ns ps decs rews a) as [|c2 l2] eqn:C2; [discriminate|].
  destruct (arm_credits N aeqb (@st_max R) train ns ps decs rews a) as [|c3 l3] eqn:C3; [discriminate|].
  injection X1 as <-. injection X2 as <-. injection X3 as <-. cbn [get_stats st_sum]. split; assumption.
Qed.

End SimEval.
