(*  C08 — Outputs always range over exactly the current arms, one result per context.
   
    FULL STATEMENT (every policy combination): at every state reachable by any history of add_arm,
    remove_arm, fit, partial_fit, warm_start and queries, predict returns a member of the current arm list,
    predict_expectations returns a dictionary whose keys are exactly the current arms in arm-list order,
    a removed arm never appears again, an added arm is present immediately, and m > 1 rows give a list
    of m results, one row / no contexts a single result.
   
    PROVED, for EVERY policy combination of the model (context-free, LinGreedy/LinUCB/LinTS, Radius/KNearest/
    LSHNearest over either kind of learning policy, Clusters, TreeBandit), every label type with decidable
    equality, every generator that answers with the requested number of values (and, for the two index draws
    rng.choice(n) / rng.integers(0, n), with an index below n):
     * one invariant per implementation class (imp_inv: the arm list is duplicate free; every per-arm dictionary
       of the implementation and of every learning-policy object it holds - template, per-cluster copies, tree
       policy - has exactly the current arms as keys, in arm-list order), established by the constructors and
       preserved by EVERY facade call, accepted, rejected or failing half-way; hence true after every history;
     * in every state satisfying the invariant, whatever predict / predict_expectations return ranges over
       exactly the current arms: every prediction is a member of the arm list, every expectation dictionary has
       the arm list as its key list (all_query_outputs_range);
     * the arm-list clauses (added arm present immediately and last, removed arm gone, rejected calls keep the
       list);
     * shape (one result for one row / no contexts, a list of m results for m > 1 rows, in row order) for
       context-free, linear and TreeBandit bandits unconditionally, and for Radius/KNearest/LSH and Clusters
       under the stated conditions on the oracles the model takes from the run (the job partition covers the
       rows; k-means assigns every row to an existing cluster).
    The theorems named ..._context_free / ..._linear carry the strongest (shape included) statements.
    REFUTED for one configuration (finding D24, C08NnProb.v, reproduced on the code): Radius / LSHNearest constructed with no_nhood_prob_of_arm - add_arm and
    remove_arm do not resize the list, and predict on a context with an empty neighbourhood then RAISES (numpy's choice: "a and p must have same size")
    instead of returning an arm of the current list; the model returns "rejected" there (nnprob_len_ok), and the theorems above speak about the answers that
    are returned.
    NnProbGen.v states the finding for EVERY such bandit (no witness needed): training keeps "one probability per arm", add_arm always breaks it, remove_arm of a
    present arm always breaks it, and from then on every predict on a context with an empty neighbourhood is rejected while predict_expectations still answers. *)
From Coq Require Import List ZArith Bool Arith QArith Qcanon Permutation.
From MW Require Import Num Assoc AssocFacts Rng Par CF CFInv CFClean CFForget CFSpec Matrix Lin Warm WarmInv Nbr NbrFacts NbrIndep LshFacts Clu Tree CellFacts Mab FacadeCF FacadeArms MoreFacts NumLaws CFAlg Sim Extra QcInst OrderFacts ExpIrrel LinInv FacadeLin LpInv NbrInv CluTreeInv FacadeAll ToyFacts C09All C10All LinForget LinSim MatrixFacts GaussJordan LinSpec NbrIndepGen CluIndep C17Lin WarmIdem C14More LshScale TreeLeaf Rename PopSpec CopyFacts StatFacts CluBatch LinWarm C08NnProb NnProbGen.
Import ListNotations.

Theorem C08_predict_after_an_arm_change_with_no_nhood_prob_refuted :
  (exists a : Z,
     snd (run QcNum Z.eqb ToyRng d24_m0 [d24_fit; d24_query]) = [ODone; OArm (Some a)] /\
     In a [1%Z; 2%Z]) /\
  snd (run QcNum Z.eqb ToyRng d24_m0 [d24_fit; AddArm 3%Z None; d24_query]) = [ODone; ODone; ORejected] /\
  snd (run QcNum Z.eqb ToyRng d24_m0 [d24_fit; RemoveArm 2%Z; d24_query]) = [ODone; ODone; ORejected].
Proof. exact @predict_after_add_arm_with_no_nhood_prob_refuted. Qed.
Print Assumptions C08_predict_after_an_arm_change_with_no_nhood_prob_refuted.

Theorem C08_every_arm_change_with_no_nhood_prob_makes_the_empty_neighbourhood_predict_raise :
  forall (R A G : Type) (N : Num R) (aeqb : A -> A -> bool) (RG : RngOps R G),
  (forall x y : A, aeqb x y = true <-> x = y) ->
  forall (s : (@nbr R A G)) (a : A) (bz : option (A -> R -> R)) (p : list R) (l : (@lp R A G)) 
    (seed : Z) (row : list R) (orc : list nat),
  n_nnprob s = Some p ->
  nnprob_len_ok s = true ->
  neighborhood N s row orc = Some [] ->
  nbr_row N aeqb RG (nbr_add_arm N aeqb s a bz) l seed row orc true = None /\
  (In a (n_arms s) -> nbr_row N aeqb RG (nbr_remove_arm N aeqb s a) l seed row orc true = None).
Proof. exact @arm_change_makes_empty_neighbourhood_predict_raise. Qed.
Print Assumptions C08_every_arm_change_with_no_nhood_prob_makes_the_empty_neighbourhood_predict_raise.

Theorem C08_training_keeps_one_no_nhood_probability_per_arm :
  forall (R A G : Type) (N : Num R) (RG : RngOps R G) (s : (@nbr R A G)) (g : G) (ds : list A) 
    (rs : list R) (cx : (@mat R)),
  nnprob_len_ok (fst (nbr_fit N RG s g ds rs cx)) = nnprob_len_ok s /\
  nnprob_len_ok (nbr_partial_fit N s ds rs cx) = nnprob_len_ok s.
Proof. exact @training_keeps_one_probability_per_arm. Qed.
Print Assumptions C08_training_keeps_one_no_nhood_probability_per_arm.

Theorem C08_without_no_nhood_prob_arm_changes_are_harmless :
  forall (R A G : Type) (N : Num R) (aeqb : A -> A -> bool) (s : (@nbr R A G)) (a : A)
    (bz : option (A -> R -> R)),
  n_nnprob s = None ->
  nnprob_len_ok (nbr_add_arm N aeqb s a bz) = true /\ nnprob_len_ok (nbr_remove_arm N aeqb s a) = true.
Proof. exact @no_list_configured_stays_ok. Qed.
Print Assumptions C08_without_no_nhood_prob_arm_changes_are_harmless.

Theorem C08_invariant_on_every_history :
  forall (R A G : Type) (N : Num R) (aeqb : A -> A -> bool) (RG : RngOps R G),
  (forall x y : A, aeqb x y = true <-> x = y) ->
  forall (ops : list (@op R A)) (m : (@mab R A G)),
  rng_lengths_ok RG -> imp_inv (m_imp m) -> imp_inv (m_imp (state_after N aeqb RG m ops)).
Proof. exact @run_preserves_imp_inv. Qed.
Print Assumptions C08_invariant_on_every_history.

Theorem C08_every_call_preserves_the_invariant :
  forall (R A G : Type) (N : Num R) (aeqb : A -> A -> bool) (RG : RngOps R G),
  (forall x y : A, aeqb x y = true <-> x = y) ->
  forall (m : (@mab R A G)) (o : (@op R A)),
  rng_lengths_ok RG -> imp_inv (m_imp m) -> imp_inv (m_imp (fst (step N aeqb RG m o))).
Proof. exact @step_preserves_imp_inv. Qed.
Print Assumptions C08_every_call_preserves_the_invariant.

Theorem C08_arm_list_duplicate_free_on_every_history :
  forall (R A G : Type) (N : Num R) (aeqb : A -> A -> bool) (RG : RngOps R G),
  (forall x y : A, aeqb x y = true <-> x = y) ->
  forall (ops : list (@op R A)) (m : (@mab R A G)),
  rng_lengths_ok RG -> imp_inv (m_imp m) -> NoDup (m_arms (state_after N aeqb RG m ops)).
Proof. exact @arms_nodup_on_every_history. Qed.
Print Assumptions C08_arm_list_duplicate_free_on_every_history.

Theorem C08_answers_range_over_current_arms :
  forall (R A G : Type) (N : Num R) (aeqb : A -> A -> bool) (RG : RngOps R G),
  (forall x y : A, aeqb x y = true <-> x = y) ->
  forall (m : (@mab R A G)) (cx : option (@ctxs R)) (orc : (@oracle R A)),
  rng_lengths_ok RG ->
  rng_index_ok RG ->
  imp_inv (m_imp m) ->
  out_range (m_arms m) (snd (step N aeqb RG m (Predict cx orc))) /\
  out_range (m_arms m) (snd (step N aeqb RG m (PredictExp cx orc))).
Proof. exact @all_query_outputs_range. Qed.
Print Assumptions C08_answers_range_over_current_arms.

Theorem C08_invariant_on_every_history_context_free :
  forall (R A G : Type) (N : Num R) (aeqb : A -> A -> bool) (RG : RngOps R G),
  (forall x y : A, aeqb x y = true <-> x = y) ->
  forall (ops : list (@op R A)) (m : (@mab R A G)),
  rng_lengths_ok RG ->
  is_cf m ->
  mab_inv N m -> is_cf (state_after N aeqb RG m ops) /\ mab_inv N (state_after N aeqb RG m ops).
Proof. exact @run_preserves_inv. Qed.
Print Assumptions C08_invariant_on_every_history_context_free.

Theorem C08_constructor_establishes_invariant :
  forall (R A G : Type) (N : Num R) (k : cfkind) (hp : R) (bz : option (A -> R -> R)) 
    (arms : list A) (g : G),
  NoDup arms -> mab_inv N {| m_imp := ICf (cf_init N k hp bz arms); m_fitted := false; m_rng := g |}.
Proof. exact @init_inv. Qed.
Print Assumptions C08_constructor_establishes_invariant.

Theorem C08_constructor_establishes_invariant_linear :
  forall (R A G : Type) (N : Num R) (k : regkind) (alpha eps l2 : R) (sc kf : bool) 
    (arms : list A) (g : G),
  NoDup arms ->
  lin_mab_inv {| m_imp := ILin (lin_init N k alpha eps l2 sc kf arms); m_fitted := false; m_rng := g |}.
Proof. exact @lin_init_inv. Qed.
Print Assumptions C08_constructor_establishes_invariant_linear.

Theorem C08_constructor_establishes_invariant_neighbours :
  forall (R A G : Type) (k : nkind) (m : metric) (p : option (list R)) (kf : bool) 
    (arms : list A) (l : (@lp R A G)),
  NoDup arms -> lp_ok l -> lp_arms l = arms -> nbr_inv (nbr_init k m p kf arms l).
Proof. exact @nbr_init_inv. Qed.
Print Assumptions C08_constructor_establishes_invariant_neighbours.

Theorem C08_constructor_establishes_invariant_clusters :
  forall (R A G : Type) (n : nat) (arms : list A) (l : (@lp R A G)),
  NoDup arms -> lp_ok l -> lp_arms l = arms -> clu_inv (clu_init n arms l).
Proof. exact @clu_init_inv. Qed.
Print Assumptions C08_constructor_establishes_invariant_clusters.

Theorem C08_constructor_establishes_invariant_tree :
  forall (R A : Type) (N : Num R) (kf1 kf2 : bool) (arms : list A) (l : (@cf R A)),
  NoDup arms -> keys_ok l -> c_arms l = arms -> tree_inv (tree_init N kf1 kf2 arms l).
Proof. exact @tree_init_inv. Qed.
Print Assumptions C08_constructor_establishes_invariant_tree.

Theorem C08_query_results_shape_and_range_context_free :
  forall (R A G : Type) (N : Num R) (aeqb : A -> A -> bool) (RG : RngOps R G) 
    (m : (@mab R A G)) (cx : option (list (list R))) (orc : (@oracle R A)),
  rng_lengths_ok RG ->
  is_cf m ->
  mab_inv N m ->
  out_wf (m_arms m) (ctx_len cx) (snd (step N aeqb RG m (Predict cx orc))) /\
  out_wf (m_arms m) (ctx_len cx) (snd (step N aeqb RG m (PredictExp cx orc))) /\
  m_arms (fst (step N aeqb RG m (Predict cx orc))) = m_arms m /\
  m_arms (fst (step N aeqb RG m (PredictExp cx orc))) = m_arms m.
Proof. exact @query_outputs_wf. Qed.
Print Assumptions C08_query_results_shape_and_range_context_free.

Theorem C08_query_results_shape_and_range_linear :
  forall (R A G : Type) (N : Num R) (aeqb : A -> A -> bool) (RG : RngOps R G),
  (forall x y : A, aeqb x y = true <-> x = y) ->
  forall (m : (@mab R A G)) (cx : list (list R)) (orc : (@oracle R A)),
  rng_lengths_ok RG ->
  lin_mab_inv m ->
  out_wf (m_arms m) (Some (length cx)) (snd (step N aeqb RG m (Predict (Some cx) orc))) /\
  out_wf (m_arms m) (Some (length cx)) (snd (step N aeqb RG m (PredictExp (Some cx) orc))) /\
  m_arms (fst (step N aeqb RG m (Predict (Some cx) orc))) = m_arms m /\
  m_arms (fst (step N aeqb RG m (PredictExp (Some cx) orc))) = m_arms m.
Proof. exact @lin_query_outputs_wf. Qed.
Print Assumptions C08_query_results_shape_and_range_linear.

Theorem C08_query_results_shape_and_range_tree :
  forall (R A G : Type) (N : Num R) (aeqb : A -> A -> bool) (RG : RngOps R G),
  (forall x y : A, aeqb x y = true <-> x = y) ->
  forall (s : (@tree R A)) (g : G) (leaf : A -> list R -> nat) (cx : (@mat R)) (p : bool),
  rng_index_ok RG ->
  tree_inv s ->
  Forall (res_wf (t_arms s) p) (fst (tree_predict N aeqb RG s g leaf cx p)) /\
  ((forall (g0 : G) (high : Z) (size : nat), length (fst (draw_z RG g0 (RqRandint high size))) = size) ->
   length (fst (tree_predict N aeqb RG s g leaf cx p)) = length cx).
Proof. exact @tree_predict_wf. Qed.
Print Assumptions C08_query_results_shape_and_range_tree.

Theorem C08_query_results_shape_and_range_neighbours :
  forall (R A G : Type) (N : Num R) (aeqb : A -> A -> bool) (RG : RngOps R G),
  (forall x y : A, aeqb x y = true <-> x = y) ->
  forall (s : (@nbr R A G)) (g : G) (cx : (@mat R)) (orcs : list (list nat)) (sizes : list nat) 
    (p : bool) (res : list (option A + list (A * option R))),
  rng_lengths_ok RG ->
  rng_index_ok RG ->
  nbr_inv s ->
  fst (nbr_predict N aeqb RG s g cx orcs sizes p) = Some res ->
  Forall (res_wf (n_arms s) p) res /\
  ((forall (g0 : G) (high : Z) (size : nat), length (fst (draw_z RG g0 (RqRandint high size))) = size) ->
   sum_list sizes = length cx -> length res = length cx).
Proof. exact @nbr_predict_wf. Qed.
Print Assumptions C08_query_results_shape_and_range_neighbours.

Theorem C08_query_results_shape_clusters :
  forall (R A G : Type) (N : Num R) (aeqb : A -> A -> bool) (RG : RngOps R G),
  (forall x y : A, aeqb x y = true <-> x = y) ->
  forall (lps : list (@lp R A G)) (arms : list A) (p : bool),
  rng_lengths_ok RG ->
  lps_ok arms lps ->
  forall (sizes : list nat) (seeds : list Z) (cx : (@mat R)) (assign : list nat),
  length seeds = length cx ->
  length assign = length cx ->
  Forall (fun c : nat => (c < length lps)%nat) assign ->
  sum_list sizes = length cx ->
  length
    (flat_map (fun '(sd, rows, asg) => clu_rows N aeqb RG lps sd rows asg p)
       (combine (combine (chunks sizes seeds) (chunks sizes cx)) (chunks sizes assign))) = 
  length cx.
Proof. exact @clu_chunks_length. Qed.
Print Assumptions C08_query_results_shape_clusters.

Theorem C08_added_arm_present_immediately :
  forall (R A G : Type) (N : Num R) (aeqb : A -> A -> bool) (RG : RngOps R G),
  (forall x y : A, aeqb x y = true <-> x = y) ->
  forall (m : (@mab R A G)) (a : A) (bz : option (A -> R -> R)),
  snd (step N aeqb RG m (AddArm a bz)) = ODone ->
  ~ In a (m_arms m) /\ m_arms (fst (step N aeqb RG m (AddArm a bz))) = m_arms m ++ [a].
Proof. exact @add_arm_arms. Qed.
Print Assumptions C08_added_arm_present_immediately.

Theorem C08_removed_arm_never_listed :
  forall (R A G : Type) (N : Num R) (aeqb : A -> A -> bool) (RG : RngOps R G),
  (forall x y : A, aeqb x y = true <-> x = y) ->
  forall (m : (@mab R A G)) (a : A),
  NoDup (m_arms m) ->
  snd (step N aeqb RG m (RemoveArm a)) = ODone -> ~ In a (m_arms (fst (step N aeqb RG m (RemoveArm a)))).
Proof. exact @removed_arm_gone. Qed.
Print Assumptions C08_removed_arm_never_listed.

(* non-vacuity: a concrete UCB1 bandit over exact rationals satisfies the hypotheses, and a concrete
   history (train, remove, re-add, query with three rows) produces well-formed results *)
Definition ex_m0 : @mab Qc Z nat :=
  {| m_imp := ICf (cf_init QcNum KUcb 1%Qc None [3; 1; 2]%Z); m_fitted := false; m_rng := 0%nat |}.
Definition ex_orc : @oracle Qc Z := mkOracle [] [] [] (fun _ _ => 0%nat) [].
Definition ex_ops : list (@op Qc Z) :=
  [Fit [3; 1; 1]%Z [1%Qc; 0%Qc; 1%Qc] None ex_orc; RemoveArm 1%Z; AddArm 7%Z None; AddArm 1%Z None;
   PartialFit [7]%Z [1%Qc] None ex_orc].
Example C08_hypotheses_satisfiable :
  rng_lengths_ok ToyRng /\ is_cf ex_m0 /\ mab_inv QcNum ex_m0 /\
  m_arms (state_after QcNum Z.eqb ToyRng ex_m0 ex_ops) = [3; 2; 7; 1]%Z.
Proof.
  split; [exact toy_rng_lengths_ok|]. split; [eexists; reflexivity|].
  split; [apply init_inv; repeat constructor; simpl; intuition discriminate | vm_compute; reflexivity].
Qed.

(* non-vacuity for a contextual bandit: KNearest(k=2) over a LinGreedy policy on exact rationals; the toy generator
   meets both generator hypotheses; after fit / add_arm / partial_fit a two-row query returns two arms of the list *)
Definition qz (z : Z) : Qc := Q2Qc (inject_Z z).
Definition ex_lin : @lin Qc Z nat := lin_init QcNum RRidge 1%Qc 0%Qc 1%Qc false false [3; 1; 2]%Z.
Definition ex_n0 : @mab Qc Z nat :=
  {| m_imp := INbr (nbr_init (NKNearest 2) Cityblock None false [3; 1; 2]%Z (LLin ex_lin)); m_fitted := false; m_rng := 0%nat |}.
Definition ex_norc : @oracle Qc Z := mkOracle [[0; 1]; [1; 2]]%nat [] [] (fun _ _ => 0%nat) [2%nat].
Definition ex_nops : list (@op Qc Z) :=
  [Fit [3; 1; 1]%Z [1%Qc; 0%Qc; 1%Qc] (Some [[qz 1]; [qz 2]; [qz 3]]) ex_norc; AddArm 7%Z None;
   PartialFit [7]%Z [1%Qc] (Some [[qz 4]]) ex_norc].
Example C08_contextual_hypotheses_satisfiable :
  rng_lengths_ok ToyRng /\ rng_index_ok ToyRng /\ imp_inv (m_imp ex_n0) /\
  snd (step QcNum Z.eqb ToyRng (state_after QcNum Z.eqb ToyRng ex_n0 ex_nops) (Predict (Some [[qz 1]; [qz 2]]) ex_norc))
  = OArms [Some 3%Z; Some 1%Z].
Proof.
  split; [exact toy_rng_lengths_ok|]. split; [exact toy_rng_index_ok|]. split.
  - simpl. apply nbr_init_inv; [repeat constructor; simpl; intuition discriminate | | reflexivity].
    simpl. apply lin_keys_ok_init. repeat constructor; simpl; intuition discriminate.
  - vm_compute. reflexivity.
Qed.

