(*  C14 — A Thompson binarizer is applied to every reward exactly once.
   
    PROVED for every binarizer function (also ones that are not idempotent on {0,1}), every batch:
     * training a Thompson policy that has a binarizer IS training the policy without binarizer on the rewards
       converted by binarizer(decision, reward): fit and partial_fit commute with the conversion, the states are
       equal up to the binarizer field itself;
     * under Radius / KNearest / LSHNearest the history stores the converted rewards and marks the policy
       (is_contextual_binarized), and a marked policy converts nothing: the copies re-trained at prediction time
       see every reward converted exactly once.
    ..._partial: TreeBandit re-applies the binarizer in its leaf policies (finding D6, refuted on the code);
    Clusters by correspondence and the pre-converted twin relation. *)
From Coq Require Import List ZArith Bool Arith QArith Qcanon Permutation.
From MW Require Import Num Assoc AssocFacts Rng Par CF CFInv CFClean CFForget CFSpec Matrix Lin Warm WarmInv Nbr NbrFacts NbrIndep LshFacts Clu Tree CellFacts Mab FacadeCF FacadeArms MoreFacts NumLaws CFAlg Sim Extra QcInst.
Import ListNotations.

Theorem C14_binarizer_commutes_with_training :
  forall (R A : Type) (N : Num R) (aeqb : A -> A -> bool) (s : (@cf R A)) (ds : list A) (rs : list R),
  c_kind s = KThompson ->
  cf_fit N aeqb s ds rs = set_binz (cf_fit N aeqb (set_binz s None) ds (binarize s ds rs)) (c_binz s) /\
  cf_partial_fit N aeqb s ds rs =
  set_binz (cf_partial_fit N aeqb (set_binz s None) ds (binarize s ds rs)) (c_binz s).
Proof. exact @thompson_binarize_once. Qed.
Print Assumptions C14_binarizer_commutes_with_training.

Theorem C14_marked_policy_converts_nothing :
  forall (R A : Type) (s : (@cf R A)) (ds : list A) (rs : list R), c_ctxbin s = true -> binarize s ds rs = rs.
Proof. exact @binarize_marked_is_identity. Qed.
Print Assumptions C14_marked_policy_converts_nothing.

Theorem C14_neighbourhood_history_stores_converted_rewards_partial :
  forall (R A G : Type) (l : (@lp R A G)) (ds : list A) (rs : list R),
  lp_is_ts_binz l = true ->
  match l with
  | LCf c => lp_binarize l ds rs = (LCf (set_ctxbin c true), binarize (set_ctxbin c false) ds rs)
  | LLin _ => True
  end.
Proof. exact @neighbourhood_stores_converted_rewards. Qed.
Print Assumptions C14_neighbourhood_history_stores_converted_rewards_partial.


