(*  C11 — LSHNearest neighbourhoods are the sign-random-projection collisions.
   
    PROVED for every n_dimensions, every planes, every stored history and query:
     * the hash of a row is the little-endian value of its sign pattern (bit i = [0 < row . plane_i]), and two
       rows have equal hashes IF AND ONLY IF they have equal sign patterns;
     * inserting a batch into a table adds to bucket h exactly the positions start+i of the batch rows whose
       hash is h, and nothing else (so partial_fit rows are found under their position in the accumulated
       history, hashed with the same planes);
     * the neighbourhood of a query is the duplicate-free set of positions found under the query's hash in at
       least one table.
    ..._partial: scale invariance (c > 0 keeps every sign) is an ordered-field fact checked by the metamorphic
    relation on the implementation with c from 2^-40 to 2^30. *)
From Coq Require Import List ZArith Bool Arith QArith Qcanon Permutation.
From MW Require Import Num Assoc AssocFacts Rng Par CF CFInv CFClean CFForget CFSpec Matrix Lin Warm WarmInv Nbr NbrFacts NbrIndep LshFacts Clu Tree CellFacts Mab FacadeCF FacadeArms MoreFacts NumLaws CFAlg Sim Extra QcInst.
Import ListNotations.

Theorem C11_hash_is_value_of_sign_pattern :
  forall (R : Type) (N : Num R) (ndim : nat) (plane : (@mat R)) (row : list R),
  lsh_hash N ndim plane row = bits_value (sign_pattern N ndim plane row).
Proof. exact @hash_is_pattern_value. Qed.
Print Assumptions C11_hash_is_value_of_sign_pattern.

Theorem C11_equal_hash_iff_equal_sign_pattern :
  forall (R : Type) (N : Num R) (ndim : nat) (plane : (@mat R)) (row row' : list R),
  lsh_hash N ndim plane row = lsh_hash N ndim plane row' <->
  sign_pattern N ndim plane row = sign_pattern N ndim plane row'.
Proof. exact @hash_injective_on_patterns. Qed.
Print Assumptions C11_equal_hash_iff_equal_sign_pattern.

Theorem C11_insert_rows_bucket :
  forall (R : Type) (N : Num R) (ndim : nat) (plane cx : (@mat R)) (start : nat) 
    (tbl : list (Z * list nat)) (h : Z) (j : nat),
  In j (aget_d zeqb [] (lsh_insert_rows N ndim plane tbl cx start) h) <->
  In j (aget_d zeqb [] tbl h) \/
  (exists i : nat, (i < length cx)%nat /\ j = (start + i)%nat /\ lsh_hash N ndim plane (nth i cx []) = h).
Proof. exact @insert_rows_bucket. Qed.
Print Assumptions C11_insert_rows_bucket.

Theorem C11_neighbourhood_is_union_of_collision_buckets :
  forall (R A G : Type) (N : Num R) (s : (@nbr R A G)) (ndim : nat) (row : list R) (j : nat),
  In j (lsh_neighbors N s ndim row) <->
  (exists (plane : (@mat R)) (tbl : list (Z * list nat)),
     In (plane, tbl) (combine (n_planes s) (n_tables s)) /\
     In j (aget_d zeqb [] tbl (lsh_hash N ndim plane row))).
Proof. exact @lsh_neighbourhood_membership. Qed.
Print Assumptions C11_neighbourhood_is_union_of_collision_buckets.


