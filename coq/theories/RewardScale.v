(* RewardScale.v — C20, the reward-scale law of LinGreedy (exact arithmetic): multiplying every reward of a history by c multiplies
   X'y and beta of every arm by c and leaves A, A^-1 and the standardisation untouched - an invariant of _RidgeRegression.fit from any
   pair of regressions so related - hence every exploit value x.beta is multiplied by c. *)
From Coq Require Import ZArith List Bool Lia Ring.
From MW Require Import Num NumLaws Assoc AssocFacts Rng Par CF Matrix MatrixFacts Lin.
Import ListNotations.

Section RewardScale.
Context {R A G : Type} (N : Num R) (L : NumLaws N) (aeqb : A -> A -> bool) (RG : RngOps R G).
Notation ridge := (@ridge R G).
Add Ring RingRS : (L_ring N L).

Lemma pysum_scale (c : R) (l : list R) : pysum N (map (mul N c) l) = mul N c (pysum N l).
Proof.
  unfold pysum. assert (H : forall acc, fold_left (add N) (map (mul N c) l) (mul N c acc) = mul N c (fold_left (add N) l acc)).
  { induction l as [|x t IH]; intros acc; cbn [map fold_left]; [reflexivity|]. rewrite <- IH. f_equal. ring. }
  replace (zero N) with (mul N c (zero N)) at 1 by ring. apply H.
Qed.

Lemma map2_scale_r (c : R) (u v : list R) : map2 (mul N) u (map (mul N c) v) = map (mul N c) (map2 (mul N) u v).
Proof. revert v. induction u as [|x u IH]; intros [|y v]; cbn; try reflexivity. rewrite IH. f_equal. ring. Qed.

Lemma dot_scale_r (c : R) (u v : list R) : dot N u (map (mul N c) v) = mul N c (dot N u v).
Proof. unfold dot. rewrite map2_scale_r. apply pysum_scale. Qed.

Lemma xty_scale d (x : mat (R:=R)) (y : list R) c : xty N d x (map (mul N c) y) = vscale N c (xty N d x y).
Proof. unfold xty, vscale. rewrite map_map. apply map_ext. intros col. apply dot_scale_r. Qed.

Lemma vadd_scale c (a b : list R) : vadd N (vscale N c a) (vscale N c b) = vscale N c (vadd N a b).
Proof. unfold vadd, vscale. revert b. induction a as [|x a IH]; intros [|y b]; cbn; try reflexivity. rewrite IH. f_equal. ring. Qed.

Lemma mat_vec_scale c (m : mat (R:=R)) (v : list R) : mat_vec N m (vscale N c v) = vscale N c (mat_vec N m v).
Proof. unfold mat_vec, vscale. rewrite map_map. apply map_ext. intros row. apply dot_scale_r. Qed.

(* two regressions of which the second has seen the rewards of the first multiplied by c *)
Definition scaled (c : R) (m1 m2 : ridge) : Prop :=
  r_A m2 = r_A m1 /\ r_Ainv m2 = r_Ainv m1 /\ r_scaler m2 = r_scaler m1 /\ r_rng m2 = r_rng m1 /\
  r_Xty m2 = vscale N c (r_Xty m1) /\ r_beta m2 = vscale N c (r_beta m1).

Theorem ridge_fit_reward_scale d c (m1 m2 m1' : ridge) x y :
  scaled c m1 m2 -> ridge_fit N d m1 x y = Some m1' ->
  exists m2', ridge_fit N d m2 x (map (mul N c) y) = Some m2' /\ scaled c m1' m2'.
Proof.
  intros (HA & HI & HS & HR & HX & HB). unfold ridge_fit. rewrite HS, HA, HX, HR.
  destruct (match r_scaler m1 with
            | None => (x, None)
            | Some None => (scaler_transform N (scaler_fit N d x) x, Some (Some (scaler_fit N d x)))
            | Some (Some sc0) => (scaler_transform N (scaler_partial N d sc0 x) x, Some (Some (scaler_partial N d sc0 x)))
            end) as [x' scl].
  destruct (inverse N d (madd N (r_A m1) (xtx N d x'))) as [ainv|]; [|discriminate]. intros E. injection E as <-.
  eexists. split; [reflexivity|]. unfold scaled. cbn [r_A r_Ainv r_scaler r_rng r_Xty r_beta]. repeat split.
  - rewrite xty_scale, vadd_scale. reflexivity.
  - rewrite xty_scale, vadd_scale, mat_vec_scale. reflexivity.
Qed.

(* the freshly initialised regression is related to itself *)
Lemma dot_zeros (row : list R) n : dot N row (zeros N n) = zero N.
Proof.
  unfold dot, zeros. assert (H : forall acc, fold_left (add N) (map2 (mul N) row (repeat (zero N) n)) acc = acc).
  { revert n. induction row as [|x row IH]; intros [|n] acc; cbn; try reflexivity. rewrite IH. ring. }
  unfold pysum. apply H.
Qed.

Lemma vscale_zeros c n : vscale N c (zeros N n) = zeros N n.
Proof. unfold vscale, zeros. induction n as [|n IH]; cbn; [reflexivity|]. rewrite IH. f_equal. ring. Qed.

Lemma ridge_init_scaled (s : @lin R A G) d (m : ridge) c : scaled c (ridge_init N s d m) (ridge_init N s d m).
Proof.
  unfold scaled, ridge_init. cbn [r_A r_Ainv r_scaler r_rng r_Xty r_beta]. repeat split.
  - symmetry. apply vscale_zeros.
  - unfold mat_vec, vscale. rewrite map_map. apply map_ext. intros row. rewrite dot_zeros. ring.
Qed.

(* the exploit value of LinGreedy *)
Theorem lingreedy_exploit_value_scales (s : @lin R A G) c (m1 m2 : ridge) g x : l_kind s = RRidge -> scaled c m1 m2 ->
  fst (fst (ridge_predict N RG s m2 g x)) = map (mul N c) (fst (fst (ridge_predict N RG s m1 g x))).
Proof.
  intros Hk (HA & HI & HS & HR & HX & HB). unfold ridge_predict. rewrite Hk, HS, HB. cbn [fst]. rewrite map_map. apply map_ext. intros row.
  unfold vscale. apply dot_scale_r.
Qed.


(* ---- the policy object ----------------------------------------------------------------------------------------- *)
Notation lin := (@lin R A G).
Definition models_scaled (c : R) (ms1 ms2 : list (A * ridge)) : Prop :=
  Forall2 (fun am1 am2 => fst am1 = fst am2 /\ scaled c (snd am1) (snd am2)) ms1 ms2.
Definition lin_scaled (c : R) (s1 s2 : lin) : Prop :=
  l_kind s2 = l_kind s1 /\ l_alpha s2 = l_alpha s1 /\ l_eps s2 = l_eps s1 /\ l_l2 s2 = l_l2 s1 /\ l_scale s2 = l_scale s1 /\
  l_kf_ainv s2 = l_kf_ainv s1 /\ l_nf s2 = l_nf s1 /\ l_arms s2 = l_arms s1 /\ l_exp s2 = l_exp s1 /\ l_status s2 = l_status s1 /\
  models_scaled c (l_models s1) (l_models s2).

Lemma scaled_ridge_new c : scaled c (@ridge_new R G) (@ridge_new R G).
Proof. unfold scaled, ridge_new. cbn. repeat split. Qed.

Lemma aget_d_scaled c ms1 ms2 a : models_scaled c ms1 ms2 -> scaled c (aget_d aeqb ridge_new ms1 a) (aget_d aeqb ridge_new ms2 a).
Proof.
  intros H. unfold aget_d. induction H as [|[k1 v1] [k2 v2] t1 t2 [Hk Hv] Ht IH]; cbn [aget]; [apply scaled_ridge_new|].
  cbn [fst snd] in *. subst k2. destruct (aeqb a k1); [exact Hv | exact IH].
Qed.

Lemma aset_scaled c ms1 ms2 a m1 m2 : models_scaled c ms1 ms2 -> scaled c m1 m2 -> models_scaled c (aset aeqb ms1 a m1) (aset aeqb ms2 a m2).
Proof.
  intros H Hm. induction H as [|[k1 v1] [k2 v2] t1 t2 [Hk Hv] Ht IH]; cbn [aset]; [constructor; [split; [reflexivity | exact Hm] | constructor]|].
  cbn [fst snd] in *. subst k2. destruct (aeqb a k1); constructor; try (split; [reflexivity | assumption]); assumption.
Qed.

Lemma arm_rows_scale a ds (rs : list R) (cx : mat (R:=R)) c : length ds = length rs ->
  arm_rows aeqb a ds (map (mul N c) rs) cx = (fst (arm_rows aeqb a ds rs cx), map (mul N c) (snd (arm_rows aeqb a ds rs cx))).
Proof.
  intros Hl. unfold arm_rows. cbn [fst snd].
  assert (E : combine (combine ds (map (mul N c) rs)) cx = map (fun t => (fst (fst t), mul N c (snd (fst t)), snd t)) (combine (combine ds rs) cx)).
  { clear Hl. revert rs cx. induction ds as [|d ds IH]; intros [|r rs] cx; cbn; try reflexivity. destruct cx as [|x cx]; cbn; [reflexivity|]. rewrite IH. reflexivity. }
  rewrite E. clear E. generalize (combine (combine ds rs) cx). intros l. induction l as [|t l IH]; [reflexivity|]. cbn [map filter fst snd].
  destruct (aeqb (fst (fst t)) a); cbn [map fst snd]; injection IH as I1 I2; rewrite ?I1, ?I2; reflexivity.
Qed.

Lemma lin_fit_arm_scale c (s1 s2 s1' : lin) g a ds rs cx : length ds = length rs -> lin_scaled c s1 s2 ->
  lin_fit_arm N aeqb s1 g a ds rs cx = Some s1' ->
  exists s2', lin_fit_arm N aeqb s2 g a ds (map (mul N c) rs) cx = Some s2' /\ lin_scaled c s1' s2'.
Proof.
  intros Hl Hs. pose proof Hs as (E1 & E2 & E3 & E4 & E5 & E6 & E7 & E8 & E9 & E10 & EM). unfold lin_fit_arm. rewrite (arm_rows_scale a ds rs cx c Hl).
  destruct (arm_rows aeqb a ds rs cx) as [x y]. cbn [fst snd]. destruct x as [|r0 x']; [intros E; injection E as <-; exists s2; split; [reflexivity | exact Hs]|].
  rewrite E7. destruct (negb _); [discriminate|].
  pose proof (aget_d_scaled c (l_models s1) (l_models s2) a EM) as (HA & HI & HS & HR & HX & HB).
  set (m1 := aget_d aeqb ridge_new (l_models s1) a) in *. set (m2 := aget_d aeqb ridge_new (l_models s2) a) in *.
  assert (Hsc : scaled c (mkRidge (r_beta m1) (r_A m1) (r_Ainv m1) (r_Xty m1) (r_scaler m1) (Some (match r_rng m1 with Some g' => g' | None => g end)))
                         (mkRidge (r_beta m2) (r_A m2) (r_Ainv m2) (r_Xty m2) (r_scaler m2) (Some (match r_rng m2 with Some g' => g' | None => g end)))).
  { unfold scaled. cbn [r_A r_Ainv r_scaler r_rng r_Xty r_beta]. rewrite HR. repeat split; assumption. }
  destruct (ridge_fit N (match l_nf s1 with Some d => d | None => O end) _ (r0 :: x') y) as [m1'|] eqn:F; [|discriminate].
  intros E. injection E as <-. destruct (ridge_fit_reward_scale _ c _ _ m1' (r0 :: x') y Hsc F) as (m2' & F2 & S2). rewrite F2.
  eexists. split; [reflexivity|]. unfold lin_scaled. cbn [set_models l_kind l_alpha l_eps l_l2 l_scale l_kf_ainv l_nf l_arms l_exp l_status l_models].
  repeat split; try assumption. apply aset_scaled; assumption.
Qed.

Lemma lin_parallel_fit_scale c (arms : list A) : forall (s1 s2 : lin) g ds rs cx, length ds = length rs -> lin_scaled c s1 s2 ->
  snd (lin_parallel_fit N aeqb s1 g arms ds rs cx) = true ->
  snd (lin_parallel_fit N aeqb s2 g arms ds (map (mul N c) rs) cx) = true /\
  lin_scaled c (fst (lin_parallel_fit N aeqb s1 g arms ds rs cx)) (fst (lin_parallel_fit N aeqb s2 g arms ds (map (mul N c) rs) cx)).
Proof.
  induction arms as [|a t IH]; intros s1 s2 g ds rs cx Hl Hs; cbn [lin_parallel_fit]; [intros _; split; [reflexivity | exact Hs]|].
  destruct (lin_fit_arm N aeqb s1 g a ds rs cx) as [s1'|] eqn:F; [|discriminate].
  destruct (lin_fit_arm_scale c s1 s2 s1' g a ds rs cx Hl Hs F) as (s2' & F2 & S2). rewrite F2. apply IH; assumption.
Qed.

Lemma lset_trained_scaled c (s1 s2 : lin) ds p : lin_scaled c s1 s2 -> lin_scaled c (lset_trained aeqb s1 ds p) (lset_trained aeqb s2 ds p).
Proof.
  intros (E1 & E2 & E3 & E4 & E5 & E6 & E7 & E8 & E9 & E10 & EM). unfold lin_scaled, lset_trained.
  cbn [set_lstatus l_kind l_alpha l_eps l_l2 l_scale l_kf_ainv l_nf l_arms l_exp l_status l_models]. rewrite E8, E10. repeat split; assumption.
Qed.

Theorem lin_partial_fit_reward_scale c (s1 s2 : lin) g ds rs cx : length ds = length rs -> lin_scaled c s1 s2 ->
  snd (lin_partial_fit N aeqb s1 g ds rs cx) = true ->
  snd (lin_partial_fit N aeqb s2 g ds (map (mul N c) rs) cx) = true /\
  lin_scaled c (fst (lin_partial_fit N aeqb s1 g ds rs cx)) (fst (lin_partial_fit N aeqb s2 g ds (map (mul N c) rs) cx)).
Proof.
  intros Hl Hs. unfold lin_partial_fit. pose proof Hs as (_ & _ & _ & _ & _ & _ & _ & E8 & _). rewrite E8.
  pose proof (lin_parallel_fit_scale c (l_arms s1) s1 s2 g ds rs cx Hl Hs) as H.
  destruct (lin_parallel_fit N aeqb s1 g (l_arms s1) ds rs cx) as [a1 ok1]. destruct (lin_parallel_fit N aeqb s2 g (l_arms s1) ds (map (mul N c) rs) cx) as [a2 ok2].
  cbn [fst snd] in *. destruct ok1; [|discriminate]. intros _. destruct (H eq_refl) as [-> S]. cbn [fst snd]. split; [reflexivity | apply lset_trained_scaled; exact S].
Qed.

Theorem lin_fit_reward_scale c (s : lin) g ds rs cx : length ds = length rs ->
  snd (lin_fit N aeqb s g ds rs cx) = true ->
  snd (lin_fit N aeqb s g ds (map (mul N c) rs) cx) = true /\
  lin_scaled c (fst (lin_fit N aeqb s g ds rs cx)) (fst (lin_fit N aeqb s g ds (map (mul N c) rs) cx)).
Proof.
  intros Hl. unfold lin_fit. cbv zeta.
  match goal with |- context [lin_parallel_fit N aeqb ?s3 g ?arms ds rs cx] =>
    assert (Hs : lin_scaled c s3 s3);
    [| pose proof (lin_parallel_fit_scale c arms s3 s3 g ds rs cx Hl Hs) as H;
       destruct (lin_parallel_fit N aeqb s3 g arms ds rs cx) as [a1 ok1]; destruct (lin_parallel_fit N aeqb s3 g arms ds (map (mul N c) rs) cx) as [a2 ok2] ] end.
  { unfold lin_scaled. cbn [set_lstatus set_models set_lnf l_kind l_alpha l_eps l_l2 l_scale l_kf_ainv l_nf l_arms l_exp l_status l_models]. repeat split.
    unfold models_scaled. induction (l_models s) as [|am t IH]; cbn [map]; constructor; [split; [reflexivity | apply ridge_init_scaled] | exact IH]. }
  cbn [fst snd] in *. destruct ok1; [|discriminate]. intros _. destruct (H eq_refl) as [-> S]. cbn [fst snd]. split; [reflexivity | apply lset_trained_scaled; exact S].
Qed.

End RewardScale.
