(* CFForget.v — fit() of a context-free policy discards everything learned before: on every
   reachable state it produces exactly the state a freshly constructed policy with the same
   configuration and arm list produces (for Thompson Sampling up to arm_to_expectation, which
   holds the last drawn sample and is never read). *)
From Coq Require Import ZArith List Bool Lia.
From MW Require Import Num Assoc AssocFacts Rng CF CFInv CFClean.
Import ListNotations.

Section CFForget.
Context {R A G : Type} (N : Num R) (aeqb : A -> A -> bool) (RG : RngOps R G).
Hypothesis aeqb_spec : forall x y, aeqb x y = true <-> x = y.

Notation cf := (@cf R A).
Notation "0" := (zero N).
Notation "1" := (one N).

(* a freshly constructed policy object with the configuration and arms of s *)
Definition cf_fresh (s : cf) : cf :=
  set_ctxbin (cf_init N (c_kind s) (c_hp s) (c_binz s) (c_arms s)) (c_ctxbin s).

(* equality up to the values stored in arm_to_expectation *)
Definition eq_mod_exp (s s' : cf) : Prop :=
  s' = set_exp s (c_exp s') /\ akeys (c_exp s') = akeys (c_exp s).

Definition cf_R (s s' : cf) : Prop :=
  match c_kind s with KThompson => eq_mod_exp s s' | _ => s = s' end.

Lemma areset_afromkeys {V} (d : list (A * V)) (v : V) : areset d v = afromkeys (akeys d) v.
Proof. unfold areset, afromkeys, akeys; rewrite map_map; reflexivity. Qed.

Lemma const_vals_afromkeys {V} (d : list (A * V)) (v : V) :
  Forall (fun kv => snd kv = v) d -> d = afromkeys (akeys d) v.
Proof.
  induction d as [|[k w] t IH]; intros H; simpl; [reflexivity|].
  apply Forall_cons_iff in H. destruct H as [H1 H2]. simpl in H1. rewrite H1. f_equal. apply IH; assumption.
Qed.

Lemma map_const_afromkeys {V W} (f : A * V -> W) (d : list (A * V)) (w : W) :
  Forall (fun kv => f kv = w) d -> map (fun kv => (fst kv, f kv)) d = afromkeys (akeys d) w.
Proof.
  induction d as [|[k v] t IH]; intros H; simpl; [reflexivity|].
  apply Forall_cons_iff in H. destruct H as [H1 H2]. simpl in H1. rewrite H1. f_equal. apply IH; assumption.
Qed.

Lemma cf_eta (s : cf) :
  s = mkCf (c_kind s) (c_hp s) (c_binz s) (c_ctxbin s) (c_arms s) (c_exp s) (c_status s) (c_stats s) (c_total s) (c_pyfloat s).
Proof. destruct s; reflexivity. Qed.

Lemma reset_stats_greedy (s : cf) :
  clean N s -> (c_kind s = KGreedy \/ c_kind s = KPopularity \/ c_kind s = KUcb) ->
  c_stats (reset_sums N s) = afromkeys (akeys (c_stats s)) (armst0 N).
Proof.
  intros (Hs & _) Hk. unfold reset_sums; simpl.
  apply (map_const_afromkeys (fun kv => mkArmst 0 0%Z 0 (s_expo (snd kv)) (s_succ (snd kv)) (s_fail (snd kv)))).
  eapply Forall_impl; [|exact Hs]. intros [k st] H; simpl in *.
  unfold armst0. destruct Hk as [Hk|[Hk|Hk]]; rewrite Hk in H; simpl in H;
    repeat match goal with H : _ /\ _ |- _ => destruct H end; congruence.
Qed.

Lemma reset_stats_ts (s : cf) :
  clean N s -> c_kind s = KThompson ->
  c_stats (reset_counts_ts N s) = afromkeys (akeys (c_stats s)) (armst0 N).
Proof.
  intros (Hs & _) Hk. unfold reset_counts_ts; simpl.
  apply (map_const_afromkeys (fun kv => mkArmst (s_sum (snd kv)) (s_count (snd kv)) (s_mean (snd kv)) (s_expo (snd kv)) 1 1)).
  eapply Forall_impl; [|exact Hs]. intros [k st] H; simpl in *.
  unfold armst0. rewrite Hk in H; simpl in H. repeat match goal with H : _ /\ _ |- _ => destruct H end; congruence.
Qed.

(* ---- the state after the resets is the same for s and for a fresh policy ------------- *)
Lemma base_reset (s : cf) :
  keys_ok s -> clean N s -> (c_kind s = KGreedy \/ c_kind s = KPopularity \/ c_kind s = KUcb) ->
  forall tot pyf,
  set_pyfloat (set_total (reset_status (set_exp (reset_sums N s) (areset (c_exp s) 0))) tot) pyf
  = mkCf (c_kind s) (c_hp s) (c_binz s) (c_ctxbin s) (c_arms s)
         (afromkeys (c_arms s) 0) (afromkeys (c_arms s) (@status0 A)) (afromkeys (c_arms s) (armst0 N)) tot pyf.
Proof.
  intros (Hn & He & Hst & Hss) Hc Hk tot pyf.
  pose proof (reset_stats_greedy s Hc Hk) as Hr.
  unfold reset_status, set_exp, set_status, set_total, set_pyfloat; simpl. simpl in Hr.
  rewrite Hr, Hss, areset_afromkeys, He. reflexivity.
Qed.

Lemma fresh_keys_ok (s : cf) : keys_ok s -> keys_ok (cf_fresh s).
Proof. intros (Hn & _). unfold cf_fresh. apply (keys_ok_init N (c_kind s) (c_hp s) (c_binz s) (c_arms s) Hn). Qed.

Lemma fresh_clean (s : cf) : clean N (cf_fresh s).
Proof. unfold cf_fresh. apply (clean_init N (c_kind s) (c_hp s) (c_binz s) (c_arms s)). Qed.

Lemma set_total_same (s : cf) : c_total s = 0%Z -> set_total s 0%Z = s.
Proof. intros H; rewrite (cf_eta s) at 2; unfold set_total; rewrite H; reflexivity. Qed.
Lemma set_pyfloat_same (s : cf) : c_pyfloat s = false -> set_pyfloat s false = s.
Proof. intros H; rewrite (cf_eta s) at 2; unfold set_pyfloat; rewrite H; reflexivity. Qed.

Theorem cf_fit_forgets_greedy (s : cf) ds rs :
  keys_ok s -> clean N s -> c_kind s = KGreedy -> cf_fit N aeqb s ds rs = cf_fit N aeqb (cf_fresh s) ds rs.
Proof.
  intros Hk Hc Ek.
  assert (Hgen : forall t, keys_ok t -> clean N t -> c_kind t = KGreedy ->
            reset_status (set_exp (reset_sums N t) (areset (c_exp t) 0))
            = mkCf (c_kind t) (c_hp t) (c_binz t) (c_ctxbin t) (c_arms t)
                   (afromkeys (c_arms t) 0) (afromkeys (c_arms t) (@status0 A)) (afromkeys (c_arms t) (armst0 N)) 0%Z false).
  { intros t Hkt Hct Ekt. rewrite <- (base_reset t Hkt Hct (or_introl Ekt) 0%Z false).
    destruct Hct as (_ & Ht & Hp & _).
    rewrite set_total_same by (simpl; apply Ht; rewrite Ekt; discriminate).
    rewrite set_pyfloat_same by (simpl; apply Hp; rewrite Ekt; discriminate). reflexivity. }
  unfold cf_fit. rewrite Ek. replace (c_kind (cf_fresh s)) with KGreedy by (simpl; auto).
  rewrite (Hgen s Hk Hc Ek). rewrite (Hgen (cf_fresh s) (fresh_keys_ok s Hk) (fresh_clean s)) by (simpl; exact Ek).
  reflexivity.
Qed.

Theorem cf_fit_forgets_popularity (s : cf) ds rs :
  keys_ok s -> clean N s -> c_kind s = KPopularity -> cf_fit N aeqb s ds rs = cf_fit N aeqb (cf_fresh s) ds rs.
Proof.
  intros Hk Hc Ek.
  assert (Hgen : forall t, keys_ok t -> clean N t -> c_kind t = KPopularity ->
            set_pyfloat (reset_status (set_exp (reset_sums N t) (areset (c_exp t) 0))) false
            = mkCf (c_kind t) (c_hp t) (c_binz t) (c_ctxbin t) (c_arms t)
                   (afromkeys (c_arms t) 0) (afromkeys (c_arms t) (@status0 A)) (afromkeys (c_arms t) (armst0 N)) 0%Z false).
  { intros t Hkt Hct Ekt. rewrite <- (base_reset t Hkt Hct (or_intror (or_introl Ekt)) 0%Z false).
    destruct Hct as (_ & Ht & Hp & _).
    rewrite set_total_same by (simpl; apply Ht; rewrite Ekt; discriminate). reflexivity. }
  unfold cf_fit. rewrite Ek. replace (c_kind (cf_fresh s)) with KPopularity by (simpl; auto).
  rewrite (Hgen s Hk Hc Ek). rewrite (Hgen (cf_fresh s) (fresh_keys_ok s Hk) (fresh_clean s)) by (simpl; exact Ek).
  reflexivity.
Qed.

Theorem cf_fit_forgets_ucb (s : cf) ds rs :
  keys_ok s -> clean N s -> c_kind s = KUcb -> cf_fit N aeqb s ds rs = cf_fit N aeqb (cf_fresh s) ds rs.
Proof.
  intros Hk Hc Ek.
  assert (Hgen : forall t z, keys_ok t -> clean N t -> c_kind t = KUcb ->
            set_total (reset_status (set_exp (reset_sums N t) (areset (c_exp t) 0))) z
            = mkCf (c_kind t) (c_hp t) (c_binz t) (c_ctxbin t) (c_arms t)
                   (afromkeys (c_arms t) 0) (afromkeys (c_arms t) (@status0 A)) (afromkeys (c_arms t) (armst0 N)) z false).
  { intros t z Hkt Hct Ekt. rewrite <- (base_reset t Hkt Hct (or_intror (or_intror Ekt)) z false).
    destruct Hct as (_ & Ht & Hp & _).
    rewrite set_pyfloat_same by (simpl; apply Hp; rewrite Ekt; discriminate). reflexivity. }
  unfold cf_fit. rewrite Ek. replace (c_kind (cf_fresh s)) with KUcb by (simpl; auto).
  rewrite (Hgen s _ Hk Hc Ek). rewrite (Hgen (cf_fresh s) _ (fresh_keys_ok s Hk) (fresh_clean s)) by (simpl; exact Ek).
  reflexivity.
Qed.

(* Random never stores anything: every reachable state is the fresh one *)
Theorem cf_random_is_fresh (s : cf) : keys_ok s -> clean N s -> c_kind s = KRandom -> s = cf_fresh s.
Proof.
  intros (Hn & He & Hst & Hss) (Hs & Ht & Hp & Hr) Ek.
  destruct (Hr Ek) as (Hre & Hrs).
  rewrite (cf_eta s) at 1. unfold cf_fresh, cf_init, set_ctxbin; simpl.
  rewrite (const_vals_afromkeys (c_exp s) 0 Hre), He.
  rewrite (const_vals_afromkeys (c_status s) status0 Hrs), Hst.
  assert (Hs' : Forall (fun kv => snd kv = armst0 N) (c_stats s))
    by (eapply Forall_impl; [|exact Hs]; intros kv H; rewrite Ek in H; exact H).
  rewrite (const_vals_afromkeys (c_stats s) (armst0 N) Hs'), Hss.
  rewrite Ht by (rewrite Ek; discriminate). rewrite Hp by (rewrite Ek; discriminate). reflexivity.
Qed.


(* ---- Thompson Sampling: training never reads or writes arm_to_expectation ------------ *)
Lemma ts_fit_arm_exp (s : cf) e a ds rs :
  (c_kind s = KThompson \/ c_kind s = KSoftmax) ->
  cf_fit_arm N aeqb (set_exp s e) a ds rs = set_exp (cf_fit_arm N aeqb s a ds rs) e.
Proof.
  intros [Ek|Ek]; unfold cf_fit_arm; simpl; rewrite Ek; [reflexivity|].
  destruct (is_nil _); reflexivity.
Qed.

Lemma ts_parallel_fit_exp_gen (s : cf) e ds rs l :
  (c_kind s = KThompson \/ c_kind s = KSoftmax) ->
  fold_left (fun s a => cf_fit_arm N aeqb s a ds rs) l (set_exp s e)
  = set_exp (fold_left (fun s a => cf_fit_arm N aeqb s a ds rs) l s) e.
Proof.
  revert s. induction l as [|a t IH]; intros s Ek; simpl; [reflexivity|].
  rewrite ts_fit_arm_exp by exact Ek. apply IH.
  rewrite (proj1 (fit_arm_cfg N aeqb s a ds rs)); exact Ek.
Qed.

Lemma ts_parallel_fit_exp (s : cf) e ds rs :
  (c_kind s = KThompson \/ c_kind s = KSoftmax) ->
  cf_parallel_fit N aeqb (set_exp s e) ds rs = set_exp (cf_parallel_fit N aeqb s ds rs) e.
Proof. intros Ek. unfold cf_parallel_fit; simpl. apply ts_parallel_fit_exp_gen; exact Ek. Qed.

Theorem cf_fit_forgets_thompson (s : cf) ds rs :
  keys_ok s -> clean N s -> c_kind s = KThompson ->
  cf_fit N aeqb s ds rs = set_exp (cf_fit N aeqb (cf_fresh s) ds rs) (c_exp s).
Proof.
  intros Hk Hc Ek. pose proof Hk as (Hn & He & Hst & Hss).
  pose proof (reset_stats_ts s Hc Ek) as Hr. simpl in Hr.
  pose proof (reset_stats_ts (cf_fresh s) (fresh_clean s) Ek) as Hr'. simpl in Hr'.
  destruct Hc as (_ & Ht & Hp & _).
  unfold cf_fit. rewrite Ek. replace (c_kind (cf_fresh s)) with KThompson by (simpl; auto).
  replace (binarize (cf_fresh s) ds rs) with (binarize s ds rs) by reflexivity.
  set (X := reset_status (reset_counts_ts N (cf_fresh s))).
  assert (E : reset_status (reset_counts_ts N s) = set_exp X (c_exp s)).
  { unfold X, reset_status, reset_counts_ts, set_exp, set_status, set_stats. simpl.
    rewrite Hr, Hss. rewrite Ht by (rewrite Ek; discriminate). rewrite Hp by (rewrite Ek; discriminate).
    rewrite Hr', akeys_afromkeys. reflexivity. }
  rewrite E. rewrite ts_parallel_fit_exp by (unfold X; simpl; left; exact Ek). reflexivity.
Qed.

(* ---- Softmax: the exponents left over from before are all overwritten ----------------- *)
Definition erase_expo_st (st : @armst R) : @armst R := mkArmst (s_sum st) (s_count st) (s_mean st) 0 (s_succ st) (s_fail st).
Definition erase_expo (s : cf) : cf := set_stats s (map (fun kv => (fst kv, erase_expo_st (snd kv))) (c_stats s)).

Lemma aset_map {V} (f : V -> V) (d : list (A * V)) k v :
  map (fun kv => (fst kv, f (snd kv))) (aset aeqb d k v) = aset aeqb (map (fun kv => (fst kv, f (snd kv))) d) k (f v).
Proof.
  induction d as [|[k' v'] t IH]; simpl; [reflexivity|].
  destruct (aeqb k k'); simpl; [reflexivity | f_equal; exact IH].
Qed.

Lemma aget_d_map {V} (f : V -> V) (d : list (A * V)) dflt k :
  aget_d aeqb (f dflt) (map (fun kv => (fst kv, f (snd kv))) d) k = f (aget_d aeqb dflt d k).
Proof.
  unfold aget_d. induction d as [|[k' v'] t IH]; simpl; [reflexivity|].
  destruct (aeqb k k'); [reflexivity | exact IH].
Qed.

Lemma erase_armst0 : erase_expo_st (armst0 N) = armst0 N.
Proof. reflexivity. Qed.

Lemma aget_d_erase (d : list (A * @armst R)) k :
  aget_d aeqb (armst0 N) (map (fun kv => (fst kv, erase_expo_st (snd kv))) d) k = erase_expo_st (aget_d aeqb (armst0 N) d k).
Proof. rewrite <- (aget_d_map erase_expo_st d (armst0 N) k). reflexivity. Qed.

Lemma softmax_fit_arm_erase (s : cf) a ds rs :
  c_kind s = KSoftmax -> erase_expo (cf_fit_arm N aeqb s a ds rs) = cf_fit_arm N aeqb (erase_expo s) a ds rs.
Proof.
  intros Ek. unfold cf_fit_arm; simpl; rewrite Ek.
  destruct (is_nil (arm_rewards aeqb a ds rs)); [reflexivity|].
  unfold erase_expo, set_stats; simpl. rewrite aset_map. simpl.
  rewrite !aget_d_erase. reflexivity.
Qed.

Lemma softmax_parallel_fit_erase_gen (s : cf) ds rs l :
  c_kind s = KSoftmax ->
  erase_expo (fold_left (fun s a => cf_fit_arm N aeqb s a ds rs) l s)
  = fold_left (fun s a => cf_fit_arm N aeqb s a ds rs) l (erase_expo s).
Proof.
  revert s. induction l as [|a t IH]; intros s Ek; simpl; [reflexivity|].
  rewrite IH by (rewrite (proj1 (fit_arm_cfg N aeqb s a ds rs)); exact Ek).
  rewrite softmax_fit_arm_erase by exact Ek. reflexivity.
Qed.

Lemma softmax_expectation_erase (s : cf) : softmax_expectation N aeqb (erase_expo s) = softmax_expectation N aeqb s.
Proof.
  unfold softmax_expectation, erase_expo, set_stats, set_exp; simpl.
  rewrite !map_map; simpl. reflexivity.
Qed.

Lemma softmax_expectation_exp_keys (s : cf) e e' :
  akeys e = akeys e' -> softmax_expectation N aeqb (set_exp s e) = softmax_expectation N aeqb (set_exp s e').
Proof.
  intros Hk. unfold softmax_expectation, set_exp, set_stats; simpl. f_equal.
  revert e' Hk. induction e as [|[k v] t IH]; intros [|[k' v'] t'] Hk; simpl in *; try discriminate; [reflexivity|].
  injection Hk as Hk1 Hk2. subst. f_equal. apply IH; exact Hk2.
Qed.

Theorem cf_fit_forgets_softmax (s : cf) ds rs :
  keys_ok s -> clean N s -> c_kind s = KSoftmax -> cf_fit N aeqb s ds rs = cf_fit N aeqb (cf_fresh s) ds rs.
Proof.
  intros Hk Hc Ek. pose proof Hk as (Hn & He & Hst & Hss). destruct Hc as (Hs & Ht & Hp & _).
  unfold cf_fit. rewrite Ek. replace (c_kind (cf_fresh s)) with KSoftmax by (simpl; auto).
  f_equal.
  set (P' := reset_status (reset_sums N (cf_fresh s))).
  assert (E : erase_expo (reset_status (reset_sums N s)) = set_exp (erase_expo P') (c_exp s)).
  { unfold P', erase_expo, reset_status, reset_sums, set_stats, set_status, set_exp; simpl.
    rewrite !map_map; simpl.
    rewrite Ht by (rewrite Ek; discriminate). rewrite Hp by (rewrite Ek; discriminate).
    f_equal.
    rewrite (map_const_afromkeys (fun kv => erase_expo_st (mkArmst 0 0%Z 0 (s_expo (snd kv)) (s_succ (snd kv)) (s_fail (snd kv)))) (c_stats s) (armst0 N)).
    - rewrite Hss. unfold afromkeys; rewrite map_map; reflexivity.
    - eapply Forall_impl; [|exact Hs]. intros [k st] H; rewrite Ek in H; simpl in *. destruct H as [H1 H2].
      unfold erase_expo_st, armst0; simpl. congruence. }
  rewrite <- (softmax_expectation_erase (cf_parallel_fit N aeqb (reset_status (reset_sums N s)) ds rs)).
  rewrite <- (softmax_expectation_erase (cf_parallel_fit N aeqb P' ds rs)).
  unfold cf_parallel_fit.
  rewrite !softmax_parallel_fit_erase_gen by (simpl; exact Ek).
  replace (c_arms (reset_status (reset_sums N s))) with (c_arms (erase_expo P')) by reflexivity.
  replace (c_arms P') with (c_arms (erase_expo P')) by reflexivity.
  rewrite E.
  rewrite ts_parallel_fit_exp_gen by (simpl; right; exact Ek).
  assert (Hexp : forall x : cf, x = set_exp x (c_exp x)) by (intros x; destruct x; reflexivity).
  rewrite (Hexp (fold_left (fun s0 a => cf_fit_arm N aeqb s0 a ds rs) (c_arms (erase_expo P')) (erase_expo P'))) at 2.
  set (Y := fold_left (fun s0 a => cf_fit_arm N aeqb s0 a ds rs) (c_arms (erase_expo P')) (erase_expo P')).
  apply softmax_expectation_exp_keys.
  (* keys of the untouched expectation table of the fresh state are the arms *)
  assert (Hfold : forall l (x : cf), c_kind x = KSoftmax ->
            c_exp (fold_left (fun s0 a => cf_fit_arm N aeqb s0 a ds rs) l x) = c_exp x).
  { induction l as [|a t IH]; intros x Ekx; simpl; [reflexivity|].
    rewrite IH; [|rewrite (proj1 (fit_arm_cfg N aeqb x a ds rs)); exact Ekx].
    unfold cf_fit_arm; rewrite Ekx. destruct (is_nil _); reflexivity. }
  assert (HY : c_exp Y = c_exp (erase_expo P')) by (unfold Y; apply Hfold; simpl; exact Ek).
  rewrite HY. simpl. rewrite akeys_afromkeys. exact He.
Qed.

(* ---- summary: fit forgets, for every kind ---------------------------------------------- *)
Theorem cf_fit_forgets (s : cf) ds rs :
  keys_ok s -> clean N s ->
  cf_fit N aeqb s ds rs =
  match c_kind s with
  | KThompson => set_exp (cf_fit N aeqb (cf_fresh s) ds rs) (c_exp s)
  | _ => cf_fit N aeqb (cf_fresh s) ds rs
  end.
Proof.
  intros Hk Hc. destruct (c_kind s) eqn:Ek.
  - apply cf_fit_forgets_greedy; assumption.
  - apply cf_fit_forgets_ucb; assumption.
  - apply cf_fit_forgets_softmax; assumption.
  - apply cf_fit_forgets_popularity; assumption.
  - apply cf_fit_forgets_thompson; assumption.
  - unfold cf_fit. rewrite Ek. replace (c_kind (cf_fresh s)) with KRandom by (simpl; auto).
    apply cf_random_is_fresh; assumption.
Qed.

End CFForget.
