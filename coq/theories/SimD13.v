(* SimD13.v — finding D13 as a theorem about the model: in online mode a replaced neighbourhood bandit does NOT report
   the predictions of the public protocol predict / predict_expectations / partial_fit. The simulator classes take
   predictions and expectations from ONE call (one draw of row seeds from the bandit's generator per batch), the
   public protocol draws row seeds twice per batch, so from the second batch on the rows are seeded differently.
   Witness: a Radius bandit whose neighbourhoods are empty (the arm is then chosen by the row generator), two batches
   of one row; exact rationals, the counter generator of QcInst. *)
From Coq Require Import ZArith List Bool QArith Qcanon.
From MW Require Import Num Assoc Rng CF Matrix Lin Nbr Mab QcInst Sim SimRun SimRunFacts SimDrivers.
Import ListNotations.

Definition d13_arms : list Z := [10; 20; 30]%Z.
Definition d13_nbr : @nbr Qc Z nat :=
  nbr_init (NRadius (Q2Qc 0)) Cityblock None false d13_arms (LCf (cf_init QcNum KGreedy (Q2Qc 0) None d13_arms)).
Definition d13_train_cx : list (list Qc) := [[Q2Qc 0]].
Definition d13_batch : @batch Qc Z := mkBatch [10%Z] [Q2Qc 1] (Some [[Q2Qc 5]]).
Definition d13_batch2 : @batch Qc Z := mkBatch [10%Z] [Q2Qc 1] (Some [[Q2Qc 9]]).
Definition d13_orc : @oracle Qc Z := mkOracle [] [] [] (fun _ _ => O) [1%nat].
Definition d13_borc : @borc Qc Z := (d13_orc, d13_orc, d13_orc).

(* the trained bandit: one stored row at distance 5 from every query, radius 0 *)
Definition d13_trained : @nbr Qc Z nat := fst (nbr_fit QcNum ToyRng d13_nbr 0%nat [10%Z] [Q2Qc 1] d13_train_cx).

Theorem online_public_protocol_refuted :
  rep_preds (snd (sim_online1 QcNum Z.eqb ToyRng (SNbr d13_trained 0%nat (mkNbk [] [Q2Qc 1] true)) (Some ([], [])) 0 [d13_batch; d13_batch2] [d13_borc; d13_borc]))
  = Some [Some 10%Z; Some 20%Z] /\
  option_map fst (snd (api_online QcNum Z.eqb ToyRng (lib_of d13_trained 0%nat) [d13_batch; d13_batch2] [d13_borc; d13_borc]))
  = Some [Some 10%Z; Some 30%Z] /\
  (* ... while the protocol without the intermediate expectations read agrees, as proved in general *)
  snd (api_online_predict_only QcNum Z.eqb ToyRng (lib_of d13_trained 0%nat) [d13_batch; d13_batch2] [d13_borc; d13_borc])
  = Some [Some 10%Z; Some 20%Z].
Proof. vm_compute. repeat split. Qed.
