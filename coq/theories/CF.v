(* CF.v — the six context-free learning policies (greedy.py, ucb.py, softmax.py,
   thompson.py, popularity.py, rand.py) and the BaseMAB bookkeeping they share
   (base_mab.py: arm_to_expectation, arm_to_status, add_arm, remove_arm,
   _set_arms_as_trained).  Definitions only; proofs live in other files. *)
From Coq Require Import ZArith List Bool.
From MW Require Import Num Assoc Rng.
Import ListNotations.

Inductive cfkind := KGreedy | KUcb | KSoftmax | KPopularity | KThompson | KRandom.

Section CF.
Context {R A G : Type} (N : Num R) (aeqb : A -> A -> bool) (RG : RngOps R G).

Notation "0" := (zero N).
Notation "1" := (one N).

Record status := mkStatus { st_trained : bool; st_warm : bool; st_by : option A }.
Definition status0 : status := mkStatus false false None.

(* the per-arm policy dictionaries, merged into one record per arm:
   arm_to_sum, arm_to_count, arm_to_mean, arm_to_exponent, arm_to_success_count, arm_to_fail_count *)
Record armst := mkArmst { s_sum : R; s_count : Z; s_mean : R; s_expo : R; s_succ : R; s_fail : R }.
Definition armst0 : armst := mkArmst 0 0%Z 0 0 1 1.

Record cf := mkCf {
  c_kind : cfkind;
  c_hp : R;                         (* epsilon / alpha / tau *)
  c_binz : option (A -> R -> R);    (* ThompsonSampling binarizer *)
  c_ctxbin : bool;                  (* is_contextual_binarized *)
  c_arms : list A;                  (* self.arms (the list object shared with MAB.arms) *)
  c_exp : list (A * R);             (* arm_to_expectation *)
  c_status : list (A * status);     (* arm_to_status *)
  c_stats : list (A * armst);
  c_total : Z;                      (* UCB1 total_count *)
  c_pyfloat : bool                  (* Popularity: arm_to_expectation currently holds exact Python floats
                                       (after reset(…, 1.0/len(arms))), which decides how builtin sum() adds *)
}.

Definition set_exp (s : cf) e := mkCf (c_kind s) (c_hp s) (c_binz s) (c_ctxbin s) (c_arms s) e (c_status s) (c_stats s) (c_total s) (c_pyfloat s).
Definition set_status (s : cf) x := mkCf (c_kind s) (c_hp s) (c_binz s) (c_ctxbin s) (c_arms s) (c_exp s) x (c_stats s) (c_total s) (c_pyfloat s).
Definition set_stats (s : cf) x := mkCf (c_kind s) (c_hp s) (c_binz s) (c_ctxbin s) (c_arms s) (c_exp s) (c_status s) x (c_total s) (c_pyfloat s).
Definition set_total (s : cf) x := mkCf (c_kind s) (c_hp s) (c_binz s) (c_ctxbin s) (c_arms s) (c_exp s) (c_status s) (c_stats s) x (c_pyfloat s).
Definition set_pyfloat (s : cf) x := mkCf (c_kind s) (c_hp s) (c_binz s) (c_ctxbin s) (c_arms s) (c_exp s) (c_status s) (c_stats s) (c_total s) x.
Definition set_arms (s : cf) x := mkCf (c_kind s) (c_hp s) (c_binz s) (c_ctxbin s) x (c_exp s) (c_status s) (c_stats s) (c_total s) (c_pyfloat s).
Definition set_binz (s : cf) x := mkCf (c_kind s) (c_hp s) x (c_ctxbin s) (c_arms s) (c_exp s) (c_status s) (c_stats s) (c_total s) (c_pyfloat s).
Definition set_ctxbin (s : cf) x := mkCf (c_kind s) (c_hp s) (c_binz s) x (c_arms s) (c_exp s) (c_status s) (c_stats s) (c_total s) (c_pyfloat s).

(* __init__ *)
Definition cf_init (k : cfkind) (hp : R) (bz : option (A -> R -> R)) (arms : list A) : cf :=
  mkCf k hp bz false arms (afromkeys arms 0) (afromkeys arms status0) (afromkeys arms armst0) 0%Z false.

(* rewards[decisions == arm] *)
Definition arm_rewards (a : A) (ds : list A) (rs : list R) : list R :=
  map snd (filter (fun dr => aeqb (fst dr) a) (combine ds rs)).

Definition is_nil {T} (l : list T) : bool := match l with [] => true | _ => false end.

(* max(values) / first maximum, Python semantics: replace only on strict > *)
Definition pymax (l : list R) : R :=
  match l with [] => 0 | h :: t => fold_left (fun b x => if ltb N b x then x else b) t h end.

(* utils.argmax: first key with the maximum value *)
Definition argmax_first (d : list (A * R)) : option A :=
  match d with
  | [] => None
  | h :: t => Some (fst (fold_left (fun b kv => if ltb N (snd b) (snd kv) then kv else b) t h))
  end.

Definition ucb_value (mean alpha : R) (total count : Z) : R :=
  add N mean (mul N alpha (sqrt N (div N (mul N (of_Z N 2) (ln N (of_Z N total))) (of_Z N count)))).

(* _fit_arm *)
Definition cf_fit_arm (s : cf) (a : A) (ds : list A) (rs : list R) : cf :=
  let ar := arm_rewards a ds rs in
  let st := aget_d aeqb armst0 (c_stats s) a in
  match c_kind s with
  | KGreedy | KPopularity =>
      if is_nil ar then s else
      let sum' := add N (s_sum st) (nsum N ar) in
      let cnt' := (s_count st + Z.of_nat (length ar))%Z in
      let s1 := set_stats s (aset aeqb (c_stats s) a (mkArmst sum' cnt' (s_mean st) (s_expo st) (s_succ st) (s_fail st))) in
      set_exp s1 (aset aeqb (c_exp s1) a (div N sum' (of_Z N cnt')))
  | KUcb =>
      let st' := if is_nil ar then st else
                 let sum' := add N (s_sum st) (nsum N ar) in
                 let cnt' := (s_count st + Z.of_nat (length ar))%Z in
                 mkArmst sum' cnt' (div N sum' (of_Z N cnt')) (s_expo st) (s_succ st) (s_fail st) in
      let s1 := if is_nil ar then s else set_stats s (aset aeqb (c_stats s) a st') in
      if Z.eqb (s_count st') 0 then s1
      else set_exp s1 (aset aeqb (c_exp s1) a (ucb_value (s_mean st') (c_hp s) (c_total s) (s_count st')))
  | KSoftmax =>
      if is_nil ar then s else
      let sum' := add N (s_sum st) (nsum N ar) in
      let cnt' := (s_count st + Z.of_nat (length ar))%Z in
      set_stats s (aset aeqb (c_stats s) a (mkArmst sum' cnt' (div N sum' (of_Z N cnt')) (s_expo st) (s_succ st) (s_fail st)))
  | KThompson =>
      let ones := nsum N ar in
      set_stats s (aset aeqb (c_stats s) a
        (mkArmst (s_sum st) (s_count st) (s_mean st) (s_expo st)
                 (add N (s_succ st) ones) (add N (s_fail st) (sub N (of_Z N (Z.of_nat (length ar))) ones))))
  | KRandom => s
  end.

(* _parallel_fit with n_jobs = 1: arms in order *)
Definition cf_parallel_fit (s : cf) (ds : list A) (rs : list R) : cf :=
  fold_left (fun s a => cf_fit_arm s a ds rs) (c_arms s) s.

(* _reset_arm_to_status *)
Definition reset_status (s : cf) : cf := set_status s (afromkeys (c_arms s) status0).

(* _set_arms_as_trained *)
Definition set_trained (s : cf) (ds : list A) (is_partial : bool) : cf :=
  set_status s
    (fold_left (fun stt a =>
        if amem aeqb a ds then
          match aget aeqb stt a with
          | Some x => aset aeqb stt a (if is_partial then mkStatus true (st_warm x) (st_by x)
                                       else mkStatus true false None)
          | None => stt   (* KeyError cannot occur: keys = arms (proved) *)
          end
        else stt) (c_arms s) (c_status s)).

(* Softmax._expectation_operation *)
Definition softmax_expectation (s : cf) : cf :=
  let maxm := pymax (map (fun kv => s_mean (snd kv)) (c_stats s)) in
  let stats' := map (fun kv => let st := snd kv in
                  (fst kv, mkArmst (s_sum st) (s_count st) (s_mean st)
                             (exp N (div N (sub N (s_mean st) maxm) (c_hp s))) (s_succ st) (s_fail st))) (c_stats s) in
  let tot := psum N (map (fun kv => s_expo (snd kv)) stats') in
  let s1 := set_stats s stats' in
  set_exp s1 (map (fun kv => (fst kv, div N (s_expo (aget_d aeqb armst0 stats' (fst kv))) tot)) (c_exp s1)).

(* Popularity._normalize_expectations *)
Definition popularity_normalize (s : cf) : cf :=
  let tot := if c_pyfloat s then psum N (avals (c_exp s)) else pysum N (avals (c_exp s)) in
  if eqb N tot 0 then set_pyfloat (set_exp s (areset (c_exp s) (div N 1 (of_Z N (Z.of_nat (length (c_arms s))))))) true
  else set_exp s (map (fun kv => (fst kv, div N (snd kv) tot)) (c_exp s)).

(* fix for D1 (popularity.py partial_fit): raw means are recomputed before normalising *)
Definition popularity_raw_means (s : cf) : cf :=
  set_exp s (map (fun kv => let st := aget_d aeqb armst0 (c_stats s) (fst kv) in
                   (fst kv, if Z.eqb (s_count st) 0 then 0 else div N (s_sum st) (of_Z N (s_count st)))) (c_exp s)).

(* _get_binary_rewards *)
Definition binarize (s : cf) (ds : list A) (rs : list R) : list R :=
  match c_binz s with
  | Some f => if c_ctxbin s then rs else map (fun dr => f (fst dr) (snd dr)) (combine ds rs)
  | None => rs
  end.

Definition reset_sums (s : cf) : cf :=
  set_stats s (map (fun kv => let st := snd kv in (fst kv, mkArmst 0 0%Z 0 (s_expo st) (s_succ st) (s_fail st))) (c_stats s)).

Definition reset_counts_ts (s : cf) : cf :=
  set_stats s (map (fun kv => let st := snd kv in (fst kv, mkArmst (s_sum st) (s_count st) (s_mean st) (s_expo st) 1 1)) (c_stats s)).

(* fit *)
Definition cf_fit (s : cf) (ds : list A) (rs : list R) : cf :=
  match c_kind s with
  | KGreedy =>
      let s1 := reset_status (set_exp (reset_sums s) (areset (c_exp s) 0)) in
      set_trained (cf_parallel_fit s1 ds rs) ds false
  | KPopularity =>
      let s1 := set_pyfloat (reset_status (set_exp (reset_sums s) (areset (c_exp s) 0))) false in
      popularity_normalize (set_trained (cf_parallel_fit s1 ds rs) ds false)
  | KUcb =>
      let s1 := reset_status (set_exp (reset_sums s) (areset (c_exp s) 0)) in
      let s2 := set_total s1 (Z.of_nat (length ds)) in
      set_trained (cf_parallel_fit s2 ds rs) ds false
  | KSoftmax =>
      let s1 := reset_status (reset_sums s) in
      set_trained (softmax_expectation (cf_parallel_fit s1 ds rs)) ds false
  | KThompson =>
      let rs' := binarize s ds rs in
      let s1 := reset_status (reset_counts_ts s) in
      set_trained (cf_parallel_fit s1 ds rs') ds false
  | KRandom => s
  end.

(* partial_fit *)
Definition cf_partial_fit (s : cf) (ds : list A) (rs : list R) : cf :=
  match c_kind s with
  | KGreedy => set_trained (cf_parallel_fit s ds rs) ds true
  | KPopularity =>
      popularity_normalize (set_pyfloat (popularity_raw_means (set_trained (cf_parallel_fit s ds rs) ds true)) false)
  | KUcb =>
      let s2 := set_total s (c_total s + Z.of_nat (length ds))%Z in
      set_trained (cf_parallel_fit s2 ds rs) ds true
  | KSoftmax => set_trained (softmax_expectation (cf_parallel_fit s ds rs)) ds true
  | KThompson => set_trained (cf_parallel_fit s ds (binarize s ds rs)) ds true
  | KRandom => s
  end.

(* BaseMAB.add_arm (the arm has already been appended to the shared arms list by MAB.add_arm) *)
Definition cf_add_arm (s : cf) (a : A) (bz : option (A -> R -> R)) : cf :=
  let s0 := set_arms s (c_arms s ++ [a]) in
  let s1 := set_exp s0 (aset aeqb (c_exp s0) a 0) in
  let s2 :=
    match c_kind s with
    | KGreedy | KPopularity | KUcb | KRandom => set_stats s1 (aset aeqb (c_stats s1) a armst0)
    | KSoftmax => softmax_expectation (set_stats s1 (aset aeqb (c_stats s1) a armst0))
    | KThompson =>
        let s' := match bz with Some f => set_binz s1 (Some f) | None => s1 end in
        set_stats s' (aset aeqb (c_stats s') a armst0)
    end in
  set_status s2 (aset aeqb (c_status s2) a status0).

(* BaseMAB.remove_arm (the arm has already been removed from the shared arms list) *)
Definition cf_remove_arm (s : cf) (a : A) : cf :=
  let s0 := set_arms s (lremove aeqb (c_arms s) a) in
  let s1 := set_exp s0 (apop aeqb (c_exp s0) a) in
  let s2 :=
    match c_kind s with
    | KGreedy | KUcb | KThompson | KRandom => set_stats s1 (apop aeqb (c_stats s1) a)
    | KPopularity => popularity_normalize (set_stats s1 (apop aeqb (c_stats s1) a))
    | KSoftmax => softmax_expectation (set_stats s1 (apop aeqb (c_stats s1) a))
    end in
  set_status s2 (apop aeqb (c_status s2) a).

(* ---- prediction ------------------------------------------------------------ *)

(* split a flat row-major answer into rows of width n *)
Fixpoint chunk_rows (rows : nat) (n : nat) (l : list R) : list (list R) :=
  match rows with
  | O => []
  | S r => firstn n l :: chunk_rows r n (skipn n l)
  end.

Definition hd0 (l : list R) : R := match l with x :: _ => x | [] => 0 end.

(* n successive scalar rng.rand() calls *)
Fixpoint draw_scalars (g : G) (n : nat) : list R * G :=
  match n with
  | O => ([], g)
  | S k => let (u, g1) := draw_r RG g (RqRand []) in
           let (rest, g2) := draw_scalars g1 k in (hd0 u :: rest, g2)
  end.

(* Thompson: one beta(size) request per key of arm_to_expectation, in key order *)
Fixpoint draw_betas (g : G) (stats : list (A * armst)) (keys : list A) (size : nat) : list (A * list R) * G :=
  match keys with
  | [] => ([], g)
  | a :: t => let st := aget_d aeqb armst0 stats a in
              let (v, g1) := draw_r RG g (RqBeta (s_succ st) (s_fail st) size) in
              let (rest, g2) := draw_betas g1 stats t size in ((a, v) :: rest, g2)
  end.

Definition msize (m : option nat) : nat := match m with None => 1%nat | Some k => k end.
Definition is_single (m : option nat) : bool := match m with None => true | Some k => Nat.eqb k 1 end.

(* predict_expectations(contexts) with m = None (no contexts) or Some (len(contexts)).
   Returns one dictionary per row, the new policy state and the new generator state. *)
Definition cf_predict_exp (s : cf) (g : G) (m : option nat) : list (list (A * R)) * cf * G :=
  let n := length (c_arms s) in
  match c_kind s with
  | KGreedy =>
      if is_single m then
        let (u, g1) := draw_r RG g (RqRand []) in
        if ltb N (hd0 u) (c_hp s) then
          let (vals, g2) := draw_scalars g1 n in ([combine (c_arms s) vals], s, g2)
        else ([c_exp s], s, g1)
      else
        let k := msize m in
        let (p, g1) := draw_r RG g (RqRand [k]) in
        let (rv, g2) := draw_r RG g1 (RqRand [k; n]) in
        (map (fun pr => if ltb N (fst pr) (c_hp s) then combine (c_arms s) (snd pr) else c_exp s)
             (combine p (chunk_rows k n rv)), s, g2)
  | KUcb => (if is_single m then [c_exp s] else repeat (c_exp s) (msize m), s, g)
  | KSoftmax | KPopularity =>
      let k := msize m in
      let alpha := map (fun v => add N v (eps_mach N)) (avals (c_exp s)) in
      let (dv, g1) := draw_r RG g (RqDirichlet alpha k) in
      (map (fun row => combine (akeys (c_exp s)) row) (chunk_rows k (length alpha) dv), s, g1)
  | KThompson =>
      let k := msize m in
      let (betas, g1) := draw_betas g (c_stats s) (akeys (c_exp s)) k in
      let rows := map (fun i => map (fun a => (a, nth i (aget_d aeqb [] betas a) 0)) (c_arms s)) (seq 0 k) in
      (rows, set_exp s (last rows (c_exp s)), g1)
  | KRandom =>
      let k := msize m in
      let (rv, g1) := draw_r RG g (RqRand [k; n]) in
      (map (fun row => combine (c_arms s) row) (chunk_rows k n rv), s, g1)
  end.

Definition cf_predict (s : cf) (g : G) (m : option nat) : list (option A) * cf * G :=
  let '(e, s', g') := cf_predict_exp s g m in (map argmax_first e, s', g').

End CF.
