(* Warm.v — BaseMAB._warm_start for the context-free policies (base_mab.py:
   _get_arm_distances' NaN handling, _get_distance_threshold, np.quantile(linear),
   _get_cold_arm_to_warm_arm, _copy_arms of each policy, status bookkeeping).
   The raw pairwise distance cdist(features[u], features[v], 'cosine') is an oracle
   input; everything the repository itself computes from it is modelled. *)
From Coq Require Import ZArith List Bool.
From MW Require Import Num Assoc Rng CF Matrix Lin.
Import ListNotations.

Section Warm.
Context {R A G : Type} (N : Num R) (aeqb : A -> A -> bool).

Definition self_distance : R := of_Z N 999999.
Definition is_nan (x : R) : bool := negb (eqb N x x).

(* distance_from_to : keys in the order of the caller's feature dictionary *)
Definition distance_table (keys : list A) (raw : A -> A -> R) : list (A * list (A * R)) :=
  map (fun u => (u, map (fun v => (v, if aeqb u v then self_distance
                                     else let d := raw u v in if is_nan d then self_distance else d)) keys)) keys.

(* Python min(): first minimum, replace only on strict < *)
Definition pymin (l : list R) : R :=
  match l with [] => zero N | h :: t => fold_left (fun b x => if ltb N x b then x else b) t h end.

Fixpoint insert_sorted (x : R) (l : list R) : list R :=
  match l with
  | [] => [x]
  | y :: t => if leb N x y then x :: y :: t else y :: insert_sorted x t
  end.
Definition sort (l : list R) : list R := fold_right insert_sorted [] l.

(* np.quantile(a, q) with the default 'linear' method, for a non-empty a *)
Definition quantile (a : list R) (q : R) : R :=
  let s := sort a in
  let n := length s in
  let vi := mul N (of_Z N (Z.of_nat n - 1)) q in
  if leb N (of_Z N (Z.of_nat n - 1)) vi then last s (zero N)
  else
    let lo := floor_nat N vi in
    let a0 := nth lo s (zero N) in
    let b0 := nth (S lo) s (zero N) in
    let t := sub N vi (of_Z N (Z.of_nat lo)) in
    let diff := sub N b0 a0 in
    if leb N (div N (one N) (of_Z N 2)) t then sub N b0 (mul N diff (sub N (one N) t))
    else add N a0 (mul N diff t).

(* _get_distance_threshold; None = np.quantile raises on an empty list *)
Definition distance_threshold (dt : list (A * list (A * R))) (q : R) : option R :=
  let closest := flat_map (fun row => let m := pymin (map snd (snd row)) in
                                      if eqb N m self_distance then [] else [m]) dt in
  match closest with [] => None | _ => Some (quantile closest q) end.

(* utils.argmin over an insertion-ordered dict *)
Definition argmin_first (d : list (A * R)) : option A :=
  match d with
  | [] => None
  | h :: t => Some (fst (fold_left (fun b kv => if ltb N (snd kv) (snd b) then kv else b) t h))
  end.

Definition trained_arms (s : @cf R A) : list A :=
  filter (fun a => st_trained (aget_d aeqb status0 (c_status s) a)) (c_arms s).
Definition cold_arms (s : @cf R A) : list A :=
  filter (fun a => let x := aget_d aeqb status0 (c_status s) a in
                   negb (st_trained x) && negb (st_warm x)) (c_arms s).

Definition dist_lookup (dt : list (A * list (A * R))) (u v : A) : R :=
  aget_d aeqb (zero N) (aget_d aeqb [] dt u) v.

(* _get_cold_arm_to_warm_arm, given the lists self.trained_arms and self.cold_arms *)
Definition cold_to_warm_gen (trained cold : list A) (dt : list (A * list (A * R))) (thr : R) : list (A * A) :=
  flat_map (fun c =>
     let cand := map (fun a => (a, dist_lookup dt c a)) trained in
     match argmin_first cand with
     | None => []
     | Some w => if leb N (dist_lookup dt c w) thr then [(c, w)] else []
     end) cold.

Definition cold_to_warm (s : @cf R A) (dt : list (A * list (A * R))) (thr : R) : list (A * A) :=
  cold_to_warm_gen (trained_arms s) (cold_arms s) dt thr.

(* _copy_arms *)
Definition copy_arm (s : @cf R A) (cw : A * A) : @cf R A :=
  let (c, w) := cw in
  let sw := aget_d aeqb (armst0 N) (c_stats s) w in
  let sc := aget_d aeqb (armst0 N) (c_stats s) c in
  let ew := aget_d aeqb (zero N) (c_exp s) w in
  match c_kind s with
  | KGreedy | KPopularity =>
      set_exp (set_stats s (aset aeqb (c_stats s) c (mkArmst (s_sum sw) (s_count sw) (s_mean sc) (s_expo sc) (s_succ sc) (s_fail sc))))
              (aset aeqb (c_exp s) c ew)
  | KUcb =>
      set_exp (set_stats s (aset aeqb (c_stats s) c (mkArmst (s_sum sw) (s_count sw) (s_mean sw) (s_expo sc) (s_succ sc) (s_fail sc))))
              (aset aeqb (c_exp s) c ew)
  | KSoftmax =>
      set_stats s (aset aeqb (c_stats s) c (mkArmst (s_sum sw) (s_count sw) (s_mean sw) (s_expo sc) (s_succ sc) (s_fail sc)))
  | KThompson =>
      set_stats s (aset aeqb (c_stats s) c (mkArmst (s_sum sc) (s_count sc) (s_mean sc) (s_expo sc) (s_succ sw) (s_fail sw)))
  | KRandom => s
  end.

Definition mark_warm (s : @cf R A) (cw : A * A) : @cf R A :=
  let (c, w) := cw in
  let x := aget_d aeqb status0 (c_status s) c in
  set_status s (aset aeqb (c_status s) c (mkStatus (st_trained x) true (Some w))).

(* warm_start; None = the call raises (empty quantile input) before any assignment *)
Definition cf_warm_start (s : @cf R A) (keys : list A) (raw : A -> A -> R) (q : R) : option (@cf R A) :=
  match c_kind s with
  | KRandom => Some s
  | _ =>
    let dt := distance_table keys raw in
    match distance_threshold dt q with
    | None => None
    | Some thr =>
        let m := cold_to_warm s dt thr in
        let s1 := fold_left copy_arm m s in
        let s2 := match c_kind s with KSoftmax => softmax_expectation N aeqb s1 | _ => s1 end in
        Some (fold_left mark_warm m s2)
    end
  end.

(* ---- linear policies ---------------------------------------------------------- *)
Definition lin_trained_arms (s : @lin R A G) : list A :=
  filter (fun a => st_trained (aget_d aeqb status0 (l_status s) a)) (l_arms s).
Definition lin_cold_arms (s : @lin R A G) : list A :=
  filter (fun a => let x := aget_d aeqb status0 (l_status s) a in
                   negb (st_trained x) && negb (st_warm x)) (l_arms s).

(* _Linear._copy_arms: deepcopy of the warm arm's regression object (its generator included) *)
Definition lin_copy_arm (g : G) (s : @lin R A G) (cw : A * A) : @lin R A G :=
  let (c, w) := cw in
  let mw := aget_d aeqb ridge_new (l_models s) w in
  let mw' := mkRidge (r_beta mw) (r_A mw) (r_Ainv mw) (r_Xty mw) (r_scaler mw)
                     (Some (match r_rng mw with Some g' => g' | None => g end)) in
  set_models s (aset aeqb (l_models s) c mw').

Definition lin_mark_warm (s : @lin R A G) (cw : A * A) : @lin R A G :=
  let (c, w) := cw in
  let x := aget_d aeqb status0 (l_status s) c in
  set_lstatus s (aset aeqb (l_status s) c (mkStatus (st_trained x) true (Some w))).

Definition lin_warm_start (s : @lin R A G) (g : G) (keys : list A) (raw : A -> A -> R) (q : R) : option (@lin R A G) :=
  let dt := distance_table keys raw in
  match distance_threshold dt q with
  | None => None
  | Some thr =>
      let m := cold_to_warm_gen (lin_trained_arms s) (lin_cold_arms s) dt thr in
      Some (fold_left lin_mark_warm m (fold_left (lin_copy_arm g) m s))
  end.

End Warm.
