(* WarmIdem.v — C13: repeating warm_start (same feature dictionary, same quantile) changes nothing.
   After the first call the arms it initialised are marked warm, so they are no longer cold; every arm that is
   still cold was left untouched because its nearest trained arm is farther than the threshold - and the
   trained arms, the distances and the threshold are the same in the second call. *)
From Coq Require Import ZArith List Bool Lia.
From MW Require Import Num NumLaws Assoc AssocFacts Rng CF CFInv Matrix Lin Warm WarmInv.
Import ListNotations.

Section WarmIdem.
Context {R A G : Type} (N : Num R) (aeqb : A -> A -> bool).
Hypothesis aeqb_spec : forall x y, aeqb x y = true <-> x = y.
Notation cf := (@cf R A).

Lemma softmax_expectation_idem (s : cf) : softmax_expectation N aeqb (softmax_expectation N aeqb s) = softmax_expectation N aeqb s.
Proof.
  unfold softmax_expectation, set_exp, set_stats; simpl. rewrite !map_map. simpl. reflexivity.
Qed.

(* status after marking *)
Lemma mark_warm_fold_status (m : list (A * A)) (s : cf) a :
  let st := aget_d aeqb status0 (c_status (fold_left (mark_warm aeqb) m s)) a in
  let st0 := aget_d aeqb status0 (c_status s) a in
  st_trained st = st_trained st0 /\ (In a (map fst m) -> In a (akeys (c_status s)) -> st_warm st = true) /\ (~ In a (map fst m) -> st = st0).
Proof.
  revert s. induction m as [|[c w] t IH]; intros s; cbn [fold_left map fst]; cbv zeta.
  - split; [reflexivity|]. split; [intros [] | reflexivity].
  - specialize (IH (mark_warm aeqb s (c, w))). cbv zeta in IH. destruct IH as (I1 & I2 & I3).
    assert (Hc : forall x, aget_d aeqb status0 (c_status (mark_warm aeqb s (c, w))) x =
                           if aeqb x c then mkStatus (st_trained (aget_d aeqb status0 (c_status s) c)) true (Some w) else aget_d aeqb status0 (c_status s) x).
    { intros x. unfold mark_warm; simpl. unfold aget_d. destruct (aeqb x c) eqn:E.
      - apply aeqb_spec in E. subst x. rewrite (aget_aset_same aeqb aeqb_spec). reflexivity.
      - rewrite (aget_aset_other aeqb aeqb_spec); [reflexivity|]. intros ->. rewrite (keqb_refl aeqb aeqb_spec) in E. discriminate. }
    assert (Hk : akeys (c_status (mark_warm aeqb s (c, w))) = akeys (c_status s) \/ True) by auto.
    split; [|split].
    + rewrite I1, Hc. destruct (aeqb a c) eqn:E; [apply aeqb_spec in E; subst; reflexivity | reflexivity].
    + intros Hin Hkey. destruct (keqb_dec aeqb aeqb_spec a c) as [->|Nac].
      * destruct (in_dec (keqb_dec aeqb aeqb_spec) c (map fst t)) as [Hit|Hnt].
        -- apply I2; [exact Hit|]. unfold mark_warm; simpl. rewrite (akeys_aset_in aeqb aeqb_spec); exact Hkey.
        -- rewrite (I3 Hnt), Hc, (keqb_refl aeqb aeqb_spec). reflexivity.
      * destruct Hin as [E|Hin]; [congruence|]. apply I2; [exact Hin|].
        unfold mark_warm; simpl. destruct (in_dec (keqb_dec aeqb aeqb_spec) c (akeys (c_status s))) as [Hc1|Hc2].
        -- rewrite (akeys_aset_in aeqb aeqb_spec); assumption.
        -- rewrite (akeys_aset_notin aeqb aeqb_spec) by exact Hc2. apply in_or_app. left. exact Hkey.
    + intros Hnot. assert (Hnt : ~ In a (map fst t)) by (intros X; apply Hnot; right; exact X).
      rewrite (I3 Hnt). rewrite Hc. destruct (aeqb a c) eqn:E; [apply aeqb_spec in E; subst; exfalso; apply Hnot; left; reflexivity | reflexivity].
Qed.

Lemma copy_arm_status (s : cf) cw : c_status (copy_arm N aeqb s cw) = c_status s /\ c_arms (copy_arm N aeqb s cw) = c_arms s.
Proof. destruct cw as [c w]. unfold copy_arm. destruct (c_kind s); simpl; auto. Qed.
Lemma fold_copy_status (m : list (A * A)) (s : cf) :
  c_status (fold_left (copy_arm N aeqb) m s) = c_status s /\ c_arms (fold_left (copy_arm N aeqb) m s) = c_arms s.
Proof.
  revert s. induction m as [|cw t IH]; intros s; simpl; [auto|]. destruct (IH (copy_arm N aeqb s cw)) as [I1 I2].
  destruct (copy_arm_status s cw) as [C1 C2]. split; congruence.
Qed.
Lemma fold_mark_arms (m : list (A * A)) (s : cf) : c_arms (fold_left (mark_warm aeqb) m s) = c_arms s.
Proof. revert s. induction m as [|[c w] t IH]; intros s; simpl; [reflexivity|]. rewrite IH. reflexivity. Qed.

(* a pair list produced for one cold arm is empty or is that arm with its donor *)
Definition wbody (trained : list A) (dt : list (A * list (A * R))) (thr : R) (c : A) : list (A * A) :=
  match argmin_first N (map (fun a => (a, dist_lookup N aeqb dt c a)) trained) with
  | None => []
  | Some w => if leb N (dist_lookup N aeqb dt c w) thr then [(c, w)] else []
  end.

Lemma cold_to_warm_gen_body trained cold dt thr : cold_to_warm_gen N aeqb trained cold dt thr = flat_map (wbody trained dt thr) cold.
Proof. reflexivity. Qed.

Lemma wbody_cases trained dt thr c : wbody trained dt thr c = [] \/ exists w, wbody trained dt thr c = [(c, w)].
Proof. unfold wbody. destruct (argmin_first N _) as [w|]; [|auto]. destruct (leb N _ thr); [right; eexists; reflexivity | auto]. Qed.

Theorem cold_to_warm_second_call_empty (trained cold : list A) dt thr :
  let m := cold_to_warm_gen N aeqb trained cold dt thr in
  cold_to_warm_gen N aeqb trained (filter (fun a => negb (amem aeqb a (map fst m))) cold) dt thr = [].
Proof.
  intros m. unfold m. rewrite !cold_to_warm_gen_body.
  set (mm := flat_map (wbody trained dt thr) cold).
  assert (Hall : forall c, In c cold -> ~ In c (map fst mm) -> wbody trained dt thr c = []).
  { intros c Hc Hn. destruct (wbody_cases trained dt thr c) as [E|[w E]]; [exact E|].
    exfalso. apply Hn. apply in_map_iff. exists (c, w). split; [reflexivity|]. unfold mm. apply in_flat_map. exists c. split; [exact Hc | rewrite E; left; reflexivity]. }
  assert (Gen : forall l, (forall c, In c l -> In c cold) ->
     flat_map (wbody trained dt thr) (filter (fun a => negb (amem aeqb a (map fst mm))) l) = []).
  { induction l as [|c l IH]; intros Hsub; simpl; [reflexivity|].
    destruct (amem aeqb c (map fst mm)) eqn:Em; simpl.
    - apply IH. intros x Hx. apply Hsub. right. exact Hx.
    - apply (amem_false aeqb aeqb_spec) in Em. rewrite (Hall c (Hsub c (or_introl eq_refl)) Em). simpl. apply IH. intros x Hx. apply Hsub. right. exact Hx. }
  apply Gen. auto.
Qed.

Lemma filter_filter {X} (f g : X -> bool) (l : list X) : filter f (filter g l) = filter (fun x => g x && f x) l.
Proof. induction l as [|x l IH]; simpl; [reflexivity|]. destruct (g x); simpl; [destruct (f x); rewrite IH; reflexivity | exact IH]. Qed.

(* what the second call sees: same trained arms, cold arms minus the ones just initialised *)
Lemma warm_started_lists (s : cf) (m : list (A * A)) (s2 : cf) :
  keys_ok s -> c_status s2 = c_status s -> c_arms s2 = c_arms s ->
  (forall c, In c (map fst m) -> In c (c_arms s)) ->
  let s' := fold_left (mark_warm aeqb) m s2 in
  trained_arms aeqb s' = trained_arms aeqb s /\
  cold_arms aeqb s' = filter (fun a => negb (amem aeqb a (map fst m))) (cold_arms aeqb s).
Proof.
  intros (Hn & He & Hst & Hs) E1 E2 Hsub s'. unfold trained_arms, cold_arms. unfold s'. rewrite fold_mark_arms, E2.
  split.
  - apply filter_ext. intros a. destruct (mark_warm_fold_status m s2 a) as (T & _ & _). rewrite T, E1. reflexivity.
  - rewrite filter_filter. apply filter_ext_in. intros a Ha.
    destruct (mark_warm_fold_status m s2 a) as (T & W & U).
    destruct (amem aeqb a (map fst m)) eqn:Em.
    + apply (amem_true aeqb aeqb_spec) in Em. rewrite T. rewrite W; [|exact Em | rewrite E1, Hst; exact Ha].
      simpl. rewrite !andb_false_r. reflexivity.
    + apply (amem_false aeqb aeqb_spec) in Em. rewrite (U Em), E1. simpl. rewrite andb_true_r. reflexivity.
Qed.

(* C13: a second warm_start with the same arguments finds nothing to do *)
Theorem warm_start_second_call_finds_no_pairs (s s1 : cf) keys raw q thr :
  keys_ok s -> c_kind s <> KRandom ->
  distance_threshold N (distance_table N aeqb keys raw) q = Some thr ->
  cf_warm_start N aeqb s keys raw q = Some s1 ->
  cold_to_warm N aeqb s1 (distance_table N aeqb keys raw) thr = [].
Proof.
  intros Hk Hnr Hthr Hw. unfold cf_warm_start in Hw. rewrite Hthr in Hw.
  set (dt := distance_table N aeqb keys raw) in *.
  set (m := cold_to_warm N aeqb s dt thr) in *.
  assert (Hsub : forall c, In c (map fst m) -> In c (c_arms s)).
  { intros c Hc. apply in_map_iff in Hc. destruct Hc as [[c' w] [<- Hin]]. simpl.
    apply (cold_arms_in aeqb s). apply (proj1 (cold_to_warm_gen_fst N aeqb _ _ _ _ _ _ Hin)). }
  destruct (fold_copy_status m s) as [C1 C2].
  assert (Hs1 : exists s2, c_status s2 = c_status s /\ c_arms s2 = c_arms s /\ s1 = fold_left (mark_warm aeqb) m s2).
  { destruct (c_kind s) eqn:Ek; try congruence; injection Hw as <-;
      try solve [exists (fold_left (copy_arm N aeqb) m s); repeat split; auto].
    exists (softmax_expectation N aeqb (fold_left (copy_arm N aeqb) m s)). split; [|split; [|reflexivity]].
    - unfold softmax_expectation; simpl. exact C1.
    - unfold softmax_expectation; simpl. exact C2. }
  destruct Hs1 as (s2 & E1 & E2 & ->).
  destruct (warm_started_lists s m s2 Hk E1 E2 Hsub) as [T C].
  unfold cold_to_warm. rewrite T, C. apply cold_to_warm_second_call_empty.
Qed.

Lemma fold_copy_kind (m : list (A * A)) (s : cf) : c_kind (fold_left (copy_arm N aeqb) m s) = c_kind s.
Proof. revert s. induction m as [|cw t IH]; intros s; simpl; [reflexivity|]. rewrite IH. apply copy_arm_kind. Qed.
Lemma fold_mark_kind (m : list (A * A)) (s : cf) : c_kind (fold_left (mark_warm aeqb) m s) = c_kind s.
Proof. revert s. induction m as [|cw t IH]; intros s; simpl; [reflexivity|]. rewrite IH. apply mark_warm_kind. Qed.

Lemma softmax_mark_comm (s : cf) cw : softmax_expectation N aeqb (mark_warm aeqb s cw) = mark_warm aeqb (softmax_expectation N aeqb s) cw.
Proof. destruct cw as [c w]. reflexivity. Qed.
Lemma softmax_fold_mark_comm (m : list (A * A)) (s : cf) :
  softmax_expectation N aeqb (fold_left (mark_warm aeqb) m s) = fold_left (mark_warm aeqb) m (softmax_expectation N aeqb s).
Proof. revert s. induction m as [|cw t IH]; intros s; simpl; [reflexivity|]. rewrite IH, softmax_mark_comm. reflexivity. Qed.

Theorem cf_warm_start_idempotent (s s1 : cf) keys raw q :
  keys_ok s -> cf_warm_start N aeqb s keys raw q = Some s1 -> cf_warm_start N aeqb s1 keys raw q = Some s1.
Proof.
  intros Hk Hw.
  destruct (c_kind s) eqn:Ek.
  6: { unfold cf_warm_start in *. rewrite Ek in Hw. injection Hw as <-. rewrite Ek. reflexivity. }
  all: assert (Hnr : c_kind s <> KRandom) by congruence;
    pose proof Hw as Hw0; unfold cf_warm_start in Hw; rewrite Ek in Hw;
    destruct (distance_threshold N (distance_table N aeqb keys raw) q) as [thr|] eqn:Hthr; [|discriminate];
    pose proof (warm_start_second_call_finds_no_pairs s s1 keys raw q thr Hk Hnr Hthr Hw0) as Hm;
    injection Hw as Hs1;
    assert (Ek1 : c_kind s1 = c_kind s) by (rewrite <- Hs1, fold_mark_kind; try (unfold softmax_expectation; simpl); rewrite fold_copy_kind; reflexivity);
    unfold cf_warm_start; rewrite Ek1, Ek, Hthr, Hm; simpl; try reflexivity.
  (* Softmax: the expectations are recomputed from the same means *)
  rewrite <- Hs1 at 1. rewrite softmax_fold_mark_comm, softmax_expectation_idem. rewrite Hs1. reflexivity.
Qed.

(* C13: the pairs warm_start acts on grow with the threshold (the threshold is the q-quantile of the closest distances) *)
Theorem warm_pairs_monotone_in_threshold (L : NumLaws N) (trained cold : list A) dt thr thr' :
  leb N thr thr' = true ->
  incl (cold_to_warm_gen N aeqb trained cold dt thr) (cold_to_warm_gen N aeqb trained cold dt thr').
Proof.
  intros Hle cw Hin. rewrite cold_to_warm_gen_body in *. apply in_flat_map in Hin. destruct Hin as [c [Hc Hb]].
  apply in_flat_map. exists c. split; [exact Hc|]. unfold wbody in *.
  destruct (argmin_first N _) as [w|]; [|exact Hb].
  destruct (leb N (dist_lookup N aeqb dt c w) thr) eqn:E1; [|contradiction].
  rewrite (L_leb_trans N L _ _ _ E1 Hle). exact Hb.
Qed.

End WarmIdem.
