# c19_worker.py <job.json> : restores pickled bandits in a FRESH interpreter and runs their continuations.
# job: [{"pickle": path, "case": case, "ops": continuation}] ; prints {"outs": [[...], ...]}
import sys, json, os, pickle
sys.path.insert(0, os.path.dirname(os.path.abspath(__file__)))
import mwh, props

def main():
    jobs = json.load(open(sys.argv[1]))
    res = []
    for j in jobs:
        case = props.fix_case(j["case"])
        label, inv = mwh.make_inv(case)
        try:
            with open(j["pickle"], "rb") as f:
                mab = pickle.load(f)
            cont = props.fix_case(dict(case, ops=j["ops"]))["ops"]
            res.append([list(mwh.apply_op(mab, o, label, inv, case)) for o in cont])
        except Exception as e:
            res.append([["worker_error", type(e).__name__, str(e)[:200]]])
    print(json.dumps({"outs": res}, default=str))

main()
