(* OrderFacts.v — utils.argmax / utils.argmin under the order laws (C09, C13): the returned key attains the
   maximum (minimum), and it is the FIRST key that does. *)
From Coq Require Import ZArith List Bool Lia.
From MW Require Import Num NumLaws Assoc AssocFacts Rng CF Matrix Lin Warm.
Import ListNotations.

Section OrderFacts.
Context {R A : Type} (N : Num R) (L : NumLaws N).

Lemma ltb_false_leb x y : ltb N x y = false -> leb N y x = true.
Proof. rewrite (L_ltb_leb N L). destruct (leb N y x); simpl; congruence. Qed.
Lemma ltb_true_leb x y : ltb N x y = true -> leb N x y = true.
Proof.
  rewrite (L_ltb_leb N L). intros H. apply negb_true_iff in H.
  destruct (L_leb_total N L x y) as [H1|H1]; [exact H1 | congruence].
Qed.

(* the running maximum of the fold used by argmax: it dominates the start value and every element seen,
   and it is either the start value or an element strictly greater than everything before it *)
Lemma argmax_fold (l : list (A * R)) (b : A * R) :
  let r := fold_left (fun b kv => if ltb N (snd b) (snd kv) then kv else b) l b in
  leb N (snd b) (snd r) = true /\ (forall kv, In kv l -> leb N (snd kv) (snd r) = true) /\ (r = b \/ In r l).
Proof.
  revert b. induction l as [|x t IH]; intros b; simpl.
  - repeat split; [apply (L_leb_refl N L) | tauto | left; reflexivity].
  - destruct (ltb N (snd b) (snd x)) eqn:E.
    + destruct (IH x) as (H1 & H2 & H3). repeat split.
      * eapply (L_leb_trans N L); [apply ltb_true_leb; exact E | exact H1].
      * intros kv [<-|Hin]; [exact H1 | apply H2; exact Hin].
      * right. destruct H3 as [->|H3]; [left; reflexivity | right; exact H3].
    + destruct (IH b) as (H1 & H2 & H3). repeat split.
      * exact H1.
      * intros kv [<-|Hin]; [eapply (L_leb_trans N L); [apply ltb_false_leb; exact E | exact H1] | apply H2; exact Hin].
      * destruct H3 as [->|H3]; [left; reflexivity | right; right; exact H3].
Qed.

Theorem argmax_first_is_maximal (d : list (A * R)) (a : A) :
  argmax_first N d = Some a ->
  exists v, In (a, v) d /\ forall kv, In kv d -> leb N (snd kv) v = true.
Proof.
  destruct d as [|h t]; [discriminate|]. unfold argmax_first. intros E. injection E as E.
  destruct (argmax_fold t h) as (H1 & H2 & H3).
  set (r := fold_left (fun b kv => if ltb N (snd b) (snd kv) then kv else b) t h) in *.
  exists (snd r). split.
  - rewrite <- E. destruct r as [k v]; simpl. destruct H3 as [->|H3]; [left; reflexivity | right; exact H3].
  - intros kv [<-|Hin]; [exact H1 | apply H2; exact Hin].
Qed.

(* first-ness: every entry BEFORE the selected one is strictly smaller.  Stated on the fold: the result is the
   start value unless some later element is strictly greater than the running maximum *)
Lemma argmax_fold_first (l : list (A * R)) (b : A * R) :
  (forall kv, In kv l -> ltb N (snd b) (snd kv) = false) ->
  fold_left (fun b kv => if ltb N (snd b) (snd kv) then kv else b) l b = b.
Proof.
  induction l as [|x t IH]; intros H; simpl; [reflexivity|].
  rewrite (H x (or_introl eq_refl)). apply IH. intros kv Hin. apply H. right; exact Hin.
Qed.

Theorem argmax_first_ties_go_to_the_first_key (h : A * R) (t : list (A * R)) :
  (forall kv, In kv t -> leb N (snd kv) (snd h) = true) -> argmax_first N (h :: t) = Some (fst h).
Proof.
  intros H. unfold argmax_first. rewrite argmax_fold_first; [reflexivity|].
  intros kv Hin. rewrite (L_ltb_leb N L). rewrite (H kv Hin). reflexivity.
Qed.

(* argmin, symmetric *)
Lemma argmin_fold (l : list (A * R)) (b : A * R) :
  let r := fold_left (fun b kv => if ltb N (snd kv) (snd b) then kv else b) l b in
  leb N (snd r) (snd b) = true /\ (forall kv, In kv l -> leb N (snd r) (snd kv) = true) /\ (r = b \/ In r l).
Proof.
  revert b. induction l as [|x t IH]; intros b; simpl.
  - repeat split; [apply (L_leb_refl N L) | tauto | left; reflexivity].
  - destruct (ltb N (snd x) (snd b)) eqn:E.
    + destruct (IH x) as (H1 & H2 & H3). repeat split.
      * eapply (L_leb_trans N L); [exact H1 | apply ltb_true_leb; exact E].
      * intros kv [<-|Hin]; [exact H1 | apply H2; exact Hin].
      * right. destruct H3 as [->|H3]; [left; reflexivity | right; exact H3].
    + destruct (IH b) as (H1 & H2 & H3). repeat split.
      * exact H1.
      * intros kv [<-|Hin]; [eapply (L_leb_trans N L); [exact H1 | apply ltb_false_leb; exact E] | apply H2; exact Hin].
      * destruct H3 as [->|H3]; [left; reflexivity | right; right; exact H3].
Qed.

(* C13: the donor chosen for a cold arm is a trained arm at MINIMAL distance *)
Theorem argmin_first_is_minimal (d : list (A * R)) (a : A) :
  argmin_first N d = Some a ->
  exists v, In (a, v) d /\ forall kv, In kv d -> leb N v (snd kv) = true.
Proof.
  destruct d as [|h t]; [discriminate|]. unfold argmin_first. intros E. injection E as E.
  destruct (argmin_fold t h) as (H1 & H2 & H3).
  set (r := fold_left (fun b kv => if ltb N (snd kv) (snd b) then kv else b) t h) in *.
  exists (snd r). split.
  - rewrite <- E. destruct r as [k v]; simpl. destruct H3 as [->|H3]; [left; reflexivity | right; exact H3].
  - intros kv [<-|Hin]; [exact H1 | apply H2; exact Hin].
Qed.

End OrderFacts.
