(* TreeLeaf.v — C12: the value TreeBandit reports for an arm is the context-free statistic (C01) of exactly the
   rewards filed under the leaf the query falls into: the leaf policy is a freshly constructed policy over the single
   arm, fitted on that reward list.  UCB1: mean + alpha*sqrt(2 ln n / n) with n the size of the leaf. *)
From Coq Require Import ZArith List Bool Lia.
From MW Require Import Num Assoc AssocFacts Rng CF CFInv CFSpec Matrix Lin Nbr Clu Tree.
Import ListNotations.

Section TreeLeaf.
Context {R A G : Type} (N : Num R) (aeqb : A -> A -> bool) (RG : RngOps R G).
Hypothesis aeqb_spec : forall x y, aeqb x y = true <-> x = y.

Lemma arm_rewards_repeat a (rs : list R) : arm_rewards aeqb a (repeat a (length rs)) rs = rs.
Proof.
  unfold arm_rewards. induction rs as [|r rs IH]; simpl; [reflexivity|].
  rewrite (keqb_refl aeqb aeqb_spec). simpl. f_equal. exact IH.
Qed.

(* the leaf policy of a UCB1 TreeBandit after its fit *)
Theorem leaf_policy_ucb (hp : R) bz (a : A) (rewards : list R) :
  let l1 := cf_fit N aeqb (cf_init N KUcb hp bz [a]) (repeat a (length rewards)) rewards in
  c_total l1 = Z.of_nat (length rewards) /\ c_hp l1 = hp /\ ucb_arm_ok N aeqb l1 [rewards] a.
Proof.
  intros l1.
  assert (Hk0 : keys_ok (cf_init N KUcb hp bz [a])) by (apply keys_ok_init; repeat constructor; intros []).
  assert (H0 : forall a', In a' (c_arms (cf_init N KUcb hp bz [a])) -> ucb_arm_ok N aeqb (cf_init N KUcb hp bz [a]) [] a').
  { intros a' [<-|[]]. unfold ucb_arm_ok, cf_init; simpl. rewrite (keqb_refl aeqb aeqb_spec).
    eexists; split; [reflexivity|]. simpl. unfold spec_mean, spec_ucb; simpl. auto. }
  pose proof (ucb_stat N aeqb aeqb_spec (cf_init N KUcb hp bz [a]) [OFit (repeat a (length rewards)) rewards] eq_refl Hk0 H0 I) as H.
  cbv zeta in H. simpl cf_run_rev in H. fold l1 in H. destruct H as (_ & _ & Hhp & Htot & Harm).
  split; [rewrite Htot; simpl; rewrite repeat_length; reflexivity|]. split; [exact Hhp|].
  assert (Ha : In a (c_arms l1)) by (unfold l1; rewrite (proj2 (proj2 (proj2 (proj2 (cf_fit_cfg N aeqb _ _ _))))); left; reflexivity).
  specialize (Harm a Ha). simpl in Harm. rewrite arm_rewards_repeat in Harm. exact Harm.
Qed.

(* what TreeBandit reports for the arm: the UCB1 value of the leaf's rewards, without touching the generator *)
Theorem leaf_expectation_ucb (s : @tree R A) g a (rewards : list R) :
  c_kind (t_lp s) = KUcb ->
  leaf_expectation N aeqb RG s g a rewards =
  (spec_ucb N (c_hp (t_lp s)) (Z.of_nat (length rewards)) [rewards], g).
Proof.
  intros Ek. unfold leaf_expectation. rewrite Ek.
  set (bz := if t_kf_rebin s then c_binz (t_lp s) else None).
  destruct (leaf_policy_ucb (c_hp (t_lp s)) bz a rewards) as (Ht & Hh & st & Hs & _ & _ & _ & He).
  set (l1 := cf_fit N aeqb (cf_init N KUcb (c_hp (t_lp s)) bz [a]) (repeat a (length rewards)) rewards) in *.
  assert (Ek1 : c_kind l1 = KUcb) by (unfold l1; rewrite (proj1 (cf_fit_cfg N aeqb _ _ _)); reflexivity).
  unfold cf_predict_exp. rewrite Ek1. cbn [is_single hd]. unfold aget_d. rewrite He, Hh, Ht. reflexivity.
Qed.

(* Thompson Sampling leaves (documented behaviour: the leaf policy has no binarizer): one Beta draw whose parameters are
   1 + (sum of the leaf's rewards) and 1 + (size of the leaf - that sum) *)
Theorem leaf_policy_thompson (a : A) (rewards : list R) :
  let l1 := cf_fit N aeqb (cf_init N KThompson (zero N) None [a]) (repeat a (length rewards)) rewards in
  ts_arm_ok N aeqb l1 [rewards] a.
Proof.
  intros l1.
  assert (Hk0 : keys_ok (cf_init N KThompson (zero N) None [a])) by (apply keys_ok_init; repeat constructor; intros []).
  assert (H0 : forall a', In a' (c_arms (cf_init N KThompson (zero N) None [a])) -> ts_arm_ok N aeqb (cf_init N KThompson (zero N) None [a]) [] a').
  { intros a' [<-|[]]. unfold ts_arm_ok, cf_init; simpl. rewrite (keqb_refl aeqb aeqb_spec). eexists; split; [reflexivity|]. simpl. auto. }
  pose proof (thompson_params N aeqb aeqb_spec (cf_init N KThompson (zero N) None [a]) [OFit (repeat a (length rewards)) rewards]
                eq_refl eq_refl Hk0 H0 I I) as H.
  cbv zeta in H. simpl cf_run_rev in H. fold l1 in H. destruct H as (_ & _ & _ & Harm).
  assert (Ha : In a (c_arms l1)) by (unfold l1; rewrite (proj2 (proj2 (proj2 (proj2 (cf_fit_cfg N aeqb _ _ _))))); left; reflexivity).
  specialize (Harm a Ha). simpl in Harm. rewrite arm_rewards_repeat in Harm. exact Harm.
Qed.

Theorem leaf_expectation_thompson (s : @tree R A) g a (rewards : list R) :
  c_kind (t_lp s) = KThompson -> t_kf_rebin s = false ->
  leaf_expectation N aeqb RG s g a rewards =
  (let '(v, g1) := draw_r RG g (RqBeta (spec_succ N [rewards]) (spec_fail N [rewards]) 1) in (nth 0 v (zero N), g1)).
Proof.
  intros Ek Hr. unfold leaf_expectation. rewrite Ek, Hr.
  destruct (leaf_policy_thompson a rewards) as (st & Hs & H1 & H2).
  replace (c_hp (t_lp s)) with (c_hp (t_lp s)) by reflexivity.
  set (l1 := cf_fit N aeqb (cf_init N KThompson (c_hp (t_lp s)) None [a]) (repeat a (length rewards)) rewards).
  (* the hyper-parameter of the template is irrelevant for Thompson Sampling; re-do the statistics for this l1 *)
  assert (Hl1 : exists st', aget aeqb (c_stats l1) a = Some st' /\ s_succ st' = spec_succ N [rewards] /\ s_fail st' = spec_fail N [rewards]).
  { assert (Hk0 : keys_ok (cf_init N KThompson (c_hp (t_lp s)) None [a])) by (apply keys_ok_init; repeat constructor; intros []).
    assert (H0 : forall a', In a' (c_arms (cf_init N KThompson (c_hp (t_lp s)) None [a])) -> ts_arm_ok N aeqb (cf_init N KThompson (c_hp (t_lp s)) None [a]) [] a').
    { intros a' [<-|[]]. unfold ts_arm_ok, cf_init; simpl. rewrite (keqb_refl aeqb aeqb_spec). eexists; split; [reflexivity|]. simpl. auto. }
    pose proof (thompson_params N aeqb aeqb_spec (cf_init N KThompson (c_hp (t_lp s)) None [a]) [OFit (repeat a (length rewards)) rewards]
                  eq_refl eq_refl Hk0 H0 I I) as H.
    cbv zeta in H. simpl cf_run_rev in H. fold l1 in H. destruct H as (_ & _ & _ & Harm).
    assert (Ha : In a (c_arms l1)) by (unfold l1; rewrite (proj2 (proj2 (proj2 (proj2 (cf_fit_cfg N aeqb _ _ _))))); left; reflexivity).
    specialize (Harm a Ha). simpl in Harm. rewrite arm_rewards_repeat in Harm. exact Harm. }
  destruct Hl1 as (st' & Hs' & S1 & S2).
  assert (Ek1 : c_kind l1 = KThompson) by (unfold l1; rewrite (proj1 (cf_fit_cfg N aeqb _ _ _)); reflexivity).
  assert (Hkeys : akeys (c_exp l1) = [a]).
  { assert (Hk1 : keys_ok l1) by (unfold l1; apply (cf_fit_keys_ok N aeqb aeqb_spec); apply keys_ok_init; repeat constructor; intros []).
    destruct Hk1 as (_ & He & _). rewrite He. unfold l1. rewrite (proj2 (proj2 (proj2 (proj2 (cf_fit_cfg N aeqb _ _ _))))). reflexivity. }
  assert (Harms : c_arms l1 = [a]) by (unfold l1; rewrite (proj2 (proj2 (proj2 (proj2 (cf_fit_cfg N aeqb _ _ _))))); reflexivity).
  unfold cf_predict_exp. rewrite Ek1, Hkeys, Harms. cbn [msize draw_betas]. unfold aget_d at 1 2. rewrite Hs', S1, S2.
  destruct (draw_r RG g (RqBeta (spec_succ N [rewards]) (spec_fail N [rewards]) 1)) as [v g1].
  cbn [seq map hd]. unfold aget_d. cbn [aget]. rewrite (keqb_refl aeqb aeqb_spec). reflexivity.
Qed.

(* EpsilonGreedy leaves: the leaf policy holds the mean of the leaf's rewards; predict_expectations draws the exploration
   number from the generator the leaf policies use, and with probability epsilon answers with one more uniform draw *)
Theorem leaf_policy_greedy (hp : R) bz (a : A) (rewards : list R) :
  let l1 := cf_fit N aeqb (cf_init N KGreedy hp bz [a]) (repeat a (length rewards)) rewards in
  c_hp l1 = hp /\ c_arms l1 = [a] /\ greedy_arm_ok N aeqb l1 [rewards] a.
Proof.
  intros l1.
  assert (Hk0 : keys_ok (cf_init N KGreedy hp bz [a])) by (apply keys_ok_init; repeat constructor; intros []).
  assert (H0 : forall a', In a' (c_arms (cf_init N KGreedy hp bz [a])) -> greedy_arm_ok N aeqb (cf_init N KGreedy hp bz [a]) [] a').
  { intros a' [<-|[]]. unfold greedy_arm_ok, cf_init; simpl. rewrite (keqb_refl aeqb aeqb_spec).
    eexists; split; [reflexivity|]. simpl. unfold spec_mean; simpl. auto. }
  pose proof (greedy_stat N aeqb aeqb_spec (cf_init N KGreedy hp bz [a]) [OFit (repeat a (length rewards)) rewards] eq_refl Hk0 H0 I) as H.
  cbv zeta in H. simpl cf_run_rev in H. fold l1 in H. destruct H as (_ & _ & Harm).
  assert (Hcfg := cf_fit_cfg N aeqb (cf_init N KGreedy hp bz [a]) (repeat a (length rewards)) rewards). fold l1 in Hcfg.
  destruct Hcfg as (_ & Hhp & _ & _ & Harms).
  split; [exact Hhp|]. split; [exact Harms|].
  assert (Ha : In a (c_arms l1)) by (rewrite Harms; left; reflexivity).
  specialize (Harm a Ha). simpl in Harm. rewrite arm_rewards_repeat in Harm. exact Harm.
Qed.

Theorem leaf_expectation_greedy (s : @tree R A) g a (rewards : list R) :
  c_kind (t_lp s) = KGreedy ->
  leaf_expectation N aeqb RG s g a rewards =
  (let (u, g1) := draw_r RG g (RqRand []) in
   if ltb N (hd0 N u) (c_hp (t_lp s))
   then let (v, g2) := draw_r RG g1 (RqRand []) in (hd0 N v, g2)
   else (spec_mean N [rewards], g1)).
Proof.
  intros Ek. unfold leaf_expectation. rewrite Ek.
  set (bz := if t_kf_rebin s then c_binz (t_lp s) else None).
  destruct (leaf_policy_greedy (c_hp (t_lp s)) bz a rewards) as (Hh & Harms & st & Hs & _ & _ & He).
  set (l1 := cf_fit N aeqb (cf_init N KGreedy (c_hp (t_lp s)) bz [a]) (repeat a (length rewards)) rewards) in *.
  assert (Ek1 : c_kind l1 = KGreedy) by (unfold l1; rewrite (proj1 (cf_fit_cfg N aeqb _ _ _)); reflexivity).
  unfold cf_predict_exp. rewrite Ek1, Harms, Hh. cbn [is_single length].
  destruct (draw_r RG g (RqRand [])) as [u g1].
  destruct (ltb N (hd0 N u) (c_hp (t_lp s))).
  - cbn [draw_scalars]. destruct (draw_r RG g1 (RqRand [])) as [v g2]. cbn [combine hd].
    unfold aget_d. cbn [aget]. rewrite (keqb_refl aeqb aeqb_spec). reflexivity.
  - cbn [hd]. unfold aget_d. rewrite He. reflexivity.
Qed.

End TreeLeaf.
