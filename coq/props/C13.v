(*  C13 — warm_start only initialises cold arms, from their nearest trained arm.
   
    PROVED for the context-free policies, every state, every feature dictionary, every quantile:
     * every (arm, donor) pair warm_start acts on: the arm is cold (never observed since the last fit and not
       warm), the donor is a TRAINED arm, and the donor's distance does not exceed the quantile threshold;
     * an arm that is not cold - trained or warm-started before - keeps its statistics, expectation and status
       (for Softmax the derived shares are re-normalised; its sums, counts and means are covered likewise);
     * the dictionary invariants (C08) and the unused-field invariant survive warm_start, so everything proved
       about later calls (C01, C07) applies after a warm start as well.
     * utils.argmin (which picks the donor) returns a key attaining the minimum distance, the first such key in
       trained-arm order (under the order laws);
     * repeating the call (same features, same quantile) changes nothing: the second call finds no (arm, donor) pair and
       returns the state it was given (cf_warm_start_idempotent; Softmax re-derives the same shares);
     * the set of pairs grows with the threshold (the threshold is np.quantile of the closest distances at q);
     * np.quantile (linear interpolation, as the model computes it: sort, index (n-1)*q, floor, interpolate with numpy's two formulas) is
       MONOTONE in q for q >= 0 (QuantileMono.v; ordered-field laws plus the specification of floor, met by the rationals), hence the threshold
       grows with distance_quantile and a larger quantile can only ADD (cold arm, donor) pairs (warm_pairs_monotone_in_quantile).
     * "since the most recent fit" (FitStatus.v): after fit(D) every current arm is trained exactly when it occurs in D and NO arm is warm, whatever it was
       before (context-free policies: every state with consistent dictionaries; linear policies: every accepted fit), so cold_arms after fit(D) is exactly the
       list of arms that do not occur in D and a later warm_start treats them as cold again.
    The laws are also executed on the implementation by the warm-start relation with an independently recomputed threshold. *)
From Coq Require Import List ZArith Bool Arith QArith Qcanon Permutation.
From MW Require Import Num Assoc AssocFacts Rng Par CF CFInv CFClean CFForget CFSpec Matrix Lin Warm WarmInv Nbr NbrFacts NbrIndep LshFacts Clu Tree CellFacts Mab FacadeCF FacadeArms MoreFacts NumLaws CFAlg Sim Extra QcInst OrderFacts ExpIrrel LinInv FacadeLin LpInv NbrInv CluTreeInv FacadeAll ToyFacts C09All C10All LinForget LinSim MatrixFacts GaussJordan LinSpec NbrIndepGen CluIndep C17Lin WarmIdem C14More LshScale TreeLeaf Rename PopSpec CopyFacts StatFacts CluBatch LinWarm QuantileMono FitStatus WarmDonor.
Import ListNotations.

Theorem C13_status_after_fit_trained_iff_observed_and_never_warm :
  forall (R A : Type) (N : Num R) (aeqb : A -> A -> bool),
  (forall x y : A, aeqb x y = true <-> x = y) ->
  forall (s : (@cf R A)) (ds : list A) (rs : list R) (a : A),
  keys_ok s ->
  c_kind s <> KRandom ->
  In a (c_arms s) ->
  aget aeqb (c_status (cf_fit N aeqb s ds rs)) a =
  Some {| st_trained := amem aeqb a ds; st_warm := false; st_by := None |} /\
  c_arms (cf_fit N aeqb s ds rs) = c_arms s.
Proof. exact @cf_fit_status. Qed.
Print Assumptions C13_status_after_fit_trained_iff_observed_and_never_warm.

Theorem C13_cold_arms_after_fit_are_the_unobserved_arms :
  forall (R A : Type) (N : Num R) (aeqb : A -> A -> bool),
  (forall x y : A, aeqb x y = true <-> x = y) ->
  forall (s : (@cf R A)) (ds : list A) (rs : list R),
  keys_ok s ->
  c_kind s <> KRandom ->
  cold_arms aeqb (cf_fit N aeqb s ds rs) = filter (fun a : A => negb (amem aeqb a ds)) (c_arms s).
Proof. exact @cf_fit_cold_arms. Qed.
Print Assumptions C13_cold_arms_after_fit_are_the_unobserved_arms.

Theorem C13_linear_status_after_fit :
  forall (R A : Type) (N : Num R) (aeqb : A -> A -> bool),
  (forall x y : A, aeqb x y = true <-> x = y) ->
  forall (G : Type) (s : (@lin R A G)) (g : G) (ds : list A) (rs : list R) (cx : (@mat R)) (a : A),
  NoDup (l_arms s) ->
  In a (l_arms s) ->
  snd (lin_fit N aeqb s g ds rs cx) = true ->
  aget aeqb (l_status (fst (lin_fit N aeqb s g ds rs cx))) a =
  Some {| st_trained := amem aeqb a ds; st_warm := false; st_by := None |}.
Proof. exact @lin_fit_status. Qed.
Print Assumptions C13_linear_status_after_fit.

Theorem C13_warm_started_arm_holds_an_exact_copy_of_the_donor_state :
  forall (R A : Type) (N : Num R) (aeqb : A -> A -> bool),
  (forall x y : A, aeqb x y = true <-> x = y) ->
  forall (s s' : (@cf R A)) (keys : list A) (raw : A -> A -> R) (q thr : R) (c w : A),
  NoDup (c_arms s) ->
  cf_warm_start N aeqb s keys raw q = Some s' ->
  c_kind s <> KRandom ->
  distance_threshold N (distance_table N aeqb keys raw) q = Some thr ->
  In (c, w) (cold_to_warm N aeqb s (distance_table N aeqb keys raw) thr) ->
  (exists st : (@armst R),
     aget aeqb (c_stats s') c = Some st /\
     learned_eq (c_kind s) st (aget_d aeqb (armst0 N) (c_stats s) w)) /\
  (copies_exp (c_kind s) = true -> aget aeqb (c_exp s') c = Some (aget_d aeqb (zero N) (c_exp s) w)) /\
  aget aeqb (c_status s') c =
  Some
    {|
      st_trained := st_trained (aget_d aeqb status0 (c_status s) c); st_warm := true; st_by := Some w
    |} /\
  (forall sw : (@armst R),
   aget aeqb (c_stats s) w = Some sw ->
   exists sw' : (@armst R), aget aeqb (c_stats s') w = Some sw' /\ kept sw' sw) /\
  aget aeqb (c_status s') w = aget aeqb (c_status s) w.
Proof. exact @warm_started_arm_holds_the_donor_state. Qed.
Print Assumptions C13_warm_started_arm_holds_an_exact_copy_of_the_donor_state.

Theorem C13_linear_warm_started_arm_holds_the_donor_regression :
  forall (R A G : Type) (N : Num R) (aeqb : A -> A -> bool),
  (forall x y : A, aeqb x y = true <-> x = y) ->
  forall (s s' : (@lin R A G)) (g : G) (keys : list A) (raw : A -> A -> R) (q thr : R) (c w : A),
  NoDup (l_arms s) ->
  lin_warm_start N aeqb s g keys raw q = Some s' ->
  distance_threshold N (distance_table N aeqb keys raw) q = Some thr ->
  In (c, w)
    (cold_to_warm_gen N aeqb (lin_trained_arms aeqb s) (lin_cold_arms aeqb s)
       (distance_table N aeqb keys raw) thr) ->
  aget aeqb (l_models s') c = Some (donor_copy g (aget_d aeqb ridge_new (l_models s) w)) /\
  aget aeqb (l_status s') c =
  Some
    {|
      st_trained := st_trained (aget_d aeqb status0 (l_status s) c); st_warm := true; st_by := Some w
    |} /\
  aget aeqb (l_models s') w = aget aeqb (l_models s) w /\
  aget aeqb (l_status s') w = aget aeqb (l_status s) w.
Proof. exact @lin_warm_started_arm_holds_the_donor_regression. Qed.
Print Assumptions C13_linear_warm_started_arm_holds_the_donor_regression.

Theorem C13_no_cold_arm_is_paired_twice :
  forall (R A : Type) (N : Num R) (aeqb : A -> A -> bool) (trained cold : list A)
    (dt : list (A * list (A * R))) (thr : R),
  NoDup cold -> NoDup (map fst (cold_to_warm_gen N aeqb trained cold dt thr)).
Proof. exact @cold_to_warm_gen_nodup. Qed.
Print Assumptions C13_no_cold_arm_is_paired_twice.

Theorem C13_pairs_are_cold_arm_trained_donor_within_threshold :
  forall (R A : Type) (N : Num R) (aeqb : A -> A -> bool) (trained cold : list A)
    (dt : list (A * list (A * R))) (thr : R) (c w : A),
  In (c, w) (cold_to_warm_gen N aeqb trained cold dt thr) ->
  In c cold /\ In w trained /\ leb N (dist_lookup N aeqb dt c w) thr = true.
Proof. exact @warm_pairs_sound. Qed.
Print Assumptions C13_pairs_are_cold_arm_trained_donor_within_threshold.

Theorem C13_only_cold_arms_are_touched_partial :
  forall (R A : Type) (N : Num R) (aeqb : A -> A -> bool),
  (forall x y : A, aeqb x y = true <-> x = y) ->
  forall (s s' : (@cf R A)) (keys : list A) (raw : A -> A -> R) (q : R) (a : A),
  c_kind s <> KSoftmax ->
  cf_warm_start N aeqb s keys raw q = Some s' ->
  ~ In a (cold_arms aeqb s) ->
  aget aeqb (c_stats s') a = aget aeqb (c_stats s) a /\
  aget aeqb (c_exp s') a = aget aeqb (c_exp s) a /\ aget aeqb (c_status s') a = aget aeqb (c_status s) a.
Proof. exact @warm_start_only_touches_cold_arms. Qed.
Print Assumptions C13_only_cold_arms_are_touched_partial.

Theorem C13_invariant_survives_warm_start :
  forall (R A : Type) (N : Num R) (aeqb : A -> A -> bool),
  (forall x y : A, aeqb x y = true <-> x = y) ->
  forall (s s' : (@cf R A)) (keys : list A) (raw : A -> A -> R) (q : R),
  keys_ok s -> cf_warm_start N aeqb s keys raw q = Some s' -> keys_ok s'.
Proof. exact @cf_warm_start_keys_ok. Qed.
Print Assumptions C13_invariant_survives_warm_start.

Theorem C13_unused_fields_survive_warm_start :
  forall (R A : Type) (N : Num R) (aeqb : A -> A -> bool) (s s' : (@cf R A)) (keys : list A)
    (raw : A -> A -> R) (q : R), clean N s -> cf_warm_start N aeqb s keys raw q = Some s' -> clean N s'.
Proof. exact @cf_warm_start_clean. Qed.
Print Assumptions C13_unused_fields_survive_warm_start.

Theorem C13_donor_is_the_nearest_trained_arm :
  forall (R A : Type) (N : Num R),
  NumLaws N ->
  forall (d : list (A * R)) (a : A),
  argmin_first N d = Some a ->
  exists v : R, In (a, v) d /\ (forall kv : A * R, In kv d -> leb N v (snd kv) = true).
Proof. exact @argmin_first_is_minimal. Qed.
Print Assumptions C13_donor_is_the_nearest_trained_arm.

Theorem C13_repeating_the_call_changes_nothing :
  forall (R A : Type) (N : Num R) (aeqb : A -> A -> bool),
  (forall x y : A, aeqb x y = true <-> x = y) ->
  forall (s s1 : (@cf R A)) (keys : list A) (raw : A -> A -> R) (q : R),
  keys_ok s ->
  cf_warm_start N aeqb s keys raw q = Some s1 -> cf_warm_start N aeqb s1 keys raw q = Some s1.
Proof. exact @cf_warm_start_idempotent. Qed.
Print Assumptions C13_repeating_the_call_changes_nothing.

Theorem C13_second_call_finds_no_pairs :
  forall (R A : Type) (N : Num R) (aeqb : A -> A -> bool),
  (forall x y : A, aeqb x y = true <-> x = y) ->
  forall (s s1 : (@cf R A)) (keys : list A) (raw : A -> A -> R) (q thr : R),
  keys_ok s ->
  c_kind s <> KRandom ->
  distance_threshold N (distance_table N aeqb keys raw) q = Some thr ->
  cf_warm_start N aeqb s keys raw q = Some s1 ->
  cold_to_warm N aeqb s1 (distance_table N aeqb keys raw) thr = [].
Proof. exact @warm_start_second_call_finds_no_pairs. Qed.
Print Assumptions C13_second_call_finds_no_pairs.

Theorem C13_pairs_grow_with_the_threshold :
  forall (R A : Type) (N : Num R) (aeqb : A -> A -> bool),
  NumLaws N ->
  forall (trained cold : list A) (dt : list (A * list (A * R))) (thr thr' : R),
  leb N thr thr' = true ->
  incl (cold_to_warm_gen N aeqb trained cold dt thr) (cold_to_warm_gen N aeqb trained cold dt thr').
Proof. exact @warm_pairs_monotone_in_threshold. Qed.
Print Assumptions C13_pairs_grow_with_the_threshold.

Theorem C13_quantile_is_monotone_in_q :
  forall (R : Type) (N : Num R),
  NumLaws N ->
  floor_ok N ->
  forall (a : list R) (q q' : R),
  a <> [] ->
  leb N (zero N) q = true -> leb N q q' = true -> leb N (quantile N a q) (quantile N a q') = true.
Proof. exact @quantile_monotone. Qed.
Print Assumptions C13_quantile_is_monotone_in_q.

Theorem C13_threshold_grows_with_the_quantile :
  forall (R A : Type) (N : Num R),
  NumLaws N ->
  floor_ok N ->
  forall (dt : list (A * list (A * R))) (q q' thr thr' : R),
  leb N (zero N) q = true ->
  leb N q q' = true ->
  distance_threshold N dt q = Some thr ->
  distance_threshold N dt q' = Some thr' -> leb N thr thr' = true.
Proof. exact @distance_threshold_monotone. Qed.
Print Assumptions C13_threshold_grows_with_the_quantile.

Theorem C13_pairs_grow_with_the_quantile :
  forall (R A : Type) (N : Num R),
  NumLaws N ->
  forall aeqb : A -> A -> bool,
  floor_ok N ->
  forall (trained cold : list A) (dt : list (A * list (A * R))) (q q' thr thr' : R),
  leb N (zero N) q = true ->
  leb N q q' = true ->
  distance_threshold N dt q = Some thr ->
  distance_threshold N dt q' = Some thr' ->
  incl (cold_to_warm_gen N aeqb trained cold dt thr) (cold_to_warm_gen N aeqb trained cold dt thr').
Proof. exact @warm_pairs_monotone_in_quantile. Qed.
Print Assumptions C13_pairs_grow_with_the_quantile.

Theorem C13_invariant_survives_warm_start_linear :
  forall (R A G : Type) (N : Num R) (aeqb : A -> A -> bool),
  (forall x y : A, aeqb x y = true <-> x = y) ->
  forall (s s' : (@lin R A G)) (g : G) (keys : list A) (raw : A -> A -> R) (q : R),
  lin_keys_ok s -> lin_warm_start N aeqb s g keys raw q = Some s' -> lin_keys_ok s'.
Proof. exact @lin_warm_start_keys_ok. Qed.
Print Assumptions C13_invariant_survives_warm_start_linear.

Theorem C13_linear_only_cold_arms_are_touched :
  forall (R A G : Type) (N : Num R) (aeqb : A -> A -> bool),
  (forall x y : A, aeqb x y = true <-> x = y) ->
  forall (s s' : (@lin R A G)) (g : G) (keys : list A) (raw : A -> A -> R) (q : R) (a : A),
  lin_warm_start N aeqb s g keys raw q = Some s' ->
  ~ In a (lin_cold_arms aeqb s) ->
  aget aeqb (l_models s') a = aget aeqb (l_models s) a /\
  aget aeqb (l_status s') a = aget aeqb (l_status s) a.
Proof. exact @lin_warm_start_only_touches_cold_arms. Qed.
Print Assumptions C13_linear_only_cold_arms_are_touched.

Theorem C13_linear_pairs_are_cold_arm_trained_donor_within_threshold :
  forall (R A G : Type) (N : Num R) (aeqb : A -> A -> bool) (s : (@lin R A G)) (dt : list (A * list (A * R)))
    (thr : R) (c w : A),
  In (c, w) (cold_to_warm_gen N aeqb (lin_trained_arms aeqb s) (lin_cold_arms aeqb s) dt thr) ->
  In c (lin_cold_arms aeqb s) /\
  In w (lin_trained_arms aeqb s) /\ leb N (dist_lookup N aeqb dt c w) thr = true.
Proof. exact @lin_warm_pairs_sound. Qed.
Print Assumptions C13_linear_pairs_are_cold_arm_trained_donor_within_threshold.


(* non-vacuity: the floor of the rational instance meets the specification assumed by the monotonicity theorems *)
Example C13_floor_hypothesis_is_met : floor_ok QcNum.
Proof. exact Qc_floor_ok. Qed.

(* non-vacuity of the donor theorems: a UCB1 bandit and a LinUCB bandit over arms 1..4, trained on arms 1 and 2 only, arm features on a line
   (distance |u - v|), quantile 1: arm 3 is paired with donor 2 - the hypotheses of both theorems hold with a non-empty pair list *)
Definition wq (z : Z) : Qc := Q2Qc (inject_Z z).
Definition w_raw (u v : Z) : Qc := wq (Z.abs (u - v)).
Definition w_cf : @cf Qc Z := cf_fit QcNum Z.eqb (cf_init QcNum KUcb (wq 1) None [1; 2; 3; 4]%Z) [1; 2; 1]%Z [wq 1; wq 0; wq 1].
Definition w_lin : @lin Qc Z nat :=
  fst (lin_fit QcNum Z.eqb (lin_init QcNum RUcb (wq 1) (wq 0) (wq 1) false false [1; 2; 3; 4]%Z) 0%nat [1; 2; 1]%Z [wq 1; wq 0; wq 1]
                       [[wq 1; wq 0]; [wq 0; wq 1]; [wq 1; wq 1]]).
Example C13_donor_theorem_hypotheses_satisfiable :
  let dt := distance_table QcNum Z.eqb [1; 2; 3; 4]%Z w_raw in
  NoDup (c_arms w_cf) /\ c_kind w_cf <> KRandom /\ NoDup (l_arms w_lin) /\
  distance_threshold QcNum dt (wq 1) = Some (wq 1) /\
  (exists s', cf_warm_start QcNum Z.eqb w_cf [1; 2; 3; 4]%Z w_raw (wq 1) = Some s') /\
  In (3, 2)%Z (cold_to_warm QcNum Z.eqb w_cf dt (wq 1)) /\
  (exists s', lin_warm_start QcNum Z.eqb w_lin 0%nat [1; 2; 3; 4]%Z w_raw (wq 1) = Some s') /\
  In (3, 2)%Z (cold_to_warm_gen QcNum Z.eqb (lin_trained_arms Z.eqb w_lin) (lin_cold_arms Z.eqb w_lin) dt (wq 1)).
Proof.
  cbv zeta. split; [vm_compute; repeat constructor; simpl; intuition discriminate|].
  split; [vm_compute; discriminate|]. split; [vm_compute; repeat constructor; simpl; intuition discriminate|].
  split; [vm_compute; reflexivity|]. split; [eexists; vm_compute; reflexivity|].
  split; [vm_compute; left; reflexivity|]. split; [eexists; vm_compute; reflexivity|]. vm_compute. left. reflexivity.
Qed.

