(* Driver for the extracted model (module Mw).  Reads cases from a file, runs the
   model at the native binary64 instance of [Num] with the recorded random tape as
   [RngOps], and prints one line per observable.  Everything here is trusted glue:
   tokenizer, number instance, tape look-up, printers. *)
open Mw

(* ---------- conversions between OCaml ints and the extracted numerals ---------- *)
let rec nat_of_int n = if n <= 0 then O else S (nat_of_int (n - 1))
let rec int_of_nat = function O -> 0 | S k -> 1 + int_of_nat k
let rec pos_of_int n =
  if n <= 1 then XH else if n land 1 = 0 then XO (pos_of_int (n lsr 1)) else XI (pos_of_int (n lsr 1))
let rec int_of_pos = function XH -> 1 | XO p -> 2 * int_of_pos p | XI p -> 2 * int_of_pos p + 1
let z_of_int n = if n = 0 then Z0 else if n > 0 then Zpos (pos_of_int n) else Zneg (pos_of_int (-n))
let int_of_z = function Z0 -> 0 | Zpos p -> int_of_pos p | Zneg p -> - (int_of_pos p)

(* ---------- numpy's float64 add-reduce (pairwise summation) ---------- *)
let rec pairwise (a : float array) (off : int) (n : int) : float =
  if n < 8 then begin
    let r = ref 0.0 in
    (* numpy starts from -0.0 so that sums of negative zeros keep their sign *)
    r := -0.0;
    for i = 0 to n - 1 do r := !r +. a.(off + i) done; !r
  end else if n <= 128 then begin
    let r = Array.init 8 (fun j -> a.(off + j)) in
    let i = ref 8 in
    while !i < n - (n mod 8) do
      for j = 0 to 7 do r.(j) <- r.(j) +. a.(off + !i + j) done;
      i := !i + 8
    done;
    let res = ref (((r.(0) +. r.(1)) +. (r.(2) +. r.(3))) +. ((r.(4) +. r.(5)) +. (r.(6) +. r.(7)))) in
    while !i < n do res := !res +. a.(off + !i); incr i done;
    !res
  end else begin
    let n2 = n / 2 in
    let n2 = n2 - (n2 mod 8) in
    pairwise a off n2 +. pairwise a (off + n2) (n - n2)
  end

let np_sum (l : float list) : float =
  let a = Array.of_list l in
  let n = Array.length a in
  if n = 0 then 0.0 else pairwise a 0 n

(* CPython >= 3.12 builtin sum() over exact floats: Neumaier compensated summation *)
let py_sum (l : float list) : float =
  let total = ref 0.0 and c = ref 0.0 in
  List.iter (fun x ->
      let t = !total +. x in
      if Float.abs !total >= Float.abs x then c := !c +. ((!total -. t) +. x)
      else c := !c +. ((x -. t) +. !total);
      total := t) l;
  if !c <> 0.0 && Float.is_finite !c then !total +. !c else !total

let fnum : float num = {
  zero = 0.0; one = 1.0;
  add0 = ( +. ); sub0 = ( -. ); mul0 = ( *. ); div0 = ( /. );
  of_Z = (fun z -> float_of_int (int_of_z z));
  sqrt = Stdlib.sqrt; ln = Stdlib.log; exp = Stdlib.exp;
  leb0 = (fun a b -> a <= b); ltb0 = (fun a b -> a < b); eqb0 = (fun a b -> a = b);
  nsum = np_sum; psum = py_sum;
  eps_mach = epsilon_float;
  floor_nat = (fun x -> nat_of_int (int_of_float (Stdlib.floor x)));
}

(* ---------- tokenizer ---------- *)
let toks : string array ref = ref [||]
let pos = ref 0
let load file =
  let ic = open_in_bin file in
  let n = in_channel_length ic in
  let s = really_input_string ic n in
  close_in ic;
  let l = String.split_on_char ' ' (String.map (fun c -> if c = '\n' || c = '\t' || c = '\r' then ' ' else c) s) in
  toks := Array.of_list (List.filter (fun t -> t <> "") l);
  pos := 0
let eof () = !pos >= Array.length !toks
let next () = let t = !toks.(!pos) in incr pos; t
let peek () = !toks.(!pos)
let next_int () = int_of_string (next ())
let next_float () = Int64.float_of_bits (Int64.of_string (next ()))
let expect s = let t = next () in if t <> s then failwith (Printf.sprintf "parse: expected %s got %s at %d" s t !pos)
let next_list f = let n = next_int () in List.init n (fun _ -> f ())
let next_floats () = next_list next_float
let next_ints () = next_list next_int

(* ---------- the random tape ---------- *)
type tape_entry = { params : float list; ransw : float list; zansw : int list }
let tape : (string, tape_entry) Hashtbl.t = Hashtbl.create 1024
let exact_params = ref true
let rtol = ref 1e-6

exception Model_error of string

let ilist l = String.concat "," (List.map string_of_int l)
let req_key (r : float req) : string * float list =
  match r with
  | RqRand shape -> ("rand:" ^ ilist (List.map int_of_nat shape), [])
  | RqRandint (high, size) -> ("randint:" ^ string_of_int (int_of_nat size), [float_of_int (int_of_z high)])
  | RqRandint2 (lo, hi) -> ("randint2:", [float_of_int (int_of_z lo); float_of_int (int_of_z hi)])
  | RqBeta (a, b, size) -> ("beta:" ^ string_of_int (int_of_nat size), [a; b])
  | RqDirichlet (alpha, size) -> (Printf.sprintf "dirichlet:%d,%d" (List.length alpha) (int_of_nat size), alpha)
  | RqChoice (n, p) -> (Printf.sprintf "choice:%d" (int_of_nat n), (match p with None -> [] | Some l -> l))
  | RqStdNormal (r, c) -> (Printf.sprintf "stdnormal:%d,%d" (int_of_nat r) (int_of_nat c), [])
  | RqMvn (mean, cov, size) -> (Printf.sprintf "mvn:%d,%d" (List.length mean) (int_of_nat size), mean @ List.concat cov)

let close a b =
  if !exact_params then Int64.bits_of_float a = Int64.bits_of_float b || (a = b)
  else (a = b) || (Float.abs (a -. b) <= !rtol *. (Float.max 1.0 (Float.max (Float.abs a) (Float.abs b))))

let fbits x = if x <> x then "nan" else Int64.to_string (Int64.bits_of_float x)

let lookup (g : string) (r : float req) : tape_entry * string =
  let (k, params) = req_key r in
  let key = Digest.to_hex (Digest.string (g ^ "|" ^ k)) in
  match Hashtbl.find_all tape key with
  | [] -> raise (Model_error (Printf.sprintf "rng-request-not-recorded %s after %s" k g))
  | alts ->
      (* generators in equal states (deep copies) may have answered the same request kind with
         different parameters: pick the recorded alternative whose parameters match *)
      let ok e = List.length e.params = List.length params && List.for_all2 close e.params params in
      (* among the acceptable alternatives take the one nearest in relative terms (parameters of very different
         magnitudes, e.g. a covariance alpha^2*A_inv with alpha = 1e-9, are all "close" in absolute terms) *)
      let rel a b = if a = b then 0.0 else Float.abs (a -. b) /. (Float.max (Float.abs a) (Float.abs b)) in
      let dist e = List.fold_left2 (fun acc a b -> Float.max acc (rel a b)) 0.0 e.params params in
      let best = List.fold_left (fun acc e -> if not (ok e) then acc else
                                   match acc with None -> Some e | Some b -> if dist e < dist b then Some e else acc) None alts in
      (match best with
       | Some e -> (e, key)
       | None ->
           let e = List.hd alts in
           raise (Model_error (Printf.sprintf "rng-param-mismatch %s model=[%s] impl=[%s]" k
                    (String.concat "," (List.map fbits params)) (String.concat "," (List.map fbits e.params)))))

let tape_rng : (float, string) rngOps = {
  draw_r = (fun g r -> let (e, k) = lookup g r in (e.ransw, k));
  draw_z = (fun g r -> let (e, k) = lookup g r in (List.map z_of_int e.zansw, k));
  create = (fun z -> "S" ^ string_of_int (int_of_z z));
}

(* ---------- binarizers (interpreted identically by the Python harness) ---------- *)
let read_binz () : (int -> float -> float) option =
  match next () with
  | "none" -> None
  | "thr" ->   (* arm-dependent threshold: reward >= t(arm) *)
      let n = next_int () in
      let tbl = List.init n (fun _ -> let a = next_int () in let t = next_float () in (a, t)) in
      let dflt = next_float () in
      Some (fun a r -> let t = (try List.assoc a tbl with Not_found -> dflt) in if r >= t then 1.0 else 0.0)
  | "flip" -> Some (fun _ r -> if r = 0.0 then 1.0 else 0.0)       (* not idempotent on {0,1} *)
  | "gt" -> let t = next_float () in Some (fun _ r -> if r > t then 1.0 else 0.0)
  | "const" -> let c = next_float () in Some (fun _ _ -> c)
  | s -> failwith ("binarizer " ^ s)

(* ---------- reading a case ---------- *)
let read_ctx () : float list list option =
  match next () with
  | "noctx" -> None
  | "ctx" -> let rows = next_int () in let cols = next_int () in
             Some (List.init rows (fun _ -> List.init cols (fun _ -> next_float ())))
  | s -> failwith ("ctx " ^ s)

let read_oracle () : (float, int) oracle =
  expect "ORC";
  let knn = next_list (fun () -> List.map nat_of_int (next_ints ())) in
  let labels = List.map nat_of_int (next_ints ()) in
  let assign = List.map nat_of_int (next_ints ()) in
  let nleaf = next_int () in
  let tbl = Hashtbl.create 64 in
  for _ = 1 to nleaf do
    let a = next_int () in
    let row = next_floats () in
    let lf = next_int () in
    Hashtbl.replace tbl (a, List.map Int64.bits_of_float row) lf
  done;
  let sizes = List.map nat_of_int (next_ints ()) in
  { o_knn = knn; o_labels = labels; o_assign = assign;
    o_leaf = (fun a row ->
        match Hashtbl.find_opt tbl (a, List.map Int64.bits_of_float row) with
        | Some l -> nat_of_int l
        | None -> raise (Model_error (Printf.sprintf "leaf-oracle-missing arm %d" a)));
    o_sizes = sizes }

let rec read_sop () : (float, int) sop =
  match peek () with
  | "fits" -> ignore (next ()); let ds = next_ints () in let rs = next_floats () in let vals = next_floats () in let o = read_oracle () in SFitS (ds, rs, vals, o)
  | "pfits" -> ignore (next ()); let ds = next_ints () in let rs = next_floats () in let vals = next_floats () in let o = read_oracle () in SPartialFitS (ds, rs, vals, o)
  | "preds" -> ignore (next ()); let vals = next_floats () in let o = read_oracle () in SPredictS (vals, o)
  | "pexps" -> ignore (next ()); let vals = next_floats () in let o = read_oracle () in SPredictExpS (vals, o)
  | _ -> SPlain (read_op ())

and read_op () : (float, int) op =
  match next () with
  | "fit" -> let ds = next_ints () in let rs = next_floats () in let cx = read_ctx () in let o = read_oracle () in Fit (ds, rs, cx, o)
  | "pfit" -> let ds = next_ints () in let rs = next_floats () in let cx = read_ctx () in let o = read_oracle () in PartialFit (ds, rs, cx, o)
  | "add" -> let a = next_int () in let bz = read_binz () in AddArm (a, bz)
  | "rem" -> let a = next_int () in RemoveArm a
  | "warm" ->
      let keys = next_ints () in
      let n = List.length keys in
      let m = Array.init n (fun _ -> Array.init n (fun _ -> next_float ())) in
      let q = next_float () in
      let idx a = let rec go i = function [] -> 0 | x :: t -> if x = a then i else go (i + 1) t in go 0 keys in
      WarmStart (keys, (fun u v -> m.(idx u).(idx v)), q)
  | "pred" -> let cx = read_ctx () in let o = read_oracle () in Predict (cx, o)
  | "pexp" -> let cx = read_ctx () in let o = read_oracle () in PredictExp (cx, o)
  | s -> failwith ("op " ^ s)

let next_bool () = match next () with "1" -> true | "0" -> false | s -> failwith ("bool " ^ s)

let read_lp (arms : int list) : (float, int, string) lp =
  match next () with
  | "greedy" -> let e = next_float () in LCf (cf_init fnum KGreedy e None arms)
  | "ucb" -> let a = next_float () in LCf (cf_init fnum KUcb a None arms)
  | "softmax" -> let t = next_float () in LCf (cf_init fnum KSoftmax t None arms)
  | "popularity" -> LCf (cf_init fnum KPopularity 0.0 None arms)
  | "thompson" -> let bz = read_binz () in LCf (cf_init fnum KThompson 0.0 bz arms)
  | "random" -> LCf (cf_init fnum KRandom 0.0 None arms)
  | "lingreedy" -> let e = next_float () in let l2 = next_float () in let sc = next_bool () in let kf = next_bool () in
      LLin (lin_init fnum RRidge 0.0 e l2 sc kf arms)
  | "lints" -> let a = next_float () in let l2 = next_float () in let sc = next_bool () in let kf = next_bool () in
      LLin (lin_init fnum RTs a 0.0 l2 sc kf arms)
  | "linucb" -> let a = next_float () in let l2 = next_float () in let sc = next_bool () in let kf = next_bool () in
      LLin (lin_init fnum RUcb a 0.0 l2 sc kf arms)
  | s -> failwith ("lp " ^ s)

let read_metric () = match next () with
  | "cityblock" -> Cityblock | "chebyshev" -> Chebyshev | "sqeuclidean" -> SqEuclidean | "euclidean" -> Euclidean
  | s -> failwith ("metric " ^ s)

let read_optlist () = match next () with
  | "nop" -> None
  | "p" -> Some (next_floats ())
  | s -> failwith ("optlist " ^ s)

(* ---------- printers ---------- *)
let parm = function None -> "none" | Some a -> string_of_int a
let pexp (d : (int * float option) list) =
  String.concat " " (List.map (fun (a, v) -> Printf.sprintf "%d:%s" a (match v with None -> "nan" | Some x -> fbits x)) d)
let print_out cid i (o : (float, int) out) =
  match o with
  | ODone -> Printf.printf "R %s %d done\n" cid i
  | ORejected -> Printf.printf "R %s %d rejected\n" cid i
  | OArm a -> Printf.printf "R %s %d arm %s\n" cid i (parm a)
  | OArms l -> Printf.printf "R %s %d arms %s\n" cid i (String.concat " " (List.map parm l))
  | OExp d -> Printf.printf "R %s %d exp %s\n" cid i (pexp d)
  | OExps l -> Printf.printf "R %s %d exps %s\n" cid i (String.concat " | " (List.map pexp l))

let print_state cid i (m : (float, int, string) mab) =
  let arms = m_arms m in
  Printf.printf "S %s %d arms %s\n" cid i (ilist arms);
  Printf.printf "S %s %d cold %s\n" cid i (ilist (mab_cold_arms (=) m));
  (match m.m_imp with
   | ICf s ->
       Printf.printf "S %s %d cfexp %s\n" cid i
         (String.concat " " (List.map (fun (a, v) -> Printf.sprintf "%d:%s" a (fbits v)) s.c_exp));
       Printf.printf "S %s %d cfstats %s\n" cid i
         (String.concat " " (List.map (fun (a, st) ->
             Printf.sprintf "%d:%s:%d:%s:%s:%s" a (fbits st.s_sum) (int_of_z st.s_count) (fbits st.s_mean)
               (fbits st.s_succ) (fbits st.s_fail)) s.c_stats));
       Printf.printf "S %s %d status %s\n" cid i
         (String.concat " " (List.map (fun (a, st) ->
             Printf.sprintf "%d:%b:%b:%s" a st.st_trained st.st_warm (parm st.st_by)) s.c_status))
   | ILin s ->
       Printf.printf "S %s %d status %s\n" cid i
         (String.concat " " (List.map (fun (a, st) ->
             Printf.sprintf "%d:%b:%b:%s" a st.st_trained st.st_warm (parm st.st_by)) s.l_status));
       Printf.printf "S %s %d beta %s\n" cid i
         (String.concat " " (List.map (fun (a, m) ->
             Printf.sprintf "%d:%s" a (String.concat "," (List.map fbits m.r_beta))) s.l_models))
   | INbr s ->
       Printf.printf "S %s %d nhist %d %d %d\n" cid i (List.length s.n_ds) (List.length s.n_rs) (List.length s.n_cx);
       Printf.printf "S %s %d lsh %s\n" cid i
         (String.concat " " (List.mapi (fun k tbl ->
             Printf.sprintf "%d:%s" k (String.concat ";" (List.filter_map (fun (h, l) ->
                 if l = [] then None else
                 Some (Printf.sprintf "%d=%s" (int_of_z h) (ilist (List.map int_of_nat l))))
               (List.sort (fun (h1, _) (h2, _) -> compare (int_of_z h1) (int_of_z h2)) tbl)))) s.n_tables))
   | IClu s ->
       Printf.printf "S %s %d nhist %d %d %d\n" cid i (List.length s.k_ds) (List.length s.k_rs) (List.length s.k_cx)
   | ITree s ->
       Printf.printf "S %s %d leaves %s\n" cid i
         (String.concat " " (List.map (fun (a, tbl) ->
             Printf.sprintf "%d:%s" a (String.concat ";" (List.map (fun (lf, rs) ->
                 Printf.sprintf "%d=%s" (int_of_nat lf) (String.concat "," (List.map fbits rs)))
               (List.sort (fun (l1, _) (l2, _) -> compare (int_of_nat l1) (int_of_nat l2)) (List.filter (fun (_, rs) -> rs <> []) tbl))))) s.t_leaves)))

(* ---------- main loop ---------- *)
let run_case () =
  expect "CASE";
  let cid = next () in
  (match next () with "exact" -> exact_params := true | "tol" -> exact_params := false | s -> failwith ("mode " ^ s));
  expect "ARMS"; let arms = next_ints () in
  expect "SEED"; let seed = next_int () in
  expect "LP"; let lp = read_lp arms in
  expect "NP";
  let imp : (float, int, string) imp =
    match next () with
    | "none" -> (match lp with LCf s -> ICf s | LLin s -> ILin s)
    | "radius" -> let r = next_float () in let m = read_metric () in let p = read_optlist () in let kf = next_bool () in
        INbr (nbr_init (NRadius r) m p kf arms lp)
    | "knearest" -> let k = next_int () in let m = read_metric () in
        INbr (nbr_init (NKNearest (nat_of_int k)) m None false arms lp)
    | "lsh" -> let nd = next_int () in let nt = next_int () in let p = read_optlist () in let kf = next_bool () in
        INbr (nbr_init (NLsh (nat_of_int nd, nat_of_int nt)) Euclidean p kf arms lp)
    | "clusters" -> let n = next_int () in IClu (clu_init (nat_of_int n) arms lp)
    | "tree" -> let kf1 = next_bool () in let kf2 = next_bool () in
        (match lp with LCf s -> ITree (tree_init fnum kf1 kf2 arms s) | LLin _ -> failwith "tree with linear lp")
    | s -> failwith ("np " ^ s) in
  expect "OPS";
  let ops = next_list read_sop in
  expect "TAPE";
  Hashtbl.reset tape;
  let n = next_int () in
  for _ = 1 to n do
    let key = next () in
    let params = next_floats () in
    let kind = next () in
    (match kind with
     | "r" -> let a = next_floats () in Hashtbl.add tape key { params; ransw = a; zansw = [] }
     | "z" -> let a = next_ints () in Hashtbl.add tape key { params; ransw = []; zansw = a }
     | s -> failwith ("tape kind " ^ s))
  done;
  expect "END";
  let m0 = { m_imp = imp; m_fitted = false; m_rng = "S" ^ string_of_int seed } in
  (try
     let m = ref m0 in
     List.iteri (fun i o ->
         let (m1, r) = sstep fnum (=) tape_rng !m o in
         (* tolerance mode: report how decisive each arg-max is, so that the harness can accept a
            different arm when the two best expectations agree up to rounding *)
         (match o with
          | SPlain (Predict (cx, orc)) when not !exact_params ->
              (try
                 let (_, e) = step fnum (=) tape_rng !m (PredictExp (cx, orc)) in
                 let margin d =
                   let vs = List.filter_map (fun (_, v) -> v) d in
                   let sorted = List.sort (fun a b -> compare b a) vs in
                   (match sorted with
                    | a :: b :: _ -> (a -. b) /. (Float.max 1.0 (Float.abs a))
                    | _ -> infinity) in
                 let rows = (match e with OExp d -> [d] | OExps l -> l | _ -> []) in
                 Printf.printf "S %s %d margins %s\n" cid i (String.concat " " (List.map (fun d -> Printf.sprintf "%.3e" (margin d)) rows))
               with _ -> ())
          | _ -> ());
         m := m1;
         print_out cid i r;
         print_state cid i m1) ops
   with
   | Model_error msg -> Printf.printf "E %s %s\n" cid msg
   | Stack_overflow -> Printf.printf "E %s stack-overflow\n" cid);
  Printf.printf "X %s\n" cid

(* ---------- simulator cases ---------- *)
let read_bandit (arms : int list) : (float, int, string) mab =
  expect "SEED"; let seed = next_int () in
  expect "LP"; let lp = read_lp arms in
  expect "NP";
  let imp : (float, int, string) imp =
    match next () with
    | "none" -> (match lp with LCf s -> ICf s | LLin s -> ILin s)
    | "radius" -> let r = next_float () in let m = read_metric () in let p = read_optlist () in let kf = next_bool () in
        INbr (nbr_init (NRadius r) m p kf arms lp)
    | "knearest" -> let k = next_int () in let m = read_metric () in
        INbr (nbr_init (NKNearest (nat_of_int k)) m None false arms lp)
    | "lsh" -> let nd = next_int () in let nt = next_int () in let p = read_optlist () in let kf = next_bool () in
        INbr (nbr_init (NLsh (nat_of_int nd, nat_of_int nt)) Euclidean p kf arms lp)
    | s -> failwith ("sim np " ^ s) in
  { m_imp = imp; m_fitted = false; m_rng = "S" ^ string_of_int seed }

let read_batch () : (float, int) batch =
  let ds = next_ints () in let rs = next_floats () in let cx = read_ctx () in
  { b_ds = ds; b_rs = rs; b_cx = cx }

let read_tape () =
  expect "TAPE";
  Hashtbl.reset tape;
  let n = next_int () in
  for _ = 1 to n do
    let key = next () in
    let params = next_floats () in
    let kind = next () in
    (match kind with
     | "r" -> let a = next_floats () in Hashtbl.add tape key { params; ransw = a; zansw = [] }
     | "z" -> let a = next_ints () in Hashtbl.add tape key { params; ransw = []; zansw = a }
     | s -> failwith ("tape kind " ^ s))
  done

let run_simcase () =
  expect "SIMCASE";
  let cid = next () in
  (match next () with "exact" -> exact_params := true | "tol" -> exact_params := false | s -> failwith ("mode " ^ s));
  expect "ARMS"; let arms = next_ints () in
  expect "NB"; let nb = next_int () in
  let ms = List.init nb (fun _ -> read_bandit arms) in
  expect "QUICK"; let quick = next_bool () in
  expect "TOTAL"; let total = read_batch () in
  expect "TRAIN"; let train = read_batch () in
  let train_orcs = List.init nb (fun _ -> read_oracle ()) in
  let online = (match next () with "offline" -> false | "online" -> true | s -> failwith ("sim mode " ^ s)) in
  let nbat = next_int () in
  expect "CHUNK"; let chunk = next_int () in
  let batches = ref [] and orcs = ref [] in
  for _ = 1 to nbat do
    let b = read_batch () in
    (* per chunk of the batch, per bandit: the oracles of predict, predict_expectations, partial_fit *)
    let nch = next_int () in
    let o = List.init nch (fun _ ->
        List.init nb (fun _ -> let a = read_oracle () in let b = read_oracle () in let c = read_oracle () in ((a, b), c))) in
    batches := b :: !batches; orcs := o :: !orcs
  done;
  let batches = List.rev !batches and orcs = List.rev !orcs in
  read_tape ();
  expect "END";
  (try
     let trained = sim_train_all fnum (=) tape_rng quick ms train train_orcs in
     let res =
       if online then sim_online_chunked fnum (=) tape_rng (nat_of_int chunk) trained O batches orcs
       else (match batches, orcs with
             | [b], [o] -> sim_offline_chunked fnum (=) tape_rng (nat_of_int chunk) trained b o
             | _ -> failwith "offline needs one batch") in
     let pstats (l : (int * float stats) list) =
       String.concat " " (List.map (fun (a, st) -> Printf.sprintf "%d:%d:%s:%s:%s:%s:%s" a (int_of_z st.st_count) (fbits st.st_sum)
                                       (fbits st.st_min) (fbits st.st_max) (fbits st.st_mean) (fbits st.st_std)) l) in
     let postats (l : (int * float stats option) list) =
       String.concat " " (List.map (fun (a, o) -> match o with
           | None -> Printf.sprintf "%d:nan" a
           | Some st -> Printf.sprintf "%d:%d:%s:%s:%s:%s:%s" a (int_of_z st.st_count) (fbits st.st_sum)
                          (fbits st.st_min) (fbits st.st_max) (fbits st.st_mean) (fbits st.st_std)) l) in
     let train_stats = arm_stats fnum (=) arms train.b_ds train.b_rs in
     let test_ds = List.concat (List.map (fun b -> b.b_ds) batches) and test_rs = List.concat (List.map (fun b -> b.b_rs) batches) in
     Printf.printf "S %s 1000 armstats_total %s\n" cid (pstats (arm_stats fnum (=) arms total.b_ds total.b_rs));
     Printf.printf "S %s 1000 armstats_train %s\n" cid (pstats train_stats);
     Printf.printf "S %s 1000 armstats_test %s\n" cid (pstats (arm_stats fnum (=) arms test_ds test_rs));
     List.iteri (fun i (b, rep) ->
         match rep with
         | None -> Printf.printf "R %s %d failed\n" cid i
         | Some (preds, exps) ->
             Printf.printf "R %s %d preds %s\n" cid i (String.concat " " (List.map parm preds));
             Printf.printf "S %s %d exps %s\n" cid i (String.concat " | " (List.map pexp exps));
             let ev key lo ds rs =
               List.iter (fun (sname, sf) ->
                   match sim_evaluate fnum (=) arms sf train_stats b preds (nat_of_int lo) ds rs with
                   | None -> Printf.printf "S %s %d ev_%s_%s failed\n" cid i key sname
                   | Some l -> Printf.printf "S %s %d ev_%s_%s %s\n" cid i key sname (postats l))
                 [("min", (fun st -> st.st_min)); ("mean", (fun st -> st.st_mean)); ("max", (fun st -> st.st_max))] in
             ev "total" 0 test_ds test_rs;
             if online then begin
               let lo = ref 0 in
               List.iteri (fun k bt -> ev (string_of_int k) !lo bt.b_ds bt.b_rs; lo := !lo + List.length bt.b_ds) batches
             end) res
   with
   | Model_error msg -> Printf.printf "E %s %s\n" cid msg
   | Stack_overflow -> Printf.printf "E %s stack-overflow\n" cid);
  Printf.printf "X %s\n" cid

(* exhaustive table of the partition model: one line per (n, n_jobs) *)
let print_partitions cpu nmax jmin jmax =
  for n = 1 to nmax do
    for nj = jmin to jmax do
      if nj <> 0 then begin
        let j = int_of_z (effective_jobs (z_of_int cpu) (z_of_int n) (z_of_int nj)) in
        let sizes = List.map int_of_nat (partition_sizes (nat_of_int n) (nat_of_int j)) in
        let st = List.map int_of_nat (starts (List.map nat_of_int sizes)) in
        Printf.printf "P %d %d %d %s %s\n" n nj j (ilist sizes) (ilist st)
      end
    done
  done

let () =
  if Sys.argv.(1) = "--selfcheck" then begin
    (* extraction self-check: the same Gallina term is evaluated by vm_compute inside Coq (bin/selfcheck compares) *)
    let rec zstr (z : z) : string =
      (* decimal printing of an extracted Z of any size *)
      let ten = z_of_int 10 in
      match z with
      | Z0 -> "0"
      | Zneg p -> "-" ^ zstr (Zpos p)
      | Zpos _ ->
          let q = Z.div z ten and r = Z.modulo z ten in
          (if q = Z0 then "" else zstr q) ^ string_of_int (int_of_z r) in
    for k = 1 to int_of_string Sys.argv.(2) do
      Printf.printf "K %d %s\n" k (String.concat " " (List.map zstr (selfcheck_case (z_of_int k))))
    done
  end else
  if Sys.argv.(1) = "--part" then
    print_partitions (int_of_string Sys.argv.(2)) (int_of_string Sys.argv.(3)) (int_of_string Sys.argv.(4)) (int_of_string Sys.argv.(5))
  else begin
    load Sys.argv.(1);
    while not (eof ()) do (if peek () = "SIMCASE" then run_simcase () else run_case ()) done
  end
