(* C17Lin.v — C17 for the linear policies: a partial_fit whose contexts have another width than the trained
   regressions is rejected from inside training (np.dot raises in the first arm that has rows) and leaves the
   policy, hence the bandit, exactly as it was. *)
From Coq Require Import ZArith List Bool Lia.
From MW Require Import Num Assoc AssocFacts Rng CF Matrix Lin Warm Nbr Clu Tree Mab.
Import ListNotations.

Section C17Lin.
Context {R A G : Type} (N : Num R) (aeqb : A -> A -> bool) (RG : RngOps R G).
Notation lin := (@lin R A G).

Definition uniform_width (w : nat) (cx : mat (R:=R)) : Prop := Forall (fun row => length row = w) cx.

Lemma arm_rows_width a ds (rs : list R) (cx : mat (R:=R)) w r0 x' :
  uniform_width w cx -> fst (arm_rows aeqb a ds rs cx) = r0 :: x' -> ncols (r0 :: x') = w.
Proof.
  intros Hw E. unfold arm_rows in E. simpl in E. simpl.
  assert (Hin : In r0 (map snd (filter (fun t => aeqb (fst (fst t)) a) (combine (combine ds rs) cx)))) by (rewrite E; left; reflexivity).
  apply in_map_iff in Hin. destruct Hin as [[[dd rr] row] [<- Hf]]. apply filter_In in Hf. destruct Hf as [Hc _].
  apply in_combine_r in Hc. unfold uniform_width in Hw. rewrite Forall_forall in Hw. apply Hw. exact Hc.
Qed.

Lemma lin_parallel_fit_width_rejected (s : lin) g (arms : list A) ds rs cx w d :
  uniform_width w cx -> l_nf s = Some d -> w <> d -> fst (lin_parallel_fit N aeqb s g arms ds rs cx) = s.
Proof.
  intros Hw Hnf Hne. induction arms as [|a t IH]; simpl; [reflexivity|].
  unfold lin_fit_arm. destruct (arm_rows aeqb a ds rs cx) as [x y] eqn:Ea.
  destruct x as [|r0 x']; [exact IH|].
  pose proof (arm_rows_width a ds rs cx w r0 x' Hw ltac:(rewrite Ea; reflexivity)) as Hnc.
  rewrite Hnf. rewrite Hnc. destruct (Nat.eqb_spec w d); [contradiction|]. reflexivity.
Qed.

Theorem lin_partial_fit_width_rejected (s : lin) g ds rs cx w d :
  uniform_width w cx -> l_nf s = Some d -> w <> d ->
  snd (lin_partial_fit N aeqb s g ds rs cx) = false -> fst (lin_partial_fit N aeqb s g ds rs cx) = s.
Proof.
  intros Hw Hnf Hne. unfold lin_partial_fit.
  pose proof (lin_parallel_fit_width_rejected s g (l_arms s) ds rs cx w d Hw Hnf Hne) as H.
  destruct (lin_parallel_fit N aeqb s g (l_arms s) ds rs cx) as [s4 ok]. simpl in H. subst s4.
  destruct ok; simpl; [discriminate | reflexivity].
Qed.

(* at the facade: the bandit after the rejected call is the bandit before it *)
Theorem rejected_linear_partial_fit_changes_nothing (m : @mab R A G) (s : lin) ds rs cx orc w d :
  m_imp m = ILin s -> m_fitted m = true -> l_nf s = Some d -> uniform_width w cx -> w <> d ->
  snd (step N aeqb RG m (PartialFit ds rs (Some cx) orc)) = ORejected ->
  fst (step N aeqb RG m (PartialFit ds rs (Some cx) orc)) = m.
Proof.
  intros Es Hf Hnf Hw Hne. unfold step.
  destruct (fit_args_ok N m ds rs (Some cx)); [|reflexivity].
  destruct (negb _); [reflexivity|]. rewrite Hf. unfold imp_partial_fit. rewrite Es. simpl octx.
  pose proof (lin_partial_fit_width_rejected s (m_rng m) ds rs cx w d Hw Hnf Hne) as H.
  destruct (lin_partial_fit N aeqb s (m_rng m) ds rs cx) as [s' ok]. simpl in *.
  destruct ok; [discriminate|]. intros _. rewrite (H eq_refl). destruct m; simpl in *. subst. reflexivity.
Qed.

End C17Lin.
