(* Extraction of the executable model.  Only ExtrOcamlBasic is used: bool, option,
   list, prod, unit, sumbool map to OCaml's; Z, positive, nat, Q, Qc stay the
   extracted datatypes.  No Extract Constant, no further Extract Inductive. *)
Require Extraction.
Require Import ExtrOcamlBasic.
From MW Require Import Num Assoc Rng CF Warm Mab.
Extraction Language OCaml.
Set Extraction Output Directory ".".
Extraction "mw.ml" QcNum cf_init mkMab step run mab_cold_arms.
