(* FacadeArms.v — MAB.add_arm / MAB.remove_arm and the arm list, for every policy combination. *)
From Coq Require Import ZArith List Bool Lia.
From MW Require Import Num Assoc AssocFacts Rng CF Matrix Lin Warm Nbr Clu Tree Mab.
Import ListNotations.

Section FacadeArms.
Context {R A G : Type} (N : Num R) (aeqb : A -> A -> bool) (RG : RngOps R G).
Hypothesis aeqb_spec : forall x y, aeqb x y = true <-> x = y.
Notation mab := (@mab R A G).

Lemma cf_add_arm_arms (s : @cf R A) a bz : c_arms (cf_add_arm N aeqb s a bz) = c_arms s ++ [a].
Proof. unfold cf_add_arm. destruct (c_kind s); try destruct bz; reflexivity. Qed.

Lemma cf_remove_arm_arms (s : @cf R A) a : c_arms (cf_remove_arm N aeqb s a) = lremove aeqb (c_arms s) a.
Proof.
  unfold cf_remove_arm, popularity_normalize. destruct (c_kind s); simpl;
    repeat match goal with |- context [if ?b then _ else _] => destruct b; simpl end; reflexivity.
Qed.

Lemma imp_add_arm_arms (i : @imp R A G) a bz : imp_arms (imp_add_arm N aeqb i a bz) = imp_arms i ++ [a].
Proof. destruct i; simpl; try reflexivity. apply cf_add_arm_arms. Qed.

Lemma imp_remove_arm_arms (i : @imp R A G) a : imp_arms (imp_remove_arm N aeqb i a) = lremove aeqb (imp_arms i) a.
Proof. destruct i; simpl; try reflexivity. apply cf_remove_arm_arms. Qed.

Theorem add_arm_arms (m : mab) a bz :
  snd (step N aeqb RG m (AddArm a bz)) = ODone ->
  ~ In a (m_arms m) /\ m_arms (fst (step N aeqb RG m (AddArm a bz))) = m_arms m ++ [a].
Proof.
  unfold step.
  destruct (match bz with Some _ => negb (binz_allowed (m_imp m)) | None => false end); [discriminate|].
  destruct (amem aeqb a (m_arms m)) eqn:Em; [discriminate|]. intros _.
  split; [apply (amem_false aeqb aeqb_spec); exact Em|].
  unfold m_arms; simpl. apply imp_add_arm_arms.
Qed.

Theorem add_arm_rejected_unchanged (m : mab) a bz :
  snd (step N aeqb RG m (AddArm a bz)) = ORejected -> fst (step N aeqb RG m (AddArm a bz)) = m.
Proof.
  unfold step.
  destruct (match bz with Some _ => negb (binz_allowed (m_imp m)) | None => false end); [reflexivity|].
  destruct (amem aeqb a (m_arms m)); [reflexivity | discriminate].
Qed.

Theorem remove_arm_arms (m : mab) a :
  snd (step N aeqb RG m (RemoveArm a)) = ODone ->
  In a (m_arms m) /\ m_arms (fst (step N aeqb RG m (RemoveArm a))) = lremove aeqb (m_arms m) a.
Proof.
  unfold step. destruct (amem aeqb a (m_arms m)) eqn:Em; [|discriminate]. intros _.
  split; [apply (amem_true aeqb aeqb_spec); exact Em|].
  unfold m_arms; simpl. apply imp_remove_arm_arms.
Qed.

Theorem removed_arm_gone (m : mab) a :
  NoDup (m_arms m) -> snd (step N aeqb RG m (RemoveArm a)) = ODone ->
  ~ In a (m_arms (fst (step N aeqb RG m (RemoveArm a)))).
Proof.
  intros Hn Hd. destruct (remove_arm_arms m a Hd) as [_ E]. rewrite E.
  apply (lremove_not_in aeqb aeqb_spec); exact Hn.
Qed.

End FacadeArms.
