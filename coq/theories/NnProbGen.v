(* NnProbGen.v — finding D24 for EVERY neighbourhood bandit, not only the witness of C08NnProb.v: the model's record of
   no_nhood_prob_of_arm is never resized, so
     - training calls keep "one probability per arm" (fit, partial_fit leave both the list and the arms alone);
     - add_arm ALWAYS breaks it when it held, and remove_arm of a present arm always breaks it;
     - with no list configured (None) it holds forever.
   Together with nbr_row (Nbr.v), which answers None for an empty neighbourhood when nnprob_len_ok is false, this says
   that the raise of D24 happens after every arm change of a Radius/LSH bandit with the option set. *)
From Coq Require Import ZArith List Bool Arith Lia.
From MW Require Import Num Assoc AssocFacts Rng Par CF CFInv CFClean CFForget Matrix Lin Nbr NbrFacts.
Import ListNotations.

Section NnProbGen.
Context {R A G : Type} (N : Num R) (aeqb : A -> A -> bool) (RG : RngOps R G).
Hypothesis aeqb_spec : forall x y, aeqb x y = true <-> x = y.

Notation nbr := (@nbr R A G).

Lemma nnprob_none_ok (s : nbr) : n_nnprob s = None -> nnprob_len_ok s = true.
Proof. unfold nnprob_len_ok. intros E; rewrite E; reflexivity. Qed.

Lemma set_hist_nnprob (s : nbr) l ds rs cx :
  n_nnprob (set_hist s l ds rs cx) = n_nnprob s /\ n_arms (set_hist s l ds rs cx) = n_arms s.
Proof. split; reflexivity. Qed.

Lemma nbr_partial_fit_nnprob (s : nbr) ds rs cx :
  n_nnprob (nbr_partial_fit N s ds rs cx) = n_nnprob s /\ n_arms (nbr_partial_fit N s ds rs cx) = n_arms s.
Proof.
  unfold nbr_partial_fit. destruct (lp_binarize (n_lp s) ds rs) as [l' rs'].
  cbv zeta. destruct (n_kind s); split; reflexivity.
Qed.

Lemma nbr_fit_nnprob (s : nbr) g ds rs cx :
  n_nnprob (fst (nbr_fit N RG s g ds rs cx)) = n_nnprob s /\ n_arms (fst (nbr_fit N RG s g ds rs cx)) = n_arms s.
Proof.
  unfold nbr_fit. destruct (lp_binarize (n_lp s) ds rs) as [l' rs'].
  cbv zeta. destruct (n_kind s); try (split; reflexivity).
  destruct (draw_planes _ _ _ _) as [pl g']. split; reflexivity.
Qed.

Theorem training_keeps_one_probability_per_arm (s : nbr) g ds rs cx :
  nnprob_len_ok (fst (nbr_fit N RG s g ds rs cx)) = nnprob_len_ok s /\
  nnprob_len_ok (nbr_partial_fit N s ds rs cx) = nnprob_len_ok s.
Proof.
  unfold nnprob_len_ok.
  destruct (nbr_fit_nnprob s g ds rs cx) as [E1 E2]. destruct (nbr_partial_fit_nnprob s ds rs cx) as [E3 E4].
  rewrite E1, E2, E3, E4. split; reflexivity.
Qed.

Theorem add_arm_breaks_one_probability_per_arm (s : nbr) a bz p :
  n_nnprob s = Some p -> nnprob_len_ok s = true -> nnprob_len_ok (nbr_add_arm N aeqb s a bz) = false.
Proof.
  unfold nnprob_len_ok, nbr_add_arm. cbn [n_nnprob n_arms]. intros E; rewrite E.
  intros H. apply Nat.eqb_eq in H. apply Nat.eqb_neq. rewrite app_length. simpl. lia.
Qed.

Lemma lremove_length (l : list A) a : In a l -> S (length (lremove aeqb l a)) = length l.
Proof.
  induction l as [|y t IH]; simpl; [tauto|].
  destruct (aeqb a y) eqn:E; [reflexivity|].
  intros [H|H]; [subst; assert (aeqb a a = true) by (apply aeqb_spec; reflexivity); congruence|].
  simpl. rewrite IH; [reflexivity | exact H].
Qed.

Theorem remove_arm_breaks_one_probability_per_arm (s : nbr) a p :
  n_nnprob s = Some p -> nnprob_len_ok s = true -> In a (n_arms s) ->
  nnprob_len_ok (nbr_remove_arm N aeqb s a) = false.
Proof.
  unfold nnprob_len_ok, nbr_remove_arm. cbn [n_nnprob n_arms]. intros E; rewrite E.
  intros H Hin. apply Nat.eqb_eq in H. apply Nat.eqb_neq. pose proof (lremove_length _ _ Hin). lia.
Qed.

Theorem no_list_configured_stays_ok (s : nbr) a bz :
  n_nnprob s = None ->
  nnprob_len_ok (nbr_add_arm N aeqb s a bz) = true /\ nnprob_len_ok (nbr_remove_arm N aeqb s a) = true.
Proof. intros E. split; apply nnprob_none_ok; cbn [nbr_add_arm nbr_remove_arm n_nnprob]; exact E. Qed.

(* the neighbourhood of a query is a function of the kind, the metric and the stored history: arm changes leave it alone *)
Lemma neighborhood_arm_change (s : nbr) a bz row orc :
  neighborhood N (nbr_add_arm N aeqb s a bz) row orc = neighborhood N s row orc /\
  neighborhood N (nbr_remove_arm N aeqb s a) row orc = neighborhood N s row orc.
Proof. split; reflexivity. Qed.

(* D24, every instance: the list was fine, an arm is added (or a present arm removed), and every later predict() on a
   context whose neighbourhood is empty is rejected - whatever the seed, the learning policy copy or the oracle *)
Theorem arm_change_makes_empty_neighbourhood_predict_raise (s : nbr) a bz p l seed row orc :
  n_nnprob s = Some p -> nnprob_len_ok s = true -> neighborhood N s row orc = Some [] ->
  nbr_row N aeqb RG (nbr_add_arm N aeqb s a bz) l seed row orc true = None /\
  (In a (n_arms s) -> nbr_row N aeqb RG (nbr_remove_arm N aeqb s a) l seed row orc true = None).
Proof.
  intros E Hok Hn. destruct (neighborhood_arm_change s a bz row orc) as [N1 N2]. split.
  - apply (empty_neighbourhood N aeqb RG); [rewrite N1; exact Hn|].
    eapply add_arm_breaks_one_probability_per_arm; eassumption.
  - intros Hin. apply (empty_neighbourhood N aeqb RG); [rewrite N2; exact Hn|].
    eapply remove_arm_breaks_one_probability_per_arm; eassumption.
Qed.

(* and the expectations query is NOT affected: predict_expectations answers the stored dictionary as before *)
Theorem arm_change_keeps_empty_neighbourhood_expectations (s : nbr) a bz l seed row orc :
  neighborhood N s row orc = Some [] ->
  exists r, nbr_row N aeqb RG (nbr_add_arm N aeqb s a bz) l seed row orc false
            = Some (inr (n_exp (nbr_add_arm N aeqb s a bz)), r).
Proof.
  intros Hn. destruct (neighborhood_arm_change s a bz row orc) as [N1 _].
  apply (empty_neighbourhood N aeqb RG); rewrite N1; exact Hn.
Qed.

End NnProbGen.
