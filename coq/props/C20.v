(*  C20 — Results are invariant to arm names and to the order of training rows.
   
    PROVED:
     * RENAMING, every policy combination, every history (run_respects_renaming / renamed_run_returns_renamed_results): the
       model is parametric in the label type and touches labels only through the equality test, so the relational-parametricity
       translation of [run] (Paramcoq; the generated term is checked by the kernel) relates the runs of any two bandits whose
       states and calls are related by a renaming f with beqb (f x) (f y) = aeqb x y: each call is accepted or rejected alike,
       every prediction is f of the original prediction, every expectation dictionary has the keys renamed by f in the same
       order with EQUAL values (bit-for-bit: the number structure is related by equality), and the final states are related;
     * renaming (specification level): for every renaming f of the arms under which label equality is preserved (every injection), the
       renamed arm sees, in the renamed history, exactly the reward batches the original arm sees - so by the
       closed forms of C01 every statistic is unchanged (structural: holds bit-for-bit);
     * row order (exact arithmetic): permuting the rows of a batch leaves the sum and the number of rewards of
       every arm unchanged;
     * shift law (exact arithmetic): adding c to every reward of a non-empty list shifts its mean by exactly c
       (EpsilonGreedy exploit value; UCB1 adds a bonus that does not depend on the rewards; Softmax subtracts the
       maximal mean, so the shift cancels).
     * row order, LINEAR policies (exact arithmetic, scale=False; RowOrder.v): X'X and X'y do not depend on the order of the rows, so
       fit on the same observations in another order leaves A, X'y, A^-1 and beta of every arm unchanged;
     * row order, CONTEXT-FREE policies as a statement about the whole object (RowOrderCF.v, RowOrderFacade.v): a per-arm task reads the batch only through
       the sum, number and emptiness of the arm's rewards, so fit / partial_fit on permuted rows leave the SAME policy object (Thompson's binarizer applied row
       by row), and the public facade answers both calls alike;
     * row order, LINEAR policies as a statement about the whole object, scale=True INCLUDED (RowOrderLin.v): _RidgeRegression.fit depends on its
       rows only through column sums, X'X and X'y, so on permuted (context, reward) pairs it returns the same regression whatever it held before
       (first fit, partial fits, standardisation fitted or updated); fit and partial_fit on a permuted rectangular batch leave the SAME policy object;
     * row order, RADIUS (NbrRowOrder.v): what a query selects is a FILTER of the stored history (decision, reward, context triples whose
       context is within the radius), so two policies whose histories are permutations of each other select, for every query,
       permutations of the same observations (any number structure), the neighbourhood is empty for both or neither, and (exact
       arithmetic) the learning policy receives the same reward sum and count for every arm;
     * row order, LSHNearest (LshWhole.v): likewise a query selects the filter of the stored history by "collides with the query in some table",
       so with the same planes permuted histories give permuted selections;
     * REWARD SCALE, LinGreedy (RewardScale.v; exact arithmetic, scale=True or False): multiplying every reward by c multiplies X'y and beta of every arm by c and
       leaves A, A^-1 and the standardisation untouched - an invariant of fit and of every later partial_fit - so every exploit value x.beta is multiplied by c;
    ..._partial: KNearest row-order invariance (ties at the k-th distance are broken by position; the property excludes it) is checked by the transformed-twin
    relation on the implementation. *)
From Coq Require Import List ZArith Bool Arith QArith Qcanon Permutation.
From MW Require Import Num Assoc AssocFacts Rng Par CF CFInv CFClean CFForget CFSpec Matrix Lin Warm WarmInv Nbr NbrFacts NbrIndep LshFacts Clu Tree CellFacts Mab FacadeCF FacadeArms MoreFacts NumLaws CFAlg Sim Extra QcInst OrderFacts ExpIrrel LinInv FacadeLin LpInv NbrInv CluTreeInv FacadeAll ToyFacts C09All C10All LinForget LinSim MatrixFacts GaussJordan LinSpec NbrIndepGen CluIndep C17Lin WarmIdem C14More LshScale TreeLeaf Rename PopSpec CopyFacts StatFacts CluBatch LinWarm RowOrder NbrRowOrder LshWhole RowOrderLin RowOrderCF RowOrderFacade RewardScale.
Import ListNotations.

Theorem C20_renamed_arm_sees_the_same_reward_batches :
  forall (R A B : Type) (aeqb : A -> A -> bool) (beqb : B -> B -> bool) (f : A -> B),
  (forall x y : A, beqb (f x) (f y) = aeqb x y) ->
  forall (rops : list (@cfop R A)) (a : A),
  batches_rev beqb (map (relabel_op f) rops) (f a) = batches_rev aeqb rops a.
Proof. exact @batches_relabel. Qed.
Print Assumptions C20_renamed_arm_sees_the_same_reward_batches.

Theorem C20_row_order_irrelevant_partial :
  forall (R A : Type) (N : Num R),
  NumLaws N ->
  forall (aeqb : A -> A -> bool) (a : A) (rows rows' : list (A * R)),
  Permutation rows rows' ->
  nsum N (arm_rewards aeqb a (map fst rows) (map snd rows)) =
  nsum N (arm_rewards aeqb a (map fst rows') (map snd rows')) /\
  length (arm_rewards aeqb a (map fst rows) (map snd rows)) =
  length (arm_rewards aeqb a (map fst rows') (map snd rows')).
Proof. exact @row_order_irrelevant. Qed.
Print Assumptions C20_row_order_irrelevant_partial.

Theorem C20_mean_shift_law :
  forall (R : Type) (N : Num R),
  NumLaws N ->
  forall (l : list R) (c : R),
  l <> [] ->
  div N (nsum N (map (fun r : R => add N r c) l)) (of_Z N (Z.of_nat (length l))) =
  add N (div N (nsum N l) (of_Z N (Z.of_nat (length l)))) c.
Proof. exact @mean_shift. Qed.
Print Assumptions C20_mean_shift_law.

Theorem C20_ridge_fit_reward_scale :
  forall (R G : Type) (N : Num R),
  NumLaws N ->
  forall (d : nat) (c : R) (m1 m2 m1' : (@ridge R G)) (x : (@mat R)) (y : (@vec R)),
  scaled N c m1 m2 ->
  ridge_fit N d m1 x y = Some m1' ->
  exists m2' : (@ridge R G), ridge_fit N d m2 x (map (mul N c) y) = Some m2' /\ scaled N c m1' m2'.
Proof. exact @ridge_fit_reward_scale. Qed.
Print Assumptions C20_ridge_fit_reward_scale.

Theorem C20_linear_fit_reward_scale :
  forall (R A G : Type) (N : Num R),
  NumLaws N ->
  forall (aeqb : A -> A -> bool) (c : R) (s : (@lin R A G)) (g : G) (ds : list A) (rs : list R) (cx : (@mat R)),
  length ds = length rs ->
  snd (lin_fit N aeqb s g ds rs cx) = true ->
  snd (lin_fit N aeqb s g ds (map (mul N c) rs) cx) = true /\
  lin_scaled N c (fst (lin_fit N aeqb s g ds rs cx)) (fst (lin_fit N aeqb s g ds (map (mul N c) rs) cx)).
Proof. exact @lin_fit_reward_scale. Qed.
Print Assumptions C20_linear_fit_reward_scale.

Theorem C20_linear_partial_fit_reward_scale :
  forall (R A G : Type) (N : Num R),
  NumLaws N ->
  forall (aeqb : A -> A -> bool) (c : R) (s1 s2 : (@lin R A G)) (g : G) (ds : list A) (rs : list R) (cx : (@mat R)),
  length ds = length rs ->
  lin_scaled N c s1 s2 ->
  snd (lin_partial_fit N aeqb s1 g ds rs cx) = true ->
  snd (lin_partial_fit N aeqb s2 g ds (map (mul N c) rs) cx) = true /\
  lin_scaled N c (fst (lin_partial_fit N aeqb s1 g ds rs cx))
    (fst (lin_partial_fit N aeqb s2 g ds (map (mul N c) rs) cx)).
Proof. exact @lin_partial_fit_reward_scale. Qed.
Print Assumptions C20_linear_partial_fit_reward_scale.

Theorem C20_lingreedy_exploit_value_scales :
  forall (R A G : Type) (N : Num R),
  NumLaws N ->
  forall (RG : RngOps R G) (s : (@lin R A G)) (c : R) (m1 m2 : (@ridge R G)) (g : G) (x : (@mat R)),
  l_kind s = RRidge ->
  scaled N c m1 m2 ->
  fst (fst (ridge_predict N RG s m2 g x)) = map (mul N c) (fst (fst (ridge_predict N RG s m1 g x))).
Proof. exact @lingreedy_exploit_value_scales. Qed.
Print Assumptions C20_lingreedy_exploit_value_scales.

Theorem C20_context_free_fit_on_permuted_rows_same_object :
  forall (R A : Type) (N : Num R),
  NumLaws N ->
  forall (aeqb : A -> A -> bool) (s : (@cf R A)) (rows rows' : list (A * R)),
  Permutation rows rows' ->
  cf_fit N aeqb s (map fst rows) (map snd rows) = cf_fit N aeqb s (map fst rows') (map snd rows').
Proof. exact @cf_fit_permutation. Qed.
Print Assumptions C20_context_free_fit_on_permuted_rows_same_object.

Theorem C20_context_free_partial_fit_on_permuted_rows_same_object :
  forall (R A : Type) (N : Num R),
  NumLaws N ->
  forall (aeqb : A -> A -> bool) (s : (@cf R A)) (rows rows' : list (A * R)),
  Permutation rows rows' ->
  cf_partial_fit N aeqb s (map fst rows) (map snd rows) =
  cf_partial_fit N aeqb s (map fst rows') (map snd rows').
Proof. exact @cf_partial_fit_permutation. Qed.
Print Assumptions C20_context_free_partial_fit_on_permuted_rows_same_object.

Theorem C20_context_free_training_ignores_the_row_order_at_the_facade :
  forall (R A G : Type) (N : Num R),
  NumLaws N ->
  forall (aeqb : A -> A -> bool) (RG : RngOps R G) (m : (@mab R A G)) (c : (@cf R A)) (rows rows' : list (A * R))
    (o o' : (@oracle R A)),
  m_imp m = ICf c ->
  Permutation rows rows' ->
  step N aeqb RG m (Fit (map fst rows) (map snd rows) None o) =
  step N aeqb RG m (Fit (map fst rows') (map snd rows') None o') /\
  step N aeqb RG m (PartialFit (map fst rows) (map snd rows) None o) =
  step N aeqb RG m (PartialFit (map fst rows') (map snd rows') None o').
Proof. exact @context_free_training_ignores_the_row_order. Qed.
Print Assumptions C20_context_free_training_ignores_the_row_order_at_the_facade.

Theorem C20_ridge_fit_invariant_under_row_permutation :
  forall (R G : Type) (N : Num R),
  NumLaws N ->
  forall (d : nat) (m : (@ridge R G)) (xy xy' : list (list R * R)),
  Permutation xy xy' ->
  ridge_fit N d m (map fst xy) (map snd xy) = ridge_fit N d m (map fst xy') (map snd xy').
Proof. exact @ridge_fit_permutation. Qed.
Print Assumptions C20_ridge_fit_invariant_under_row_permutation.

Theorem C20_linear_fit_on_permuted_rows_same_object :
  forall (R A G : Type) (N : Num R),
  NumLaws N ->
  forall (aeqb : A -> A -> bool) (s : (@lin R A G)) (g : G) (rows rows' : list (A * R * list R)),
  Permutation rows rows' ->
  uniform_width (ncols (cx_of rows)) (cx_of rows) ->
  lin_fit N aeqb s g (ds_of rows) (rs_of rows) (cx_of rows) =
  lin_fit N aeqb s g (ds_of rows') (rs_of rows') (cx_of rows').
Proof. exact @lin_fit_permutation. Qed.
Print Assumptions C20_linear_fit_on_permuted_rows_same_object.

Theorem C20_linear_partial_fit_on_permuted_rows_same_object :
  forall (R A G : Type) (N : Num R),
  NumLaws N ->
  forall (aeqb : A -> A -> bool) (s : (@lin R A G)) (g : G) (rows rows' : list (A * R * list R)) (w : nat),
  Permutation rows rows' ->
  uniform_width w (cx_of rows) ->
  lin_partial_fit N aeqb s g (ds_of rows) (rs_of rows) (cx_of rows) =
  lin_partial_fit N aeqb s g (ds_of rows') (rs_of rows') (cx_of rows').
Proof. exact @lin_partial_fit_permutation. Qed.
Print Assumptions C20_linear_partial_fit_on_permuted_rows_same_object.

Theorem C20_lsh_row_order_selects_a_permutation :
  forall (R A G : Type) (N : Num R) (s s' : (@nbr R A G)) (h h' : list (A * R * list R)) 
    (ndim nt : nat) (row : list R) (idx idx' : list nat),
  n_kind s = NLsh ndim nt ->
  n_kind s' = NLsh ndim nt ->
  n_planes s = n_planes s' ->
  lsh_inv N s ->
  lsh_inv N s' ->
  n_ds s = ds_of h ->
  n_rs s = rs_of h ->
  n_cx s = cx_of h ->
  n_ds s' = ds_of h' ->
  n_rs s' = rs_of h' ->
  n_cx s' = cx_of h' ->
  Permutation h h' ->
  neighborhood N s row [] = Some idx ->
  neighborhood N s' row [] = Some idx' ->
  exists sel sel' : list (A * R * list R),
    selected N s idx = (ds_of sel, rs_of sel, cx_of sel) /\
    selected N s' idx' = (ds_of sel', rs_of sel', cx_of sel') /\ Permutation sel sel'.
Proof. exact @lsh_row_order_selects_a_permutation. Qed.
Print Assumptions C20_lsh_row_order_selects_a_permutation.

Theorem C20_radius_selects_a_filter_of_the_history :
  forall (R A G : Type) (N : Num R) (s : (@nbr R A G)) (h : list (A * R * list R)) (r : R) 
    (row : list R) (idx : list nat),
  n_kind s = NRadius r ->
  n_ds s = ds_of h ->
  n_rs s = rs_of h ->
  n_cx s = cx_of h ->
  neighborhood N s row [] = Some idx ->
  selected N s idx =
  (ds_of (filter (within N s r row) h), rs_of (filter (within N s r row) h),
   cx_of (filter (within N s r row) h)).
Proof. exact @radius_selects_a_filter_of_the_history. Qed.
Print Assumptions C20_radius_selects_a_filter_of_the_history.

Theorem C20_radius_row_order_selects_a_permutation :
  forall (R A G : Type) (N : Num R) (s s' : (@nbr R A G)) (h h' : list (A * R * list R)) 
    (r : R) (row : list R) (idx idx' : list nat),
  n_kind s = NRadius r ->
  n_kind s' = NRadius r ->
  n_metric s = n_metric s' ->
  n_ds s = ds_of h ->
  n_rs s = rs_of h ->
  n_cx s = cx_of h ->
  n_ds s' = ds_of h' ->
  n_rs s' = rs_of h' ->
  n_cx s' = cx_of h' ->
  Permutation h h' ->
  neighborhood N s row [] = Some idx ->
  neighborhood N s' row [] = Some idx' ->
  exists sel sel' : list (A * R * list R),
    selected N s idx = (ds_of sel, rs_of sel, cx_of sel) /\
    selected N s' idx' = (ds_of sel', rs_of sel', cx_of sel') /\
    Permutation sel sel' /\ (idx = [] <-> idx' = []).
Proof. exact @radius_row_order_selects_a_permutation. Qed.
Print Assumptions C20_radius_row_order_selects_a_permutation.

Theorem C20_radius_row_order_same_statistics :
  forall (R A : Type) (N : Num R) (aeqb : A -> A -> bool),
  NumLaws N ->
  forall (sel sel' : list (A * R * list R)) (a : A),
  Permutation sel sel' ->
  nsum N (arm_rewards aeqb a (ds_of sel) (rs_of sel)) =
  nsum N (arm_rewards aeqb a (ds_of sel') (rs_of sel')) /\
  length (arm_rewards aeqb a (ds_of sel) (rs_of sel)) =
  length (arm_rewards aeqb a (ds_of sel') (rs_of sel')).
Proof. exact @radius_row_order_same_statistics. Qed.
Print Assumptions C20_radius_row_order_same_statistics.

Theorem C20_linear_fit_row_order_irrelevant :
  forall (R A G : Type) (N : Num R),
  NumLaws N ->
  forall aeqb : A -> A -> bool,
  (forall x y : A, aeqb x y = true <-> x = y) ->
  forall (s0 : (@lin R A G)) (g g' : G) (rows rows' : list (A * R * list R)) (a : A),
  lin_keys_ok s0 ->
  In a (l_arms s0) ->
  l_scale s0 = false ->
  Permutation rows rows' ->
  ncols (cx_of rows) = ncols (cx_of rows') ->
  snd (lin_fit N aeqb s0 g (ds_of rows) (rs_of rows) (cx_of rows)) = true ->
  snd (lin_fit N aeqb s0 g' (ds_of rows') (rs_of rows') (cx_of rows')) = true ->
  let mk := model aeqb (fst (lin_fit N aeqb s0 g (ds_of rows) (rs_of rows) (cx_of rows))) a in
  let mk' := model aeqb (fst (lin_fit N aeqb s0 g' (ds_of rows') (rs_of rows') (cx_of rows'))) a in
  r_A mk = r_A mk' /\ r_Xty mk = r_Xty mk' /\ r_Ainv mk = r_Ainv mk' /\ r_beta mk = r_beta mk'.
Proof. exact @lin_fit_row_order_irrelevant. Qed.
Print Assumptions C20_linear_fit_row_order_irrelevant.

Theorem C20_gram_matrix_invariant_under_row_permutation :
  forall (R : Type) (N : Num R),
  NumLaws N -> forall (d : nat) (x x' : (@mat R)), Permutation x x' -> xtx N d x = xtx N d x'.
Proof. exact @xtx_permutation. Qed.
Print Assumptions C20_gram_matrix_invariant_under_row_permutation.

Theorem C20_moment_vector_invariant_under_row_permutation :
  forall (R : Type) (N : Num R),
  NumLaws N ->
  forall (d : nat) (xy xy' : list (list R * R)),
  Permutation xy xy' -> xty N d (map fst xy) (map snd xy) = xty N d (map fst xy') (map snd xy').
Proof. exact @xty_permutation. Qed.
Print Assumptions C20_moment_vector_invariant_under_row_permutation.


Theorem C20_renamed_runs_are_related_every_policy_combination :
  forall (R A B G : Type) (N : Num R) (aeqb : A -> A -> bool) (beqb : B -> B -> bool) (RG : RngOps R G) (f : A -> B),
  (forall x y : A, beqb (f x) (f y) = aeqb x y) ->
  forall (m1 : @mab R A G) (m2 : @mab R B G) (ops1 : list (@op R A)) (ops2 : list (@op R B)),
  mab_R R R eq A B (renamed f) G G eq m1 m2 ->
  list_R _ _ (op_R R R eq A B (renamed f)) ops1 ops2 ->
  prod_R _ _ (mab_R R R eq A B (renamed f) G G eq) _ _ (list_R _ _ (out_R R R eq A B (renamed f)))
         (run N aeqb RG m1 ops1) (run N beqb RG m2 ops2).
Proof. exact @run_respects_renaming. Qed.
Print Assumptions C20_renamed_runs_are_related_every_policy_combination.

Theorem C20_renamed_run_returns_renamed_results :
  forall (R A B G : Type) (N : Num R) (aeqb : A -> A -> bool) (beqb : B -> B -> bool) (RG : RngOps R G) (f : A -> B),
  (forall x y : A, beqb (f x) (f y) = aeqb x y) ->
  forall (m1 : @mab R A G) (m2 : @mab R B G) (ops1 : list (@op R A)) (ops2 : list (@op R B)),
  mab_R R R eq A B (renamed f) G G eq m1 m2 ->
  list_R _ _ (op_R R R eq A B (renamed f)) ops1 ops2 ->
  snd (run N beqb RG m2 ops2) = map (out_rename f) (snd (run N aeqb RG m1 ops1)).
Proof. exact @renamed_run_returns_renamed_results. Qed.
Print Assumptions C20_renamed_run_returns_renamed_results.

Theorem C20_related_outputs_are_renamed_outputs :
  forall (R A B : Type) (f : A -> B) (o1 : @out R A) (o2 : @out R B),
  out_R R R eq A B (renamed f) o1 o2 -> o2 = out_rename f o1.
Proof. exact @related_outputs_are_renamed_outputs. Qed.
Print Assumptions C20_related_outputs_are_renamed_outputs.

(* non-vacuity of the renaming theorem: related inputs exist (a UCB1 bandit, arms renamed by z -> z + 100) and the renamed
   run returns the renamed results *)
Definition rn (z : Z) : Z := (z + 100)%Z.
Lemma rn_eqb x y : Z.eqb (rn x) (rn y) = Z.eqb x y.
Proof. unfold rn. destruct (Z.eqb_spec x y) as [E|E]; destruct (Z.eqb_spec (x + 100) (y + 100)) as [E2|E2]; try reflexivity.
  - subst; contradiction.
  - exfalso; apply E. apply (proj1 (Z.add_cancel_r x y 100%Z) E2). Qed.
Definition rx_orc : @oracle Qc Z := mkOracle [] [] [] (fun _ _ => 0%nat) [].
Definition rx_m1 : @mab Qc Z nat := {| m_imp := ICf (cf_init QcNum KUcb 1%Qc None [3; 1; 2]%Z); m_fitted := false; m_rng := 0%nat |}.
Definition rx_m2 : @mab Qc Z nat := {| m_imp := ICf (cf_init QcNum KUcb 1%Qc None [103; 101; 102]%Z); m_fitted := false; m_rng := 0%nat |}.
Definition rx_ops1 : list (@op Qc Z) := [Fit [3; 1; 1]%Z [1%Qc; 0%Qc; 1%Qc] None rx_orc; AddArm 7%Z None; Predict None rx_orc; PredictExp None rx_orc].
Definition rx_ops2 : list (@op Qc Z) := [Fit [103; 101; 101]%Z [1%Qc; 0%Qc; 1%Qc] None rx_orc; AddArm 107%Z None; Predict None rx_orc; PredictExp None rx_orc].
Ltac rel := repeat (first [reflexivity | (unfold renamed, rn; reflexivity) | apply nat_R_refl | apply Z_R_refl | apply bool_R_refl | constructor | (intros; apply nat_R_refl)]).
Example C20_related_inputs_exist :
  (mab_R Qc Qc eq Z Z (renamed rn) nat nat eq rx_m1 rx_m2 * list_R _ _ (op_R Qc Qc eq Z Z (renamed rn)) rx_ops1 rx_ops2)%type.
Proof. split; unfold rx_m1, rx_m2, rx_ops1, rx_ops2, rx_orc, cf_init; simpl; rel. Qed.
Example C20_renamed_run :
  snd (run QcNum Z.eqb ToyRng rx_m2 rx_ops2) = map (out_rename rn) (snd (run QcNum Z.eqb ToyRng rx_m1 rx_ops1)) /\
  nth 2 (snd (run QcNum Z.eqb ToyRng rx_m2 rx_ops2)) ODone = OArm (Some 103%Z).
Proof. split; [apply (renamed_run_returns_renamed_results QcNum Z.eqb Z.eqb ToyRng rn rn_eqb); apply C20_related_inputs_exist | vm_compute; reflexivity]. Qed.

(* non-vacuity of the linear row-order theorem: a LinUCB policy over the rationals, four observations and their reversal *)
Definition q20 (z : Z) : Qc := Q2Qc (inject_Z z).
Definition ex20_s0 : @lin Qc Z nat := lin_init QcNum RUcb (q20 1) (q20 0) (q20 2) false false [1; 2]%Z.
Definition ex20_rows : list (Z * Qc * list Qc) :=
  [(1%Z, q20 1, [q20 1; q20 0]); (2%Z, q20 0, [q20 0; q20 1]); (1%Z, q20 2, [q20 1; q20 1]); (1%Z, q20 5, [q20 2; q20 3])].
Example C20_linear_row_order_hypotheses_satisfiable :
  lin_keys_ok ex20_s0 /\ In 1%Z (l_arms ex20_s0) /\ l_scale ex20_s0 = false /\ Permutation ex20_rows (rev ex20_rows) /\
  ex20_rows <> rev ex20_rows /\
  ncols (cx_of ex20_rows) = ncols (cx_of (rev ex20_rows)) /\
  snd (lin_fit QcNum Z.eqb ex20_s0 0%nat (ds_of ex20_rows) (rs_of ex20_rows) (cx_of ex20_rows)) = true /\
  snd (lin_fit QcNum Z.eqb ex20_s0 0%nat (ds_of (rev ex20_rows)) (rs_of (rev ex20_rows)) (cx_of (rev ex20_rows))) = true.
Proof.
  split; [apply lin_keys_ok_init; repeat constructor; simpl; intuition discriminate|].
  split; [left; reflexivity|]. split; [reflexivity|]. split; [apply Permutation_rev|].
  split; [vm_compute; discriminate|]. split; [reflexivity|]. split; vm_compute; reflexivity.
Qed.

Example C20_reward_scale_hypotheses_satisfiable :
  length (ds_of ex20_rows) = length (rs_of ex20_rows) /\
  snd (lin_fit QcNum Z.eqb ex20_s0 0%nat (ds_of ex20_rows) (rs_of ex20_rows) (cx_of ex20_rows)) = true.
Proof. split; vm_compute; reflexivity. Qed.

