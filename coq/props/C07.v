(*  C07 — fit discards everything learned before.
   
    PROVED for the six context-free learning policies, for every reachable state (the two reachable-state
    invariants keys_ok and clean are proved to hold after every history in C08 / CFClean), every data set:
     * fit(D) on the used policy object yields exactly (Leibniz equality) the state fit(D) yields on a freshly
       constructed object with the same configuration and current arm list; for Thompson Sampling up to the
       stored copy of the last sample, which no operation reads (statistics, trained / warm status, warm-start
       copies, UCB1's N, Popularity's normalisation flag are all included in the equality);
     * at the facade: fit on the used bandit and on the fresh bandit are accepted or rejected alike, leave the
       same fitted flag, generator and cold_arms, and related implementation states.
     * LINEAR policies: fit(D) on the used policy equals (Leibniz) fit(D) on [lin_strip s], the freshly constructed
       policy in which each per-arm regression holds the generator copy it holds in s - NOTHING else survives a fit
       (lin_fit_forgets, lin_strip_is_fresh).  For LinGreedy / LinUCB those copies are never read: every operation
       commutes with erasing them and answers alike (LinSim), so fit discards everything observable.  For LinTS they
       are read by predict: that is finding D8, characterised exactly by this theorem.
    ..._partial: neighbourhood policies are covered by the refit-versus-fresh relation executed on the implementation. *)
From Coq Require Import List ZArith Bool Arith QArith Qcanon Permutation.
From MW Require Import Num Assoc AssocFacts Rng Par CF CFInv CFClean CFForget CFSpec Matrix Lin Warm WarmInv Nbr NbrFacts NbrIndep LshFacts Clu Tree CellFacts Mab FacadeCF FacadeArms MoreFacts NumLaws CFAlg Sim Extra QcInst OrderFacts ExpIrrel LinInv FacadeLin LpInv NbrInv CluTreeInv FacadeAll ToyFacts C09All C10All LinForget LinSim MatrixFacts LinSpec.
Import ListNotations.

Theorem C07_fit_forgets_context_free :
  forall (R A : Type) (N : Num R) (aeqb : A -> A -> bool) (s : (@cf R A)) (ds : list A) (rs : list R),
  keys_ok s ->
  clean N s ->
  cf_fit N aeqb s ds rs =
  match c_kind s with
  | KThompson => set_exp (cf_fit N aeqb (cf_fresh N s) ds rs) (c_exp s)
  | _ => cf_fit N aeqb (cf_fresh N s) ds rs
  end.
Proof. exact @cf_fit_forgets. Qed.
Print Assumptions C07_fit_forgets_context_free.

Theorem C07_fit_forgets_at_the_facade_partial :
  forall (R A G : Type) (N : Num R) (aeqb : A -> A -> bool) (RG : RngOps R G),
  (forall x y : A, aeqb x y = true <-> x = y) ->
  forall (m : (@mab R A G)) (ds : list A) (rs : list R) (cx : option (@ctxs R)) (orc : (@oracle R A)),
  is_cf m ->
  mab_inv N m ->
  let r := step N aeqb RG m (Fit ds rs cx orc) in
  let r' := step N aeqb RG (mab_fresh N m) (Fit ds rs cx orc) in
  snd r = snd r' /\
  (snd r = ODone ->
   imp_rel (m_imp (fst r)) (m_imp (fst r')) /\
   m_fitted (fst r) = m_fitted (fst r') /\
   m_rng (fst r) = m_rng (fst r') /\ mab_cold_arms aeqb (fst r) = mab_cold_arms aeqb (fst r')).
Proof. exact @fit_forgets_facade. Qed.
Print Assumptions C07_fit_forgets_at_the_facade_partial.

Theorem C07_invariants_hold_after_every_history :
  forall (R A G : Type) (N : Num R) (aeqb : A -> A -> bool) (RG : RngOps R G),
  (forall x y : A, aeqb x y = true <-> x = y) ->
  forall (ops : list (@op R A)) (m : (@mab R A G)),
  rng_lengths_ok RG ->
  is_cf m ->
  mab_inv N m -> is_cf (state_after N aeqb RG m ops) /\ mab_inv N (state_after N aeqb RG m ops).
Proof. exact @run_preserves_inv. Qed.
Print Assumptions C07_invariants_hold_after_every_history.

Theorem C07_linear_fit_keeps_only_private_generator_copies :
  forall (R A G : Type) (N : Num R) (aeqb : A -> A -> bool) (s : (@lin R A G)) (g : G) 
    (ds : list A) (rs : list R) (cx : (@mat R)),
  lin_fit N aeqb (lin_strip s) g ds rs cx = lin_fit N aeqb s g ds rs cx.
Proof. exact @lin_fit_forgets. Qed.
Print Assumptions C07_linear_fit_keeps_only_private_generator_copies.

Theorem C07_linear_stripped_policy_is_the_constructed_one :
  forall (R A G : Type) (N : Num R) (s : (@lin R A G)),
  lin_keys_ok s ->
  lin_exp_zero N s ->
  let f := lin_fresh N s in
  l_kind (lin_strip s) = l_kind f /\
  l_alpha (lin_strip s) = l_alpha f /\
  l_eps (lin_strip s) = l_eps f /\
  l_l2 (lin_strip s) = l_l2 f /\
  l_scale (lin_strip s) = l_scale f /\
  l_kf_ainv (lin_strip s) = l_kf_ainv f /\
  l_nf (lin_strip s) = l_nf f /\
  l_arms (lin_strip s) = l_arms f /\
  l_exp (lin_strip s) = l_exp f /\
  l_status (lin_strip s) = l_status f /\
  map
    (fun am : A * (@ridge R G) =>
     (fst am,
      {|
        r_beta := r_beta (snd am);
        r_A := r_A (snd am);
        r_Ainv := r_Ainv (snd am);
        r_Xty := r_Xty (snd am);
        r_scaler := r_scaler (snd am);
        r_rng := None
      |})) (l_models (lin_strip s)) = l_models f.
Proof. exact @lin_strip_is_fresh. Qed.
Print Assumptions C07_linear_stripped_policy_is_the_constructed_one.

Theorem C07_lingreedy_linucb_fit_ignores_the_copies :
  forall (R A G : Type) (N : Num R) (aeqb : A -> A -> bool) (s : (@lin R A G)) (g : G) 
    (ds : list A) (rs : list R) (cx : (@mat R)),
  lin_erase (fst (lin_fit N aeqb (lin_erase s) g ds rs cx)) =
  lin_erase (fst (lin_fit N aeqb s g ds rs cx)) /\
  snd (lin_fit N aeqb (lin_erase s) g ds rs cx) = snd (lin_fit N aeqb s g ds rs cx).
Proof. exact @lin_fit_erase. Qed.
Print Assumptions C07_lingreedy_linucb_fit_ignores_the_copies.

Theorem C07_lingreedy_linucb_partial_fit_ignores_the_copies :
  forall (R A G : Type) (N : Num R) (aeqb : A -> A -> bool) (s : (@lin R A G)) (g : G) 
    (ds : list A) (rs : list R) (cx : (@mat R)),
  lin_erase (fst (lin_partial_fit N aeqb (lin_erase s) g ds rs cx)) =
  lin_erase (fst (lin_partial_fit N aeqb s g ds rs cx)) /\
  snd (lin_partial_fit N aeqb (lin_erase s) g ds rs cx) = snd (lin_partial_fit N aeqb s g ds rs cx).
Proof. exact @lin_partial_fit_erase. Qed.
Print Assumptions C07_lingreedy_linucb_partial_fit_ignores_the_copies.

Theorem C07_lingreedy_linucb_queries_ignore_the_copies :
  forall (R A G : Type) (N : Num R) (aeqb : A -> A -> bool) (RG : RngOps R G) 
    (s : (@lin R A G)) (g : G) (cx : (@mat R)),
  l_kind s <> RTs ->
  fst (fst (lin_expectations N aeqb RG (lin_erase s) g cx)) =
  fst (fst (lin_expectations N aeqb RG s g cx)) /\
  snd (lin_expectations N aeqb RG (lin_erase s) g cx) = snd (lin_expectations N aeqb RG s g cx).
Proof. exact @lin_expectations_erase. Qed.
Print Assumptions C07_lingreedy_linucb_queries_ignore_the_copies.

Theorem C07_lingreedy_linucb_warm_start_ignores_the_copies :
  forall (R A G : Type) (N : Num R) (aeqb : A -> A -> bool) (s : (@lin R A G)) (g : G) 
    (keys : list A) (raw : A -> A -> R) (q : R),
  option_map lin_erase (lin_warm_start N aeqb (lin_erase s) g keys raw q) =
  option_map lin_erase (lin_warm_start N aeqb s g keys raw q).
Proof. exact @lin_warm_start_erase. Qed.
Print Assumptions C07_lingreedy_linucb_warm_start_ignores_the_copies.

Theorem C07_lingreedy_linucb_add_arm_ignores_the_copies :
  forall (R A G : Type) (N : Num R) (aeqb : A -> A -> bool) (s : (@lin R A G)) (a : A),
  lin_erase (lin_add_arm N aeqb (lin_erase s) a) = lin_erase (lin_add_arm N aeqb s a).
Proof. exact @lin_add_arm_erase. Qed.
Print Assumptions C07_lingreedy_linucb_add_arm_ignores_the_copies.

Theorem C07_lingreedy_linucb_remove_arm_ignores_the_copies :
  forall (R A G : Type) (aeqb : A -> A -> bool) (s : (@lin R A G)) (a : A),
  lin_erase (lin_remove_arm aeqb (lin_erase s) a) = lin_erase (lin_remove_arm aeqb s a).
Proof. exact @lin_remove_arm_erase. Qed.
Print Assumptions C07_lingreedy_linucb_remove_arm_ignores_the_copies.


