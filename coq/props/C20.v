(*  C20 — Results are invariant to arm names and to the order of training rows.
   
    PROVED:
     * renaming: for every renaming f of the arms under which label equality is preserved (every injection), the
       renamed arm sees, in the renamed history, exactly the reward batches the original arm sees - so by the
       closed forms of C01 every statistic is unchanged (structural: holds bit-for-bit);
     * row order (exact arithmetic): permuting the rows of a batch leaves the sum and the number of rewards of
       every arm unchanged;
     * shift law (exact arithmetic): adding c to every reward of a non-empty list shifts its mean by exactly c
       (EpsilonGreedy exploit value; UCB1 adds a bonus that does not depend on the rewards; Softmax subtracts the
       maximal mean, so the shift cancels).
    ..._partial: LinGreedy's scale law and Radius/LSH row-order invariance are checked by the transformed-twin
    relation on the implementation. *)
From Coq Require Import List ZArith Bool Arith QArith Qcanon Permutation.
From MW Require Import Num Assoc AssocFacts Rng Par CF CFInv CFClean CFForget CFSpec Matrix Lin Warm WarmInv Nbr NbrFacts NbrIndep LshFacts Clu Tree CellFacts Mab FacadeCF FacadeArms MoreFacts NumLaws CFAlg Sim Extra QcInst.
Import ListNotations.

Theorem C20_renamed_arm_sees_the_same_reward_batches :
  forall (R A B : Type) (aeqb : A -> A -> bool) (beqb : B -> B -> bool) (f : A -> B),
  (forall x y : A, beqb (f x) (f y) = aeqb x y) ->
  forall (rops : list (@cfop R A)) (a : A),
  batches_rev beqb (map (relabel_op f) rops) (f a) = batches_rev aeqb rops a.
Proof. exact @batches_relabel. Qed.
Print Assumptions C20_renamed_arm_sees_the_same_reward_batches.

Theorem C20_row_order_irrelevant_partial :
  forall (R A : Type) (N : Num R),
  NumLaws N ->
  forall (aeqb : A -> A -> bool) (a : A) (rows rows' : list (A * R)),
  Permutation rows rows' ->
  nsum N (arm_rewards aeqb a (map fst rows) (map snd rows)) =
  nsum N (arm_rewards aeqb a (map fst rows') (map snd rows')) /\
  length (arm_rewards aeqb a (map fst rows) (map snd rows)) =
  length (arm_rewards aeqb a (map fst rows') (map snd rows')).
Proof. exact @row_order_irrelevant. Qed.
Print Assumptions C20_row_order_irrelevant_partial.

Theorem C20_mean_shift_law :
  forall (R : Type) (N : Num R),
  NumLaws N ->
  forall (l : list R) (c : R),
  l <> [] ->
  div N (nsum N (map (fun r : R => add N r c) l)) (of_Z N (Z.of_nat (length l))) =
  add N (div N (nsum N l) (of_Z N (Z.of_nat (length l)))) c.
Proof. exact @mean_shift. Qed.
Print Assumptions C20_mean_shift_law.


