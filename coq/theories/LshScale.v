(* LshScale.v — C11: multiplying a query (or a stored row) by a positive factor changes no sign of its projections,
   hence not its hash in any table, hence not its LSH neighbourhood (ordered-field laws). *)
From Coq Require Import ZArith List Bool Lia.
From MW Require Import Num NumLaws Assoc Rng CF Matrix MatrixFacts GaussJordan Lin Nbr LshFacts.
Import ListNotations.

Section LshScale.
Context {R A G : Type} (N : Num R) (L : NumLaws N).
Add Ring RingLsh : (L_ring N L).

Lemma ltb_irrefl x : ltb N x x = false.
Proof. rewrite (L_ltb_leb N L). rewrite (L_leb_refl N L). reflexivity. Qed.

Lemma neg_pos x : ltb N x (zero N) = true -> ltb N (zero N) (sub N (zero N) x) = true.
Proof.
  rewrite !(L_ltb_leb N L). intros H. apply negb_true_iff in H. apply negb_true_iff.
  destruct (leb N (sub N (zero N) x) (zero N)) eqn:E; [|reflexivity].
  pose proof (L_add_leb N L _ _ x E) as H1.
  replace (add N (sub N (zero N) x) x) with (zero N) in H1 by ring. replace (add N (zero N) x) with x in H1 by ring. congruence.
Qed.

Lemma pos_neg x : ltb N (zero N) (sub N (zero N) x) = true -> leb N x (zero N) = true.
Proof.
  rewrite (L_ltb_leb N L). intros H. apply negb_true_iff in H.
  destruct (L_leb_total N L (zero N) (sub N (zero N) x)) as [H1|H1]; [|congruence].
  pose proof (L_add_leb N L _ _ x H1) as H2.
  replace (add N (sub N (zero N) x) x) with (zero N) in H2 by ring. replace (add N (zero N) x) with x in H2 by ring. exact H2.
Qed.

(* the sign of c*x is the sign of x when c > 0 *)
Lemma sign_scale c x : ltb N (zero N) c = true -> ltb N (zero N) (mul N c x) = ltb N (zero N) x.
Proof.
  intros Hc. destruct (ltb N (zero N) x) eqn:Ex.
  - apply (L_mul_pos N L); assumption.
  - (* x <= 0 *)
    rewrite (L_ltb_leb N L) in Ex. apply negb_false_iff in Ex.
    destruct (eqb N x (zero N)) eqn:Ez.
    + apply (L_eqb_eq N L) in Ez. subst x. replace (mul N c (zero N)) with (zero N) by ring. apply ltb_irrefl.
    + assert (Hlt : ltb N x (zero N) = true).
      { rewrite (L_ltb_leb N L). apply negb_true_iff. destruct (leb N (zero N) x) eqn:E0; [|reflexivity].
        pose proof (L_leb_antisym N L _ _ Ex E0) as E. apply (L_eqb_eq N L) in E. congruence. }
      pose proof (L_mul_pos N L c _ Hc (neg_pos x Hlt)) as Hm.
      replace (mul N c (sub N (zero N) x)) with (sub N (zero N) (mul N c x)) in Hm by ring.
      pose proof (pos_neg _ Hm) as Hle. rewrite (L_ltb_leb N L), Hle. reflexivity.
Qed.

Theorem lsh_hash_scale_invariant (ndim : nat) (plane : mat (R:=R)) (row : list R) c :
  ltb N (zero N) c = true -> lsh_hash N ndim plane (vscale N c row) = lsh_hash N ndim plane row.
Proof.
  intros Hc. unfold lsh_hash. generalize 0%Z. induction (seq 0 ndim) as [|i l IH]; intros acc; simpl; [reflexivity|].
  rewrite (dot_vscale N L), (sign_scale c _ Hc). apply IH.
Qed.

(* the LSH neighbourhood of c*row is the neighbourhood of row, for every positive c *)
Theorem lsh_neighbourhood_scale_invariant (s : @nbr R A G) ndim ntab (row : list R) c orc :
  n_kind s = NLsh ndim ntab -> ltb N (zero N) c = true ->
  neighborhood N s (vscale N c row) orc = neighborhood N s row orc.
Proof.
  intros Ek Hc. unfold neighborhood. rewrite Ek. unfold lsh_neighbors. f_equal. f_equal.
  apply flat_map_ext. intros [plane tbl]. rewrite (lsh_hash_scale_invariant ndim plane row c Hc). reflexivity.
Qed.

End LshScale.
