(*  C06 — Incremental training equals batch training.
   
    PROVED under exact arithmetic (NumLaws; QcLaws shows the laws are satisfiable) for count/sum based policies:
     * the running sum, count and mean that C01 shows the policies hold depend only on the concatenation of
       the reward batches observed for the arm since the last fit - NOT on how that history was cut into
       fit / partial_fit batches (any chunking, chunks in which the arm does not occur, one-row chunks);
     * in particular fit(c1 ++ c2) and fit(c1); partial_fit(c2) give the same sum, count and mean for every arm.
    PROVED structurally (any number structure, so also bit-for-bit in binary64) for neighbourhood policies:
     * Radius / KNearest / LSHNearest store exactly the concatenation of the rows of fit and partial_fit
       (C03_history_after_fit / _partial_fit) and LSH files a partial_fit row under start+i in the bucket of
       its hash with the SAME planes (C11_insert_rows_bucket).
    ..._partial: linear policies (associativity of matrix sums) and Clusters are covered by the batch-versus-
    chunked relation on the implementation only. *)
From Coq Require Import List ZArith Bool Arith QArith Qcanon Permutation.
From MW Require Import Num Assoc AssocFacts Rng Par CF CFInv CFClean CFForget CFSpec Matrix Lin Warm WarmInv Nbr NbrFacts NbrIndep LshFacts Clu Tree CellFacts Mab FacadeCF FacadeArms MoreFacts NumLaws CFAlg Sim Extra QcInst.
Import ListNotations.

Theorem C06_statistics_depend_only_on_concatenated_history :
  forall (R : Type) (N : Num R),
  NumLaws N ->
  forall bs bs' : list (list R),
  concat (rev bs) = concat (rev bs') ->
  spec_sum N bs = spec_sum N bs' /\ spec_count bs = spec_count bs' /\ spec_mean N bs = spec_mean N bs'.
Proof. exact @chunking_irrelevant. Qed.
Print Assumptions C06_statistics_depend_only_on_concatenated_history.

Theorem C06_fit_whole_equals_fit_prefix_plus_partial_fit_partial :
  forall (R A : Type) (N : Num R),
  NumLaws N ->
  forall (aeqb : A -> A -> bool) (a : A) (d1 d2 : list A) (r1 r2 : list R) (t : list (@cfop R A)),
  length d1 = length r1 ->
  let whole := batches_rev aeqb (OFit (d1 ++ d2) (r1 ++ r2) :: t) a in
  let split := batches_rev aeqb (OPartial d2 r2 :: OFit d1 r1 :: t) a in
  spec_sum N whole = spec_sum N split /\
  spec_count whole = spec_count split /\ spec_mean N whole = spec_mean N split.
Proof. exact @batch_equals_incremental_spec. Qed.
Print Assumptions C06_fit_whole_equals_fit_prefix_plus_partial_fit_partial.

Theorem C06_sum_closed_form :
  forall (R : Type) (N : Num R),
  NumLaws N -> forall bs : list (list R), spec_sum N bs = nsum N (concat (rev bs)).
Proof. exact @spec_sum_concat. Qed.
Print Assumptions C06_sum_closed_form.

Theorem C06_count_closed_form :
  forall (R : Type) (bs : list (list R)), spec_count bs = Z.of_nat (length (concat (rev bs))).
Proof. exact @spec_count_concat. Qed.
Print Assumptions C06_count_closed_form.

Theorem C06_laws_are_satisfiable :
  NumLaws QcNum.
Proof. exact @QcLaws. Qed.
Print Assumptions C06_laws_are_satisfiable.


