(*  C04 — Seeded runs are reproducible and bandit instances are isolated.
   
    What a model can carry: the model's step is a FUNCTION of (state, call), the generator and the third-party
    libraries are functions of (state, request) by assumption (DESIGN.md 2.4), so equal constructor arguments and
    equal call sequences give equal results by construction.  The non-trivial content is ISOLATION:
    PROVED for every policy combination, every number of bandit objects in the process, every interleaving of the
    calls addressed to one bandit with calls addressed to the others (any merge of the call lists): the results
    of bandit i, and its final state, are those of bandit i driven alone through its own calls.
    COROLLARIES (Repro.v), the property's own sentence: two equal bandit values driven through equal call sequences return equal results and end in equal
    states - in one process under any interleaving with each other and with other bandits, and in two processes with different company; appending a newly
    constructed bandit to the process changes no result of the existing ones.
    ..._partial: the model (after fix D5) has no state shared between instances; that the CODE has none is what
    the correspondence (randomness trace of every generator request) and the four-interpreter relation check on
    every run.  Hash-seed and process-boundary independence are runtime behaviour no model exhibits. *)
From Coq Require Import List ZArith Bool Arith QArith Qcanon Permutation.
From MW Require Import Num Assoc AssocFacts Rng Par CF CFInv CFClean CFForget CFSpec Matrix Lin Warm WarmInv Nbr NbrFacts NbrIndep LshFacts Clu Tree CellFacts Mab FacadeCF FacadeArms MoreFacts NumLaws CFAlg Sim Extra QcInst OrderFacts ExpIrrel LinInv FacadeLin LpInv NbrInv CluTreeInv FacadeAll ToyFacts C09All C10All LinForget LinSim MatrixFacts GaussJordan LinSpec NbrIndepGen CluIndep C17Lin WarmIdem C14More LshScale TreeLeaf Rename PopSpec CopyFacts StatFacts CluBatch LinWarm Repro.
Import ListNotations.

Theorem C04_isolation_under_every_interleaving_partial :
  forall (R A G : Type) (N : Num R) (aeqb : A -> A -> bool) (RG : RngOps R G) 
    (calls : list (nat * (@op R A))) (w : list (@mab R A G)) (i : nat) (m : (@mab R A G)),
  nth_error w i = Some m ->
  only i (snd (wrun N aeqb RG w calls)) = snd (run N aeqb RG m (only i calls)) /\
  nth_error (fst (wrun N aeqb RG w calls)) i = Some (fst (run N aeqb RG m (only i calls))).
Proof. exact @isolation. Qed.
Print Assumptions C04_isolation_under_every_interleaving_partial.

Theorem C04_equal_bandits_equal_results_in_one_process :
  forall (R A G : Type) (N : Num R) (aeqb : A -> A -> bool) (RG : RngOps R G) 
    (w : list (@mab R A G)) (calls : list (nat * (@op R A))) (i j : nat) (m : (@mab R A G)),
  nth_error w i = Some m ->
  nth_error w j = Some m ->
  only i calls = only j calls ->
  only i (snd (wrun N aeqb RG w calls)) = only j (snd (wrun N aeqb RG w calls)) /\
  nth_error (fst (wrun N aeqb RG w calls)) i = nth_error (fst (wrun N aeqb RG w calls)) j.
Proof. exact @equal_bandits_equal_results_same_process. Qed.
Print Assumptions C04_equal_bandits_equal_results_in_one_process.

Theorem C04_equal_bandits_equal_results_in_two_processes :
  forall (R A G : Type) (N : Num R) (aeqb : A -> A -> bool) (RG : RngOps R G) 
    (w1 w2 : list (@mab R A G)) (calls1 calls2 : list (nat * (@op R A))) (i j : nat) (m : (@mab R A G)),
  nth_error w1 i = Some m ->
  nth_error w2 j = Some m ->
  only i calls1 = only j calls2 ->
  only i (snd (wrun N aeqb RG w1 calls1)) = only j (snd (wrun N aeqb RG w2 calls2)) /\
  nth_error (fst (wrun N aeqb RG w1 calls1)) i = nth_error (fst (wrun N aeqb RG w2 calls2)) j.
Proof. exact @equal_bandits_equal_results_two_processes. Qed.
Print Assumptions C04_equal_bandits_equal_results_in_two_processes.

Theorem C04_constructing_another_bandit_changes_nothing :
  forall (R A G : Type) (N : Num R) (aeqb : A -> A -> bool) (RG : RngOps R G) 
    (w : list (@mab R A G)) (extra : (@mab R A G)) (calls : list (nat * (@op R A))) (i : nat) (m : (@mab R A G)),
  nth_error w i = Some m ->
  only i (snd (wrun N aeqb RG (w ++ [extra]) calls)) = only i (snd (wrun N aeqb RG w calls)).
Proof. exact @constructing_another_bandit_changes_nothing. Qed.
Print Assumptions C04_constructing_another_bandit_changes_nothing.


(* non-vacuity: a process with three bandits - two equal Thompson Sampling bandits (objects 0 and 2) and an EpsilonGreedy bandit with another generator state
   (object 1) - and an interleaving in which objects 0 and 2 receive the same calls at different times, with calls on object 1 in between: the hypotheses
   of the same-process theorem hold, and the results of objects 0 and 2 are equal and non-trivial (by evaluation) *)
Definition rq (z : Z) : Qc := Q2Qc (inject_Z z).
Definition r_orc : @oracle Qc Z := mkOracle [] [] [] (fun _ _ => 0%nat) [1%nat].
Definition r_ts : @mab Qc Z nat := mkMab (ICf (cf_init QcNum KThompson (rq 0) None [1; 2]%Z)) false 3%nat.
Definition r_gr : @mab Qc Z nat := mkMab (ICf (cf_init QcNum KGreedy (Q2Qc (1 # 2)) None [4; 5]%Z)) false 9%nat.
Definition r_fit := Fit [1; 2; 1]%Z [rq 1; rq 0; rq 1] None r_orc.
Definition r_calls : list (nat * @op Qc Z) :=
  [(0, r_fit); (1, Fit [4; 5]%Z [rq 2; rq 3] None r_orc); (0, PredictExp None r_orc); (2, r_fit); (1, Predict None r_orc);
   (2, PredictExp None r_orc); (0, Predict None r_orc); (1, PredictExp None r_orc); (2, Predict None r_orc)]%nat.
Example C04_same_process_hypotheses_satisfiable :
  nth_error [r_ts; r_gr; r_ts] 0 = Some r_ts /\ nth_error [r_ts; r_gr; r_ts] 2 = Some r_ts /\
  only 0%nat r_calls = only 2%nat r_calls /\
  only 0%nat (snd (wrun QcNum Z.eqb ToyRng [r_ts; r_gr; r_ts] r_calls)) = only 2%nat (snd (wrun QcNum Z.eqb ToyRng [r_ts; r_gr; r_ts] r_calls)) /\
  length (only 0%nat (snd (wrun QcNum Z.eqb ToyRng [r_ts; r_gr; r_ts] r_calls))) = 3%nat.
Proof. split; [vm_compute; reflexivity|]. split; [vm_compute; reflexivity|]. split; [vm_compute; reflexivity|]. split; vm_compute; reflexivity. Qed.

