(* SoftmaxSpec.v — C01 for Softmax over whole histories: after any history of fit / partial_fit / add_arm / remove_arm the sum, count and
   mean the policy holds for an arm are those of exactly the arm's reward batches since the most recent fit (or since the arm was
   re-added), and the expectation dictionary is the max-shifted soft-max of those means - every call ends with the recomputation. *)
From Coq Require Import ZArith List Bool Lia.
From MW Require Import Num Assoc AssocFacts Rng CF CFInv CFSpec.
Import ListNotations.

Section SoftmaxSpec.
Context {R A : Type} (N : Num R) (aeqb : A -> A -> bool).
Hypothesis aeqb_spec : forall x y, aeqb x y = true <-> x = y.
Notation cf := (@cf R A).
Notation cfop := (@cfop R A).

Definition softmax_arm_ok (s : cf) (bs : list (list R)) (a : A) : Prop :=
  exists st, aget aeqb (c_stats s) a = Some st /\ s_sum st = spec_sum N bs /\ s_count st = spec_count bs /\ s_mean st = spec_mean N bs.

(* the recomputation keeps sum, count and mean of every arm *)
Lemma softmax_expectation_stats (s : cf) a :
  aget aeqb (c_stats (softmax_expectation N aeqb s)) a =
  match aget aeqb (c_stats s) a with
  | Some st => Some (mkArmst (s_sum st) (s_count st) (s_mean st)
                             (exp N (div N (sub N (s_mean st) (pymax N (map (fun kv => s_mean (snd kv)) (c_stats s)))) (c_hp s))) (s_succ st) (s_fail st))
  | None => None
  end.
Proof.
  unfold softmax_expectation. cbn [set_exp set_stats c_stats].
  exact (aget_map_vals aeqb aeqb_spec (fun _ st => mkArmst (s_sum st) (s_count st) (s_mean st)
            (exp N (div N (sub N (s_mean st) (pymax N (map (fun kv => s_mean (snd kv)) (c_stats s)))) (c_hp s))) (s_succ st) (s_fail st)) (c_stats s) a).
Qed.

Lemma softmax_expectation_ok (s : cf) bs a : softmax_arm_ok s bs a -> softmax_arm_ok (softmax_expectation N aeqb s) bs a.
Proof. intros [st (S1 & S2 & S3 & S4)]. unfold softmax_arm_ok. rewrite softmax_expectation_stats, S1. eexists. split; [reflexivity|]. cbn. auto. Qed.

Lemma softmax_fit_arm_view (s1 : cf) a ds rs st :
  c_kind s1 = KSoftmax -> aget aeqb (c_stats s1) a = Some st ->
  let ar := arm_rewards aeqb a ds rs in
  aget aeqb (c_stats (cf_fit_arm N aeqb s1 a ds rs)) a =
    Some (if is_nil ar then st else
          mkArmst (add N (s_sum st) (nsum N ar)) (s_count st + Z.of_nat (length ar))%Z
                  (div N (add N (s_sum st) (nsum N ar)) (of_Z N (s_count st + Z.of_nat (length ar))%Z)) (s_expo st) (s_succ st) (s_fail st)).
Proof.
  intros Ek Hs ar. unfold cf_fit_arm. rewrite Ek. fold ar. unfold aget_d. rewrite Hs.
  destruct (is_nil ar); [exact Hs|]. cbn [set_stats c_stats]. apply (aget_aset_same aeqb aeqb_spec).
Qed.

Theorem softmax_stat (s0 : cf) (rops : list cfop) :
  c_kind s0 = KSoftmax -> keys_ok s0 ->
  (forall a, In a (c_arms s0) -> softmax_arm_ok s0 [] a) ->
  valid_rev N aeqb s0 rops ->
  let s := cf_run_rev N aeqb s0 rops in
  keys_ok s /\ c_kind s = KSoftmax /\ forall a, In a (c_arms s) -> softmax_arm_ok s (batches_rev aeqb rops a) a.
Proof.
  intros Ek0 Hk0 H0. induction rops as [|o t IH]; intros Hv; simpl in *; [auto|].
  assert (Hvt : valid_rev N aeqb s0 t) by (destruct o; simpl in Hv; tauto).
  destruct (IH Hvt) as (Hk & Ek & Harm). clear IH.
  set (s := cf_run_rev N aeqb s0 t) in *.
  destruct o as [ds rs | ds rs | b bz | b]; simpl.
  - (* fit *)
    split; [apply (cf_fit_keys_ok N aeqb aeqb_spec); exact Hk|].
    split; [rewrite (proj1 (cf_fit_cfg N aeqb s ds rs)); exact Ek|].
    intros a Ha. rewrite (proj2 (proj2 (proj2 (proj2 (cf_fit_cfg N aeqb s ds rs))))) in Ha.
    unfold cf_fit. rewrite Ek.
    set (s1 := reset_status (reset_sums N s)).
    destruct Hk as (Hn & He & Hst & Hss).
    destruct (parallel_fit_arm N aeqb aeqb_spec s1 a ds rs) as [s2 (P1 & P2 & P3 & P4 & P5 & P6 & P7)]; [exact Hn | exact Ha|].
    assert (Hs1 : exists x, aget aeqb (c_stats s1) a = Some (mkArmst (zero N) 0%Z (zero N) (s_expo x) (s_succ x) (s_fail x))).
    { unfold s1, reset_status, reset_sums; cbn [set_status set_stats c_stats].
      rewrite (aget_map_vals aeqb aeqb_spec (fun _ st => mkArmst (zero N) 0%Z (zero N) (s_expo st) (s_succ st) (s_fail st))).
      destruct (aget_in aeqb aeqb_spec (c_stats s) a) as [st Hst']; [rewrite Hss; exact Ha|]. rewrite Hst'. exists st. reflexivity. }
    destruct Hs1 as [x Hs1]. rewrite <- P1 in Hs1.
    pose proof (softmax_fit_arm_view s2 a ds rs _ (eq_trans P3 Ek) Hs1) as V1.
    assert (Hok : softmax_arm_ok (cf_parallel_fit N aeqb s1 ds rs) [arm_rewards aeqb a ds rs] a).
    { unfold softmax_arm_ok. rewrite P6, V1. eexists. split; [reflexivity|].
      unfold spec_mean. cbn [spec_sum spec_count s_sum s_count s_mean]. destruct (is_nil (arm_rewards aeqb a ds rs)) eqn:En; cbn [s_sum s_count s_mean].
      - repeat split; reflexivity.
      - pose proof (is_nil_length _ En) as Hl. repeat split; try reflexivity.
        match goal with |- context [Z.eqb ?z 0] => destruct (Z.eqb_spec z 0); [lia|] end. reflexivity. }
    apply softmax_expectation_ok in Hok. exact Hok.
  - (* partial_fit *)
    split; [apply (cf_partial_fit_keys_ok N aeqb aeqb_spec); exact Hk|].
    split; [rewrite (proj1 (cf_partial_fit_cfg N aeqb s ds rs)); exact Ek|].
    intros a Ha. rewrite (proj2 (proj2 (proj2 (proj2 (cf_partial_fit_cfg N aeqb s ds rs))))) in Ha.
    unfold cf_partial_fit. rewrite Ek.
    destruct (Harm a Ha) as [st (S1 & S2 & S3 & S4)].
    destruct Hk as (Hn & He & Hst & Hss).
    destruct (parallel_fit_arm N aeqb aeqb_spec s a ds rs Hn Ha) as [s2 (P1 & P2 & P3 & P4 & P5 & P6 & P7)].
    rewrite <- P1 in S1.
    pose proof (softmax_fit_arm_view s2 a ds rs _ (eq_trans P3 Ek) S1) as V1.
    assert (Hok : softmax_arm_ok (cf_parallel_fit N aeqb s ds rs) (arm_rewards aeqb a ds rs :: batches_rev aeqb t a) a).
    { unfold softmax_arm_ok. rewrite P6, V1. eexists. split; [reflexivity|].
      unfold spec_mean. cbn [spec_sum spec_count]. destruct (is_nil (arm_rewards aeqb a ds rs)) eqn:En; cbn [s_sum s_count s_mean].
      - repeat split; try assumption; try (rewrite S4; reflexivity).
      - pose proof (is_nil_length _ En) as Hl. pose proof (spec_count_nonneg (batches_rev aeqb t a)).
        rewrite S2, S3. repeat split; try reflexivity.
        match goal with |- context [Z.eqb ?z 0] => destruct (Z.eqb_spec z 0); [lia|] end. reflexivity. }
    apply softmax_expectation_ok in Hok. exact Hok.
  - (* add_arm *)
    destruct Hv as [Hnot _].
    split; [apply (cf_add_arm_keys_ok N aeqb aeqb_spec); assumption|].
    split; [unfold cf_add_arm; rewrite Ek; simpl; exact Ek|].
    intros a Ha. unfold cf_add_arm in *. rewrite Ek in *. cbn [set_status c_arms c_stats] in *.
    assert (Ha' : In a (c_arms s ++ [b])) by exact Ha. apply in_app_or in Ha'.
    match goal with |- softmax_arm_ok (set_status (softmax_expectation N aeqb ?x) _) _ _ =>
      assert (Hx : softmax_arm_ok x (if aeqb b a then [] else batches_rev aeqb t a) a) end.
    { unfold softmax_arm_ok. cbn [set_stats set_exp set_arms c_stats]. destruct (aeqb b a) eqn:Eb.
      - apply aeqb_spec in Eb; subst b. rewrite (aget_aset_same aeqb aeqb_spec). eexists. split; [reflexivity|]. unfold spec_mean. cbn. repeat split; reflexivity.
      - assert (Hne : a <> b) by (intros E; subst; rewrite (keqb_refl aeqb aeqb_spec) in Eb; discriminate).
        destruct Ha' as [Ha'|[Ha'|[]]]; [|congruence].
        rewrite (aget_aset_other aeqb aeqb_spec) by exact Hne. apply Harm; exact Ha'. }
    apply softmax_expectation_ok in Hx. exact Hx.
  - (* remove_arm *)
    split; [apply (cf_remove_arm_keys_ok N aeqb); exact Hk|].
    split; [unfold cf_remove_arm; rewrite Ek; simpl; exact Ek|].
    intros a Ha. unfold cf_remove_arm in *. rewrite Ek in *. cbn [set_status c_arms c_stats] in *.
    destruct Hk as (Hn & He & Hst & Hss).
    assert (Hin : In a (lremove aeqb (c_arms s) b)) by exact Ha.
    assert (Hne : a <> b) by (intros E; subst; apply (lremove_not_in aeqb aeqb_spec (c_arms s) b Hn); exact Hin).
    match goal with |- softmax_arm_ok (set_status (softmax_expectation N aeqb ?x) _) _ _ =>
      assert (Hx : softmax_arm_ok x (batches_rev aeqb t a) a) end.
    { unfold softmax_arm_ok. cbn [set_stats set_exp set_arms c_stats]. rewrite (aget_apop_other aeqb aeqb_spec) by exact Hne.
      apply Harm. eapply lremove_in; exact Hin. }
    apply softmax_expectation_ok in Hx. exact Hx.
Qed.


(* ---- the expectation dictionary after every call ------------------------------------------------------------------ *)
(* the max-shifted soft-max of the means a state holds *)
Definition softmax_of_means (s : cf) (a : A) : R :=
  let maxm := pymax N (map (fun kv => s_mean (snd kv)) (c_stats s)) in
  let e := fun st : @armst R => exp N (div N (sub N (s_mean st) maxm) (c_hp s)) in
  div N (e (aget_d aeqb (armst0 N) (c_stats s) a)) (psum N (map (fun kv => e (snd kv)) (c_stats s))).

(* right after the recomputation the dictionary is the soft-max of the means of that very state *)
Lemma softmax_expectation_self (x : cf) a : In a (akeys (c_exp x)) -> In a (akeys (c_stats x)) ->
  aget aeqb (c_exp (softmax_expectation N aeqb x)) a = Some (softmax_of_means (softmax_expectation N aeqb x) a).
Proof.
  intros He Hs. destruct (softmax_expectation_formula N aeqb aeqb_spec x a He) as [F|F];
    [|destruct (aget_in aeqb aeqb_spec (c_stats x) a Hs) as [v Hv]; rewrite Hv in F; discriminate].
  rewrite F. f_equal. unfold softmax_of_means.
  assert (Hm : map (fun kv => s_mean (snd kv)) (c_stats (softmax_expectation N aeqb x)) = map (fun kv => s_mean (snd kv)) (c_stats x)).
  { unfold softmax_expectation. cbn [set_exp set_stats c_stats]. rewrite map_map. reflexivity. }
  assert (Hh : c_hp (softmax_expectation N aeqb x) = c_hp x) by reflexivity.
  rewrite Hm, Hh. f_equal.
  - unfold aget_d. rewrite softmax_expectation_stats. destruct (aget aeqb (c_stats x) a); reflexivity.
  - f_equal. unfold softmax_expectation. cbn [set_exp set_stats c_stats]. rewrite map_map. reflexivity.
Qed.

Theorem softmax_expectations_after_every_call (s : cf) (o : cfop) a :
  c_kind s = KSoftmax -> keys_ok s -> (match o with OAdd b _ => ~ In b (c_arms s) | _ => True end) ->
  In a (c_arms (cf_step N aeqb s o)) ->
  aget aeqb (c_exp (cf_step N aeqb s o)) a = Some (softmax_of_means (cf_step N aeqb s o) a).
Proof.
  intros Ek Hk Hv Ha.
  assert (Hk' : keys_ok (cf_step N aeqb s o)).
  { destruct o; cbn [cf_step]; [apply (cf_fit_keys_ok N aeqb aeqb_spec) | apply (cf_partial_fit_keys_ok N aeqb aeqb_spec) | apply (cf_add_arm_keys_ok N aeqb aeqb_spec) | apply (cf_remove_arm_keys_ok N aeqb)]; assumption. }
  destruct Hk' as (_ & He' & _ & Hs').
  (* every call ends with the recomputation, wrapped only in status updates *)
  assert (W : exists x, c_exp (cf_step N aeqb s o) = c_exp (softmax_expectation N aeqb x) /\ c_stats (cf_step N aeqb s o) = c_stats (softmax_expectation N aeqb x) /\
                        c_hp (cf_step N aeqb s o) = c_hp (softmax_expectation N aeqb x)).
  { destruct o as [ds rs | ds rs | b bz | b]; cbn [cf_step].
    - unfold cf_fit. rewrite Ek. eexists. repeat split; reflexivity.
    - unfold cf_partial_fit. rewrite Ek. eexists. repeat split; reflexivity.
    - unfold cf_add_arm. rewrite Ek. eexists. repeat split; reflexivity.
    - unfold cf_remove_arm. rewrite Ek. eexists. repeat split; reflexivity. }
  destruct W as [x (W1 & W2 & W3)].
  assert (Hxe : In a (akeys (c_exp x))).
  { assert (K : akeys (c_exp (softmax_expectation N aeqb x)) = akeys (c_exp x)).
    { unfold softmax_expectation. cbn [set_exp c_exp]. unfold akeys. rewrite map_map. reflexivity. }
    rewrite <- K, <- W1, He'. exact Ha. }
  assert (Hxs : In a (akeys (c_stats x))).
  { assert (K : akeys (c_stats (softmax_expectation N aeqb x)) = akeys (c_stats x)).
    { unfold softmax_expectation. cbn [set_exp set_stats c_stats]. unfold akeys. rewrite map_map. reflexivity. }
    rewrite <- K, <- W2, Hs'. exact Ha. }
  rewrite W1, (softmax_expectation_self x a Hxe Hxs). unfold softmax_of_means. rewrite W2, W3. reflexivity.
Qed.

End SoftmaxSpec.
