(* ChunkCover.v — C15 / C16: the chunk loop of the Simulator (_offline_test_bandits / _online_test_bandits_chunks)
   visits every test row exactly once, in order, whatever the chunk size.
   chunk_bounds (SimRun.v) is the model of
       for idx in range(ceil(n / chunk_size)): start = idx * chunk_size; stop = min((idx + 1) * chunk_size, n)
   as the list of the [start, stop) pairs.  Proved here, for EVERY chunk size c and every number of rows n:
     - the pairs are contiguous, start at 0 and end at n, each is non-empty and at most max c 1 long
       (chunk_bounds_shape), and the fuel S n of the drivers never cuts the loop short;
     - the slices of ANY list of n rows taken at these pairs concatenate to the list itself (chunk_bounds_cover):
       no row is dropped, none is evaluated twice, the order is the data's;
     - the closed form of the code (chunk_bounds_closed_form): the idx-th pair is
       (idx * c, min ((idx + 1) * c) n) for idx < ceil (n / c), and there are exactly ceil (n / c) pairs. *)
From Coq Require Import List Arith Lia.
From MW Require Import SimRun.
Import ListNotations.

(* ---- exact cover ------------------------------------------------------------------------------------------ *)
Lemma skipn_add {T} (x y : nat) (l : list T) : skipn x (skipn y l) = skipn (y + x) l.
Proof.
  revert l. induction y as [|y IH]; intros l; [reflexivity|].
  destruct l as [|h t]; [cbn [skipn]; apply skipn_nil | cbn [skipn plus]; apply IH].
Qed.

Lemma slice_from_cons {T} (lo hi : nat) (l : list T) : lo <= hi -> hi <= length l ->
  slice lo hi l ++ skipn hi l = skipn lo l.
Proof.
  intros H1 H2. unfold slice.
  replace (skipn hi l) with (skipn (hi - lo) (skipn lo l)).
  - apply firstn_skipn.
  - rewrite skipn_add. f_equal. lia.
Qed.

Lemma chunk_bounds_cover_from {T} (c : nat) (l : list T) : forall fuel lo,
  lo <= length l -> length l - lo < fuel ->
  concat (map (fun ab => slice (fst ab) (snd ab) l) (chunk_bounds fuel c lo (length l))) = skipn lo l.
Proof.
  induction fuel as [|f IH]; intros lo Hlo Hf; [lia|].
  cbn [chunk_bounds]. destruct (Nat.leb_spec (length l) lo) as [Hle|Hlt].
  - cbn [map concat]. symmetry. apply skipn_all2. exact Hle.
  - cbv zeta. cbn [map concat fst snd].
    set (hi := Nat.min (lo + Nat.max c 1) (length l)).
    assert (lo < hi <= length l) as [Hh1 Hh2] by (subst hi; lia).
    rewrite IH by lia. apply slice_from_cons; lia.
Qed.

(* every test row exactly once, in order: the slices of the driver's chunks concatenate to the test data *)
Theorem chunk_bounds_cover {T} (c : nat) (l : list T) :
  concat (map (fun ab => slice (fst ab) (snd ab) l) (chunk_bounds (S (length l)) c 0 (length l))) = l.
Proof. rewrite chunk_bounds_cover_from by lia. reflexivity. Qed.

(* a per-row function evaluated chunk by chunk gives the same list as on the whole test set *)
Corollary chunked_map_is_whole_map {T U} (f : T -> U) (c : nat) (l : list T) :
  concat (map (fun ab => map f (slice (fst ab) (snd ab) l)) (chunk_bounds (S (length l)) c 0 (length l))) = map f l.
Proof.
  rewrite <- (chunk_bounds_cover c l) at 3. rewrite concat_map, map_map. reflexivity.
Qed.

(* ---- shape ------------------------------------------------------------------------------------------------ *)
(* contiguous from lo to n: each pair starts where the previous one stopped *)
Fixpoint contiguous (lo n : nat) (bounds : list (nat * nat)) : Prop :=
  match bounds with
  | [] => n <= lo
  | (a, b) :: t => a = lo /\ a < b /\ b <= n /\ contiguous b n t
  end.

Lemma chunk_bounds_shape_from (c n : nat) : forall fuel lo, n - lo < fuel ->
  contiguous lo n (chunk_bounds fuel c lo n) /\
  Forall (fun ab => snd ab - fst ab <= Nat.max c 1) (chunk_bounds fuel c lo n).
Proof.
  induction fuel as [|f IH]; intros lo Hf; [lia|].
  cbn [chunk_bounds]. destruct (Nat.leb_spec n lo) as [Hle|Hlt].
  - split; [exact Hle | constructor].
  - cbv zeta. set (hi := Nat.min (lo + Nat.max c 1) n).
    assert (lo < hi <= n) as [Hh1 Hh2] by (subst hi; lia).
    destruct (IH hi ltac:(lia)) as [Hc Hs]. split.
    + cbn [contiguous]. repeat split; assumption.
    + constructor; [cbn [fst snd]; subst hi; lia | exact Hs].
Qed.

Theorem chunk_bounds_shape (c n : nat) :
  contiguous 0 n (chunk_bounds (S n) c 0 n) /\
  Forall (fun ab => snd ab - fst ab <= Nat.max c 1) (chunk_bounds (S n) c 0 n).
Proof. apply chunk_bounds_shape_from. lia. Qed.

(* ---- the closed form of the code -------------------------------------------------------------------------- *)
(* ceil (n / c) for c >= 1 *)
Definition ceil_div (n c : nat) : nat := (n + c - 1) / c.

Definition code_bounds (c n : nat) : list (nat * nat) :=
  map (fun idx => (idx * c, Nat.min ((idx + 1) * c) n)) (seq 0 (ceil_div n c)).

Lemma ceil_div_le_iff (n c k : nat) : 1 <= c -> ceil_div n c <= k <-> n <= k * c.
Proof.
  intros Hc. unfold ceil_div. split; intros H.
  - pose proof (Nat.div_mod (n + c - 1) c ltac:(lia)) as Hd.
    pose proof (Nat.mod_upper_bound (n + c - 1) c ltac:(lia)) as Hm.
    pose proof (Nat.mul_le_mono_l _ _ c H) as Hq. lia.
  - apply Nat.lt_succ_r. apply Nat.div_lt_upper_bound; [lia|]. nia.
Qed.

Lemma chunk_bounds_closed_from (c n : nat) : 1 <= c -> forall fuel i, n - i * c < fuel ->
  chunk_bounds fuel c (i * c) n =
  map (fun idx => (idx * c, Nat.min ((idx + 1) * c) n)) (seq i (ceil_div n c - i)).
Proof.
  intros Hc. induction fuel as [|f IH]; intros i Hf; [lia|].
  cbn [chunk_bounds]. destruct (Nat.leb_spec n (i * c)) as [Hle|Hlt].
  - assert (ceil_div n c <= i) as Hk by (apply ceil_div_le_iff; assumption).
    replace (ceil_div n c - i) with 0 by lia. reflexivity.
  - assert (i < ceil_div n c) as Hk.
    { destruct (Nat.le_gt_cases (ceil_div n c) i) as [H|H]; [|exact H].
      apply ceil_div_le_iff in H; [lia | exact Hc]. }
    cbv zeta. rewrite Nat.max_l by exact Hc.
    replace (ceil_div n c - i) with (S (ceil_div n c - S i)) by lia.
    cbn [seq map]. replace (i * c + c) with ((i + 1) * c) by lia. f_equal.
    destruct (Nat.le_gt_cases n ((i + 1) * c)) as [Hlast|Hmore].
    + (* the last chunk: stop = n, the loop ends, and so does range(ceil(n / c)) *)
      rewrite Nat.min_r by exact Hlast.
      assert (ceil_div n c <= S i) as Hk2 by (apply ceil_div_le_iff; [exact Hc | lia]).
      replace (ceil_div n c - S i) with 0 by lia. cbn [seq map].
      destruct f as [|f']; [reflexivity|]. cbn [chunk_bounds]. rewrite Nat.leb_refl. reflexivity.
    + rewrite Nat.min_l by lia. replace ((i + 1) * c) with (S i * c) by lia.
      apply IH. nia.
Qed.

(* the model's loop IS the code's range(ceil(n / chunk_size)) with start = idx * chunk_size, stop = min(...) *)
Theorem chunk_bounds_closed_form (c n : nat) : 1 <= c -> chunk_bounds (S n) c 0 n = code_bounds c n.
Proof.
  intros Hc. unfold code_bounds. rewrite <- (Nat.sub_0_r (ceil_div n c)).
  apply (chunk_bounds_closed_from c n Hc (S n) 0). lia.
Qed.

Corollary chunk_count (c n : nat) : 1 <= c -> length (chunk_bounds (S n) c 0 n) = ceil_div n c.
Proof. intros Hc. rewrite chunk_bounds_closed_form by exact Hc. unfold code_bounds. rewrite map_length, seq_length. reflexivity. Qed.

(* non-vacuity: 7 rows in chunks of 3 *)
Example chunks_7_3 : chunk_bounds 8 3 0 7 = [(0, 3); (3, 6); (6, 7)] /\ code_bounds 3 7 = [(0, 3); (3, 6); (6, 7)].
Proof. split; reflexivity. Qed.
