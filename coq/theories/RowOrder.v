(* RowOrder.v — C20 (row order) for the linear policies, exact arithmetic: X'X and X'y do not depend on the order of the rows,
   so presenting the same (decision, reward, context) observations to fit in another order leaves A, X'y, A^-1 and beta of
   every arm unchanged (scale = False). *)
From Coq Require Import ZArith List Bool Lia Permutation.
From MW Require Import Num NumLaws Assoc AssocFacts Rng Par CF Matrix MatrixFacts Lin LinInv LinSim LinSpec.
Import ListNotations.

Section RowOrder.
Context {R A G : Type} (N : Num R) (L : NumLaws N) (aeqb : A -> A -> bool).
Hypothesis aeqb_spec : forall x y, aeqb x y = true <-> x = y.
Notation lin := (@lin R A G).

Lemma pysum_cons x (l : list R) : pysum N (x :: l) = add N x (pysum N l).
Proof. unfold pysum. cbn [fold_left]. rewrite (fold_add_acc N L). rewrite (add_0_l N L). reflexivity. Qed.

Lemma pysum_permutation (l l' : list R) : Permutation l l' -> pysum N l = pysum N l'.
Proof.
  intros P. induction P as [|x l l' P IH|x y l|l l' l'' P1 IH1 P2 IH2].
  - reflexivity.
  - rewrite !pysum_cons, IH. reflexivity.
  - rewrite !pysum_cons. rewrite !(add_assoc N L). rewrite (add_comm N L y x). reflexivity.
  - rewrite IH1. exact IH2.
Qed.

Lemma map2_combine {X Y Z} (f : X -> Y -> Z) (a : list X) (b : list Y) : map2 f a b = map (fun p => f (fst p) (snd p)) (combine a b).
Proof. revert b. induction a as [|x a IH]; intros [|y b]; simpl; try reflexivity. rewrite IH. reflexivity. Qed.

Theorem xtx_permutation (d : nat) (x x' : mat (R:=R)) : Permutation x x' -> xtx N d x = xtx N d x'.
Proof.
  intros P. unfold xtx, transpose. cbv zeta. rewrite !map_map. apply map_ext. intros i. rewrite !map_map. apply map_ext. intros j.
  unfold dot, col. rewrite !map2_map_map. apply pysum_permutation. apply Permutation_map. exact P.
Qed.

Theorem xty_permutation (d : nat) (xy xy' : list (list R * R)) : Permutation xy xy' ->
  xty N d (map fst xy) (map snd xy) = xty N d (map fst xy') (map snd xy').
Proof.
  intros P. unfold xty, transpose. rewrite !map_map. apply map_ext. intros i. unfold dot, col.
  assert (E : forall l : list (list R * R),
            map2 (mul N) (map (fun row => nth i row (zero N)) (map fst l)) (map snd l) = map (fun p => mul N (nth i (fst p) (zero N)) (snd p)) l).
  { intros l. induction l as [|[r y] l IH]; simpl; [reflexivity | rewrite IH; reflexivity]. }
  rewrite !E. apply pysum_permutation. apply Permutation_map. exact P.
Qed.

(* the rows of one arm, as pairs *)
Definition arm_pairs (a : A) (rows : list (A * R * list R)) : list (list R * R) :=
  map (fun t => (snd t, snd (fst t))) (filter (fun t => aeqb (fst (fst t)) a) rows).

Lemma filter_permutation {T} (f : T -> bool) (l l' : list T) : Permutation l l' -> Permutation (filter f l) (filter f l').
Proof.
  intros P. induction P as [|x l l' P IH|x y l|l l' l'' P1 IH1 P2 IH2]; simpl.
  - constructor.
  - destruct (f x); [constructor; exact IH | exact IH].
  - destruct (f x), (f y); first [apply perm_swap | apply Permutation_refl].
  - eapply Permutation_trans; eassumption.
Qed.

Lemma arm_pairs_permutation a rows rows' : Permutation rows rows' -> Permutation (arm_pairs a rows) (arm_pairs a rows').
Proof. intros P. unfold arm_pairs. apply Permutation_map. apply filter_permutation. exact P. Qed.

Definition ds_of (rows : list (A * R * list R)) : list A := map (fun t => fst (fst t)) rows.
Definition rs_of (rows : list (A * R * list R)) : list R := map (fun t => snd (fst t)) rows.
Definition cx_of (rows : list (A * R * list R)) : mat (R:=R) := map snd rows.

Lemma combine_of rows : combine (combine (ds_of rows) (rs_of rows)) (cx_of rows) = rows.
Proof. unfold ds_of, rs_of, cx_of. induction rows as [|[[d r] c] t IH]; simpl; [reflexivity | rewrite IH; reflexivity]. Qed.

Lemma arm_rows_of a rows :
  arm_rows aeqb a (ds_of rows) (rs_of rows) (cx_of rows) = (map fst (arm_pairs a rows), map snd (arm_pairs a rows)).
Proof. unfold arm_rows. rewrite combine_of. unfold arm_pairs. rewrite !map_map. reflexivity. Qed.

Theorem lin_fit_row_order_irrelevant (s0 : lin) g g' rows rows' (a : A) :
  lin_keys_ok s0 -> In a (l_arms s0) -> l_scale s0 = false -> Permutation rows rows' ->
  ncols (cx_of rows) = ncols (cx_of rows') ->
  snd (lin_fit N aeqb s0 g (ds_of rows) (rs_of rows) (cx_of rows)) = true ->
  snd (lin_fit N aeqb s0 g' (ds_of rows') (rs_of rows') (cx_of rows')) = true ->
  let mk := model aeqb (fst (lin_fit N aeqb s0 g (ds_of rows) (rs_of rows) (cx_of rows))) a in
  let mk' := model aeqb (fst (lin_fit N aeqb s0 g' (ds_of rows') (rs_of rows') (cx_of rows'))) a in
  r_A mk = r_A mk' /\ r_Xty mk = r_Xty mk' /\ r_Ainv mk = r_Ainv mk' /\ r_beta mk = r_beta mk'.
Proof.
  intros Hk Hin Hsc P Ed O1 O2 mk mk'.
  pose proof (lin_history_normal_equations N L aeqb aeqb_spec s0 g (ds_of rows) (rs_of rows) (cx_of rows) [] a Hk Hin Hsc O1 eq_refl) as [E1 H1].
  pose proof (lin_history_normal_equations N L aeqb aeqb_spec s0 g' (ds_of rows') (rs_of rows') (cx_of rows') [] a Hk Hin Hsc O2 eq_refl) as [E2 H2].
  cbn [lin_partials fst] in E1, H1, E2, H2. fold mk in E1, H1. fold mk' in E2, H2.
  unfold arm_batches in E1, H1, E2, H2.
  change (map (fun b : batch => let '(ds, rs, cx) := b in arm_rows aeqb a ds rs cx) [(ds_of rows, rs_of rows, cx_of rows)]) with [arm_rows aeqb a (ds_of rows) (rs_of rows) (cx_of rows)] in *.
  change (map (fun b : batch => let '(ds, rs, cx) := b in arm_rows aeqb a ds rs cx) [(ds_of rows', rs_of rows', cx_of rows')]) with [arm_rows aeqb a (ds_of rows') (rs_of rows') (cx_of rows')] in *.
  rewrite arm_rows_of in E1, H1, E2, H2.
  pose proof (arm_pairs_permutation a rows rows' P) as Pa.
  rewrite <- Ed in E2, H2.
  assert (Hne : forall (T : Type) (f : T -> bool) (x : T), f x = true -> filter f [x] = [x]).
  { intros T f x Hx. cbn [filter]. rewrite Hx. reflexivity. }
  destruct (arm_pairs a rows) as [|p ps] eqn:Ea.
  - apply Permutation_nil in Pa. rewrite Pa in E2, H2.
    specialize (E1 eq_refl). specialize (E2 eq_refl). rewrite <- E2 in E1. unfold erase_rng in E1. injection E1 as B1 B2 B3 B4 _.
    repeat split; assumption.
  - destruct (arm_pairs a rows') as [|p' ps'] eqn:Ea'; [apply Permutation_sym in Pa; apply Permutation_nil in Pa; discriminate|].
    rewrite !(Hne _ _ (map fst (p :: ps), map snd (p :: ps)) eq_refl) in H1. rewrite !(Hne _ _ (map fst (p' :: ps'), map snd (p' :: ps')) eq_refl) in H2.
    destruct (H1 ltac:(discriminate)) as (A1 & B1 & C1 & D1). destruct (H2 ltac:(discriminate)) as (A2 & B2 & C2 & D2).
    clear H1 H2 E1 E2.
    cbn [concat] in A1, B1, A2, B2. change (map fst [(map fst (p :: ps), map snd (p :: ps))]) with [map fst (p :: ps)] in *.
    change (map snd [(map fst (p :: ps), map snd (p :: ps))]) with [map snd (p :: ps)] in *.
    change (map fst [(map fst (p' :: ps'), map snd (p' :: ps'))]) with [map fst (p' :: ps')] in *.
    change (map snd [(map fst (p' :: ps'), map snd (p' :: ps'))]) with [map snd (p' :: ps')] in *.
    cbn [concat] in A1, B1, A2, B2. rewrite !app_nil_r in A1, B1, A2, B2.
    assert (EA : r_A mk = r_A mk').
    { rewrite A1, A2. f_equal. apply (xtx_permutation (ncols (cx_of rows)) (map fst (p :: ps)) (map fst (p' :: ps'))). apply Permutation_map. exact Pa. }
    assert (EX : r_Xty mk = r_Xty mk').
    { rewrite B1, B2. f_equal. rewrite !(@app_nil_r R). apply (xty_permutation (ncols (cx_of rows)) (p :: ps) (p' :: ps')). exact Pa. }
    assert (EI : r_Ainv mk = r_Ainv mk') by (rewrite EA in C1; congruence).
    repeat split; auto. rewrite D1, D2, EI, EX. reflexivity.
Qed.

End RowOrder.
