(* SimRun.v — simulator.py: the simulator-specific neighbourhood classes (_RadiusSimulator, _KNearestSimulator,
   _LSHSimulator: neighbours selected from a cache of distances shared between bandits, expectations recorded
   in row_arm_to_expectation), the replacement done by _train_bandits, and the offline / online drivers
   (_offline_test_bandits, _online_test_bandits_chunks), written over the facade model [step] of Mab.v.
   Definitions only; the theorems are in SimRunFacts.v.
   Not modelled: the > 1 GB branch of _run_train_test_split that lowers _chunk_size below the test size (one chunk
   per offline run / per online batch here), confusion matrices, logging, plotting; the evaluation is in Sim.v. *)
From Coq Require Import ZArith List Bool Arith.
From MW Require Import Num Assoc Rng Par CF Matrix Lin Warm Nbr Clu Tree Mab Sim.
Import ListNotations.

Section SimRun.
Context {R A G : Type} (N : Num R) (aeqb : A -> A -> bool) (RG : RngOps R G).

Notation exps := (list (A * option R)).
Notation oracle := (@oracle R A).
Notation ctxs := (list (list R)).

(* ---- the simulator's neighbourhood classes ---------------------------------------------------- *)

(* neighbours of one query row, read from the cached distances of that row (Radius, KNearest);
   _LSHSimulator hashes the row itself, like the library class *)
Definition sim_neighborhood (s : @nbr R A G) (row cache : list R) (oracle : list nat) : option (list nat) :=
  match n_kind s with
  | NRadius r => Some (sim_radius_select N cache r)
  | NKNearest k => if knn_valid N cache k oracle then Some oracle else None
  | NLsh ndim _ => Some (lsh_neighbors N s ndim row)
  end.

Definition lp_is_ts (l : @lp R A G) : bool := match l with LCf c => cf_is_ts c | LLin _ => false end.
Definition lp_stored_exp (l : @lp R A G) : list (A * R) := match l with LCf c => c_exp c | LLin _ => [] end.

(* the statistics of the neighbours' rewards per arm ({} = None for an arm no neighbour took; [] for an empty neighbourhood
   or a quick simulation) *)
Definition nstat_row : Type := list (A * option (@stats R)).

(* one reported row: the prediction, what is appended to row_arm_to_expectation and to neighborhood_arm_to_stat,
   the neighbourhood size *)
Definition srow : Type := (option A * (exps * nstat_row) * nat)%type.

(* _get_nhood_predictions, the statistics part: per arm, get_stats of the neighbours' (raw) rewards *)
Definition nhood_stats (arms : list A) (quick : bool) (ds : list A) (rs : list R) : nstat_row :=
  if quick then [] else
  map (fun a => (a, match arm_rewards aeqb a ds rs with [] => None | ar => Some (get_stats N ar) end)) arms.

(* _predict_contexts body for one row + _get_nhood_predictions(is_predict=True):
   lp.fit(neighbours); prediction = lp.predict(row); expectations = the stored sample for Thompson sampling,
   a SECOND call lp.predict_expectations(row) on the same generator otherwise *)
Definition simnbr_row (s : @nbr R A G) (l : @lp R A G) (quick : bool) (raw : list R) (seed : Z) (row cache : list R) (oracle : list nat)
  : option (srow * @lp R A G) :=
  let g := create RG seed in
  match sim_neighborhood s row cache oracle with
  | None => None
  | Some [] =>
      if negb (nnprob_len_ok s) then None else
      let (v, _) := draw_z RG g (RqChoice (length (n_arms s)) (n_nnprob s)) in
      Some ((nth_error (n_arms s) (Z.to_nat (match v with x :: _ => x | [] => 0%Z end)), (n_exp s, []), O), l)
  | Some idx =>
      let ds := map (fun i => nth_error (n_ds s) i) idx in
      let ds' := flat_map (fun o => match o with Some a => [a] | None => [] end) ds in
      let rs := select (n_rs s) (zero N) idx in
      let cx := select (n_cx s) [] idx in
      let st := nhood_stats (n_arms s) quick ds' (select raw (zero N) idx) in
      let (l1, ok) := lp_fit N aeqb l g ds' rs cx in
      if negb ok then None else
      let '(e, l2, g2) := lp_expectations1 N aeqb RG l1 g row in
      let pred := argmax_first N e in
      if lp_is_ts l2 then Some ((pred, (some_exp (lp_stored_exp l2), st), length idx), l2)
      else let '(e2, l3, _) := lp_expectations1 N aeqb RG l2 g2 row in
           Some ((pred, (some_exp e2, st), length idx), l3)
  end.

Fixpoint simnbr_rows (s : @nbr R A G) (l : @lp R A G) (quick : bool) (raw : list R) (seeds : list Z) (rows caches : mat (R:=R)) (oracles : list (list nat))
  : option (list srow) :=
  match seeds, rows with
  | sd :: seeds', row :: rows' =>
      match simnbr_row s l quick raw sd row (hd [] caches) (hd [] oracles) with
      | None => None
      | Some (r, l') =>
          match simnbr_rows s l' quick raw seeds' rows' (tl caches) (tl oracles) with
          | None => None
          | Some rest => Some (r :: rest)
          end
      end
  | _, _ => Some []
  end.

(* _NeighborsSimulator.predict = _parallel_predict over the simulator's _predict_contexts *)
Definition simnbr_predict (s : @nbr R A G) (quick : bool) (raw : list R) (g : G) (cx caches : mat (R:=R)) (oracles : list (list nat)) (sizes : list nat)
  : option (list srow) * G :=
  let (seeds, g1) := draw_z RG g (RqRandint 2147483647 (length cx)) in
  let parts := combine (combine (combine (chunks sizes seeds) (chunks sizes cx)) (chunks sizes caches)) (chunks sizes oracles) in
  let res := map (fun p => let '(sd, rows, cch, orc) := (p : list Z * mat (R:=R) * mat (R:=R) * list (list nat)) in
                           simnbr_rows s (n_lp s) quick raw sd rows cch orc) parts in
  (fold_right (fun r acc => match r, acc with Some x, Some y => Some (x ++ y) | _, _ => None end) (Some []) res, g1).

(* calculate_distances: cdist(self.contexts, row, metric) for every row of the chunk *)
Definition sim_distances (s : @nbr R A G) (cx : mat (R:=R)) : mat (R:=R) :=
  map (fun row => map (fun c => distance N (n_metric s) c row) (n_cx s)) cx.

(* ---- the objects in Simulator.bandits after _train_bandits ------------------------------------- *)
(* the extra attributes of a simulator class: row_arm_to_expectation and neighborhood_arm_to_stat (one entry per predicted row,
   append-only), raw_rewards (the unconverted rewards, kept when the policy is Thompson sampling with a binarizer), is_quick *)
Record nbk : Type := mkNbk { k_rows : list (exps * nstat_row); k_raw : list R; k_quick : bool }.

Inductive sbandit : Type :=
| SMab (m : @mab R A G)                                        (* kept: context-free, linear, Clusters, TreeBandit *)
| SNbr (s : @nbr R A G) (g : G) (bk : nbk).                    (* Radius / KNearest / LSHNearest replaced; shares lp and rng
                                                                  with the original *)

(* the rewards the neighbourhood statistics are taken over *)
Definition stat_rewards (s : @nbr R A G) (bk : nbk) : list R := if lp_is_ts_binz (n_lp s) then k_raw bk else n_rs s.

Definition metric_eqb (a b : metric) : bool :=
  match a, b with
  | Cityblock, Cityblock | Chebyshev, Chebyshev | SqEuclidean, SqEuclidean | Euclidean, Euclidean => true
  | _, _ => false
  end.
Definition dcache : Type := list (metric * mat (R:=R)).
Fixpoint dc_find (dc : dcache) (m : metric) : option (mat (R:=R)) :=
  match dc with
  | [] => None
  | (m', c) :: t => if metric_eqb m' m then Some c else dc_find t m
  end.

Definition uses_cache (s : @nbr R A G) : bool := match n_kind s with NLsh _ _ => false | _ => true end.

(* _train_bandits for one bandit: replace, then fit on the training rows.  The flag is false when fit raises. *)
Definition sim_train (quick : bool) (m : @mab R A G) (ds : list A) (rs : list R) (cx : option ctxs) (orc : oracle) : sbandit * bool :=
  match m_imp m with
  | INbr s =>
      let s0 := nbr_init (n_kind s) (n_metric s) (n_nnprob s) (n_kf_newarm0 s) (n_arms s) (n_lp s) in
      let (s1, g1) := nbr_fit N RG s0 (m_rng m) ds rs (octx cx) in (SNbr s1 g1 (mkNbk [] rs quick), true)
  | _ => let (m1, o) := step N aeqb RG m (Fit ds rs cx orc) in
         (SMab m1, match o with ODone => true | _ => false end)
  end.

Definition out_arms (o : @out R A) : option (list (option A)) :=
  match o with OArm a => Some [a] | OArms l => Some l | _ => None end.
Definition out_exps (o : @out R A) : option (list exps) :=
  match o with OExp d => Some [d] | OExps l => Some l | _ => None end.

(* n successive mab.predict() calls of a context-free bandit *)
Fixpoint cf_predict_n (m : @mab R A G) (n : nat) (orc : oracle) : @mab R A G * option (list (option A)) :=
  match n with
  | O => (m, Some [])
  | S k => let (m1, o) := step N aeqb RG m (Predict None orc) in
           match out_arms o with
           | Some [a] => let (m2, r) := cf_predict_n m1 k orc in (m2, option_map (cons a) r)
           | _ => (m1, None)
           end
  end.

Definition cf_exp_now (m : @mab R A G) : list exps :=
  match m_imp m with ICf c => [some_exp (c_exp c)] | _ => [] end.

Definition slice {T} (lo hi : nat) (l : list T) : list T := firstn (hi - lo) (skipn lo l).

(* what the drivers do with one bandit for the test rows [lo, hi): predictions and the reported expectations.
   [dc] is the chunk's distance dictionary (by metric), updated when this bandit computes a new entry. *)
Definition sim_query (b : sbandit) (dc : dcache) (cx : option ctxs) (n lo hi : nat) (orc_p orc_e : oracle)
  : sbandit * dcache * option (list (option A) * list exps) :=
  match b with
  | SMab m =>
      if is_contextual (m_imp m) then
        let (m1, o1) := step N aeqb RG m (Predict cx orc_p) in
        let (m2, o2) := step N aeqb RG m1 (PredictExp cx orc_e) in
        (SMab m2, dc, match out_arms o1, out_exps o2 with Some p, Some e => Some (p, e) | _, _ => None end)
      else
        let (m1, r) := cf_predict_n m n orc_p in
        (SMab m1, dc, option_map (fun p => (p, cf_exp_now m1)) r)
  | SNbr s g bk =>
      let rae := k_rows bk in
      let rows := octx cx in
      let '(cache, dc') :=
        if uses_cache s then
          match dc_find dc (n_metric s) with
          | Some c => (c, dc)
          | None => let c := sim_distances s rows in (c, dc ++ [(n_metric s, c)])
          end
        else ([], dc) in
      let (r, g1) := simnbr_predict s (k_quick bk) (stat_rewards s bk) g rows cache (o_knn orc_p) (o_sizes orc_p) in
      match r with
      | None => (SNbr s g1 bk, dc', None)
      | Some l =>
          let rae' := rae ++ map (fun x => snd (fst x)) l in
          (SNbr s g1 (mkNbk rae' (k_raw bk) (k_quick bk)), dc', Some (map (fun x => fst (fst x)) l, map fst (slice lo hi rae')))
      end
  end.

(* mab.partial_fit(batch) at the end of an online batch *)
Definition sim_update (b : sbandit) (ds : list A) (rs : list R) (cx : option ctxs) (orc : oracle) : sbandit * bool :=
  match b with
  | SMab m =>
      let cx' := if is_contextual (m_imp m) then cx else None in
      let (m1, o) := step N aeqb RG m (PartialFit ds rs cx' orc) in
      (SMab m1, match o with ODone => true | _ => false end)
  | SNbr s g bk => (SNbr (nbr_partial_fit N s ds rs (octx cx)) g (mkNbk (k_rows bk) (k_raw bk ++ rs) (k_quick bk)), true)
  end.

(* one batch of test rows (the whole test set when offline) *)
Record batch := mkBatch { b_ds : list A; b_rs : list R; b_cx : option ctxs }.

(* oracles of one bandit for one batch: predict, predict_expectations, partial_fit *)
Definition borc : Type := (oracle * oracle * oracle)%type.

Definition orc0 : oracle := mkOracle [] [] [] (fun _ _ => O) [].
Definition borc0 : borc := (orc0, orc0, orc0).

(* all bandits on one chunk, in list order, sharing the distance dictionary *)
Fixpoint sim_query_all (bs : list sbandit) (dc : dcache) (cx : option ctxs) (n lo hi : nat) (orcs : list borc)
  : list (sbandit * option (list (option A) * list exps)) :=
  match bs with
  | [] => []
  | b :: t =>
      let o := hd borc0 orcs in
      let '(b', dc', r) := sim_query b dc cx n lo hi (fst (fst o)) (snd (fst o)) in
      (b', r) :: sim_query_all t dc' cx n lo hi (tl orcs)
  end.

(* the record kept per bandit: bandit_to_predictions, bandit_to_expectations; None after an exception *)
Definition report : Type := option (list (option A) * list exps).

Definition report_app (r : report) (x : option (list (option A) * list exps)) : report :=
  match r, x with
  | Some (p, e), Some (p', e') => Some (p ++ p', e ++ e')
  | _, _ => None
  end.

(* append what a chunk produced to the records kept per bandit *)
Fixpoint report_all (bs : list (sbandit * report)) (q : list (sbandit * option (list (option A) * list exps)))
  : list (sbandit * report) :=
  match bs, q with
  | br :: bs', (b', r) :: q' => (b', report_app (snd br) r) :: report_all bs' q'
  | _, _ => []
  end.

(* _offline_test_bandits: a single chunk [0, n).  For a context-free bandit the reported expectations are the
   final arm_to_expectation (one dictionary). *)
Definition sim_offline (bs : list (sbandit * report)) (test : batch) (orcs : list borc) : list (sbandit * report) :=
  let n := length (b_ds test) in
  report_all bs (sim_query_all (map fst bs) [] (b_cx test) n O n orcs).

(* the end of an online batch: every bandit is updated with the batch (mab.partial_fit) *)
Fixpoint sim_update_all (bs : list (sbandit * report)) (bt : batch) (orcs : list borc) : list (sbandit * report) :=
  match bs with
  | [] => []
  | (b, r) :: t =>
      let (b', ok) := sim_update b (b_ds bt) (b_rs bt) (b_cx bt) (snd (hd borc0 orcs)) in
      (b', if ok then r else None) :: sim_update_all t bt (tl orcs)
  end.

(* _online_test_bandits_chunks: for every batch, predict (all bandits), then evaluate and partial_fit (all bandits) *)
Fixpoint sim_online (bs : list (sbandit * report)) (lo : nat) (batches : list batch) (orcs : list (list borc))
  : list (sbandit * report) :=
  match batches with
  | [] => bs
  | bt :: rest =>
      let n := length (b_ds bt) in
      let o := hd [] orcs in
      let q := report_all bs (sim_query_all (map fst bs) [] (b_cx bt) n lo (lo + n) o) in
      sim_online (sim_update_all q bt o) (lo + n) rest (tl orcs)
  end.

(* Simulator.run for the bandits [ms]: train everything, then test.  [batches] = [] means offline. *)
Definition sim_train_all (quick : bool) (ms : list (@mab R A G)) (train : batch) (orcs : list oracle) : list (sbandit * report) :=
  map (fun mo => let (b, ok) := sim_train quick (fst mo) (b_ds train) (b_rs train)
                                          (if is_contextual (m_imp (fst mo)) then b_cx train else None) (snd mo) in
                 (b, if ok then Some ([], []) else None))
      (combine ms (orcs ++ repeat orc0 (length ms))).

(* ---- evaluation (default_evaluator over the finished records) ------------------------------------------- *)
(* bandit_to_arm_to_stats_neighborhoods: neighborhood_arm_to_stat, in the shape Sim.credited reads *)
Definition conv_nstat (row : nstat_row) : option (list (A * @stats R)) :=
  match row with
  | [] => None
  | _ => Some (flat_map (fun ao => match snd ao with Some st => [(fst ao, st)] | None => [] end) row)
  end.

Definition bandit_nstats (b : sbandit) : option (list (option (list (A * @stats R)))) :=
  match b with
  | SNbr _ _ bk => if k_quick bk then None else Some (map (fun x => conv_nstat (snd x)) (k_rows bk))
  | SMab _ => None
  end.

Fixpoint opt_all {T} (l : list (option T)) : option (list T) :=
  match l with
  | [] => Some []
  | Some x :: t => option_map (cons x) (opt_all t)
  | None :: _ => None
  end.

(* the evaluation of the test rows [lo, lo + length decs) for one statistic: per arm the statistics of the credited values,
   None = the all-NaN record of an arm that was never predicted *)
Definition sim_evaluate (arms : list A) (stat : @stats R -> R) (train : list (A * @stats R)) (b : sbandit) (preds : list (option A))
           (lo : nat) (decs : list A) (rews : list R) : option (list (A * option (@stats R))) :=
  match opt_all (slice lo (lo + length decs) preds) with
  | None => None
  | Some ps =>
      let ns := match bandit_nstats b with
                | Some l => slice lo (lo + length decs) l ++ repeat None (length decs)
                | None => repeat None (length decs)
                end in
      Some (map (fun a => (a, match arm_credits N aeqb stat train ns ps decs rews a with [] => None | cr => Some (get_stats N cr) end)) arms)
  end.

(* ---- chunked drivers (the branch of _run_train_test_split that lowers _chunk_size below the number of test rows) -- *)
(* the chunks [a, b) of n rows for chunk size c *)
Fixpoint chunk_bounds (fuel c lo n : nat) : list (nat * nat) :=
  match fuel with
  | O => []
  | S f => if Nat.leb n lo then [] else let hi := Nat.min (lo + Nat.max c 1) n in (lo, hi) :: chunk_bounds f c hi n
  end.

Definition cx_slice (a b : nat) (cx : option ctxs) : option ctxs := option_map (slice a b) cx.

(* the chunk loop over one batch whose first row has position lo in the test set: a new distance dictionary per chunk *)
Fixpoint sim_chunk_loop (bs : list (sbandit * report)) (cx : option ctxs) (lo : nat) (bounds : list (nat * nat)) (orcs : list (list borc))
  : list (sbandit * report) :=
  match bounds with
  | [] => bs
  | (a, b) :: t =>
      sim_chunk_loop (report_all bs (sim_query_all (map fst bs) [] (cx_slice a b cx) (b - a) (lo + a) (lo + b) (hd [] orcs)))
                     cx lo t (tl orcs)
  end.

(* after the chunk loop a context-free bandit reports ONE dictionary for the batch: its arm_to_expectation at that point *)
Definition cf_fix (old new : sbandit * report) : sbandit * report :=
  match fst new with
  | SMab m =>
      if is_contextual (m_imp m) then new else
      match snd old, snd new with
      | Some (_, e0), Some (p, _) => (fst new, Some (p, e0 ++ cf_exp_now m))
      | _, _ => new
      end
  | SNbr _ _ _ => new
  end.

Fixpoint cf_fix_all (olds news : list (sbandit * report)) : list (sbandit * report) :=
  match olds, news with
  | o :: olds', n :: news' => cf_fix o n :: cf_fix_all olds' news'
  | _, _ => []
  end.

Definition sim_batch_chunked (c : nat) (bs : list (sbandit * report)) (cx : option ctxs) (lo n : nat) (orcs : list (list borc))
  : list (sbandit * report) :=
  cf_fix_all bs (sim_chunk_loop bs cx lo (chunk_bounds (S n) c O n) orcs).

(* _offline_test_bandits with chunk size c *)
Definition sim_offline_chunked (c : nat) (bs : list (sbandit * report)) (test : batch) (orcs : list (list borc)) : list (sbandit * report) :=
  sim_batch_chunked c bs (b_cx test) O (length (b_ds test)) orcs.

(* _online_test_bandits_chunks with chunk size c; orcs: per batch, per chunk, per bandit (the update oracle is read from the first chunk) *)
Fixpoint sim_online_chunked (c : nat) (bs : list (sbandit * report)) (lo : nat) (batches : list batch) (orcs : list (list (list borc)))
  : list (sbandit * report) :=
  match batches with
  | [] => bs
  | bt :: rest =>
      let n := length (b_ds bt) in
      let o := hd [] orcs in
      let q := sim_batch_chunked c bs (b_cx bt) lo n o in
      sim_online_chunked c (sim_update_all q bt (hd [] o)) (lo + n) rest (tl orcs)
  end.

End SimRun.
