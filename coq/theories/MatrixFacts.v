(* MatrixFacts.v — X'X and X'y are additive over a split of the rows (under the ring laws): the algebra behind
   "any split of the training history into fit + partial_fit gives the same normal equations" (C02). *)
From Coq Require Import ZArith List Bool Lia.
From MW Require Import Num NumLaws Matrix.
Import ListNotations.

Section MatrixFacts.
Context {R : Type} (N : Num R) (L : NumLaws N).

Lemma map2_app {X Y Z} (f : X -> Y -> Z) (a1 a2 : list X) (b1 b2 : list Y) :
  length a1 = length b1 -> map2 f (a1 ++ a2) (b1 ++ b2) = map2 f a1 b1 ++ map2 f a2 b2.
Proof.
  revert b1. induction a1 as [|x t IH]; intros [|y b1] H; simpl in *; try discriminate; [reflexivity|].
  f_equal. apply IH. lia.
Qed.

Lemma map2_length {X Y Z} (f : X -> Y -> Z) (a : list X) (b : list Y) : length (map2 f a b) = Nat.min (length a) (length b).
Proof. revert b. induction a as [|x t IH]; intros [|y b]; simpl; auto. Qed.

Lemma fold_add_acc (l : list R) (acc : R) : fold_left (add N) l acc = add N acc (fold_left (add N) l (zero N)).
Proof.
  revert acc. induction l as [|x t IH]; intros acc; simpl.
  - symmetry. apply (add_0_r N L).
  - rewrite IH. rewrite (IH (add N (zero N) x)). rewrite (add_0_l N L). symmetry. apply (add_assoc N L).
Qed.

Lemma pysum_app (a b : list R) : pysum N (a ++ b) = add N (pysum N a) (pysum N b).
Proof. unfold pysum. rewrite fold_left_app. apply fold_add_acc. Qed.

Lemma dot_app (u1 u2 v1 v2 : list R) : length u1 = length v1 ->
  dot N (u1 ++ u2) (v1 ++ v2) = add N (dot N u1 v1) (dot N u2 v2).
Proof. intros H. unfold dot. rewrite map2_app by exact H. apply pysum_app. Qed.

Lemma col_app (x1 x2 : mat (R:=R)) j : col N (x1 ++ x2) j = col N x1 j ++ col N x2 j.
Proof. unfold col. apply map_app. Qed.

Lemma col_length (x : mat (R:=R)) j : length (col N x j) = length x.
Proof. unfold col. apply map_length. Qed.

Lemma map2_map_map {X Y Z W} (f : Y -> Z -> W) (g : X -> Y) (h : X -> Z) (l : list X) :
  map2 f (map g l) (map h l) = map (fun i => f (g i) (h i)) l.
Proof. induction l as [|x t IH]; simpl; [reflexivity | rewrite IH; reflexivity]. Qed.

Theorem xtx_app (d : nat) (x1 x2 : mat (R:=R)) : xtx N d (x1 ++ x2) = madd N (xtx N d x1) (xtx N d x2).
Proof.
  unfold xtx, transpose, madd. cbv zeta. rewrite !map_map. rewrite (map2_map_map (vadd N) _ _ (seq 0 d)). apply map_ext. intros i.
  unfold vadd. rewrite !map_map. rewrite map2_map_map. apply map_ext. intros j.
  rewrite !col_app. apply dot_app. rewrite !col_length. reflexivity.
Qed.

Theorem xty_app (d : nat) (x1 x2 : mat (R:=R)) (y1 y2 : vec (R:=R)) : length x1 = length y1 ->
  xty N d (x1 ++ x2) (y1 ++ y2) = vadd N (xty N d x1 y1) (xty N d x2 y2).
Proof.
  intros H. unfold xty, transpose, vadd. rewrite !map_map. rewrite map2_map_map. apply map_ext. intros i.
  rewrite col_app. apply dot_app. rewrite col_length. exact H.
Qed.

Lemma map2_assoc (f : R -> R -> R) (a b c : list R) : (forall x y z, f x (f y z) = f (f x y) z) ->
  map2 f (map2 f a b) c = map2 f a (map2 f b c).
Proof.
  intros Hf. revert b c. induction a as [|x a IH]; intros [|y b] [|z c]; simpl; try reflexivity.
  rewrite Hf. f_equal. apply IH.
Qed.

Lemma vadd_assoc (a b c : vec (R:=R)) : vadd N (vadd N a b) c = vadd N a (vadd N b c).
Proof. unfold vadd. apply map2_assoc. apply (add_assoc N L). Qed.

Lemma madd_assoc (a b c : mat (R:=R)) : madd N (madd N a b) c = madd N a (madd N b c).
Proof.
  unfold madd. revert b c. induction a as [|x a IH]; intros [|y b] [|z c]; simpl; try reflexivity.
  rewrite vadd_assoc. f_equal. apply IH.
Qed.

End MatrixFacts.
