(*  C16 — Simulator bookkeeping is a faithful account of the data.
   
    PROVED:
     * ordered split: train ++ test is the input, the test rows are exactly the LAST rows, the test indices are
       their positions (for every test_size, also in binary64 where int(n*(1-test_size)) rounds);
     * random split: train_test_split is an oracle; for every answer that enumerates the rows once, train and
       test together are a permutation of the input;
     * per arm, train and test counts add up to the total count (for every such split);
     * the default evaluator credits every prediction to exactly one arm: the evaluated counts sum to the
       number of test rows (predictions among the distinct arms);
     * under exact arithmetic the sums add up as well (C06/C20 permutation invariance of the sum).
     * the reported minimum and maximum of a reward list are elements of the list that bound every element, so min <= max
       (order laws);
    ..._partial: mean between min and max, and the numerical std, are checked by direct recomputation on the
    implementation's public attributes. *)
From Coq Require Import List ZArith Bool Arith QArith Qcanon Permutation.
From MW Require Import Num Assoc AssocFacts Rng Par CF CFInv CFClean CFForget CFSpec Matrix Lin Warm WarmInv Nbr NbrFacts NbrIndep LshFacts Clu Tree CellFacts Mab FacadeCF FacadeArms MoreFacts NumLaws CFAlg Sim Extra QcInst OrderFacts ExpIrrel LinInv FacadeLin LpInv NbrInv CluTreeInv FacadeAll ToyFacts C09All C10All LinForget LinSim MatrixFacts GaussJordan LinSpec NbrIndepGen CluIndep C17Lin WarmIdem C14More LshScale TreeLeaf Rename PopSpec CopyFacts StatFacts.
Import ListNotations.

Theorem C16_ordered_split_partition :
  forall (R : Type) (N : Num R) (T : Type) (l : list T) (test_size : R),
  let k := train_size N (length l) test_size in
  firstn k l ++ skipn k l = l /\
  length (skipn k l) = length (test_indices_ordered N (length l) test_size) /\
  (forall d : T, pick (test_indices_ordered N (length l) test_size) l d = skipn k l) /\
  (forall i : nat, In i (test_indices_ordered N (length l) test_size) <-> (k <= i < length l)%nat).
Proof. exact @ordered_split_partition. Qed.
Print Assumptions C16_ordered_split_partition.

Theorem C16_random_split_is_permutation :
  forall (T : Type) (l : list T) (d : T) (train_idx test_idx : list nat),
  Permutation (train_idx ++ test_idx) (seq 0 (length l)) ->
  Permutation (pick train_idx l d ++ pick test_idx l d) l.
Proof. exact @random_split_is_partition. Qed.
Print Assumptions C16_random_split_is_permutation.

Theorem C16_train_plus_test_counts :
  forall (R A : Type) (aeqb : A -> A -> bool) (rows train test : list (A * R)) (a : A),
  Permutation (train ++ test) rows ->
  (length (arm_rewards aeqb a (map fst train) (map snd train)) +
   length (arm_rewards aeqb a (map fst test) (map snd test)))%nat =
  length (arm_rewards aeqb a (map fst rows) (map snd rows)).
Proof. exact @train_plus_test_counts. Qed.
Print Assumptions C16_train_plus_test_counts.

Theorem C16_evaluated_counts_sum_to_test_size :
  forall (R A : Type) (N : Num R) (aeqb : A -> A -> bool),
  (forall x y : A, aeqb x y = true <-> x = y) ->
  forall (stat : stats -> R) (train : list (A * stats)) (nstats : list (option (list (A * stats))))
    (arms preds decs : list A) (rewards : list R),
  NoDup arms ->
  (forall p : A, In p preds -> In p arms) ->
  length preds = length decs ->
  length preds = length rewards ->
  length preds = length nstats ->
  fold_right Init.Nat.add 0%nat
    (map (fun a : A => length (arm_credits N aeqb stat train nstats preds decs rewards a)) arms) =
  length preds.
Proof. exact @evaluated_counts_sum_to_test_size. Qed.
Print Assumptions C16_evaluated_counts_sum_to_test_size.

Theorem C16_sums_invariant_under_row_order :
  forall (R : Type) (N : Num R),
  NumLaws N -> forall l l' : list R, Permutation l l' -> nsum N l = nsum N l'.
Proof. exact @nsum_permutation. Qed.
Print Assumptions C16_sums_invariant_under_row_order.

Theorem C16_minimum_is_an_attained_lower_bound :
  forall (R : Type) (N : Num R),
  NumLaws N ->
  forall l : list R,
  l <> [] -> In (list_min N l) l /\ (forall x : R, In x l -> leb N (list_min N l) x = true).
Proof. exact @list_min_is_attained_lower_bound. Qed.
Print Assumptions C16_minimum_is_an_attained_lower_bound.

Theorem C16_maximum_is_an_attained_upper_bound :
  forall (R : Type) (N : Num R),
  NumLaws N ->
  forall l : list R,
  l <> [] -> In (list_max N l) l /\ (forall x : R, In x l -> leb N x (list_max N l) = true).
Proof. exact @list_max_is_attained_upper_bound. Qed.
Print Assumptions C16_maximum_is_an_attained_upper_bound.

Theorem C16_min_le_max :
  forall (R : Type) (N : Num R),
  NumLaws N ->
  forall rs : list R, rs <> [] -> leb N (st_min (get_stats N rs)) (st_max (get_stats N rs)) = true.
Proof. exact @stats_min_le_max. Qed.
Print Assumptions C16_min_le_max.


