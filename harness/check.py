#!/venv/bin/python
# check.py — `bin/check Cxx --tier quick|thorough [--replay file]`
#   1. (re)build the Coq development, the extraction and the driver; re-check the property's theorem file
#      and collect `Print Assumptions`;
#   2. corpus + generated correspondence cases: implementation (from /repo's working tree) vs extracted model;
#   3. the property's relations executed on the implementation alone (the search for a failing input);
#   4. decide, write evidence, print VIOLATION / KNOWN-FINDING lines.
import os, sys, json, time, hashlib, random, subprocess, re, argparse, traceback

HERE = os.path.dirname(os.path.abspath(__file__))
ROOT = os.path.dirname(HERE)
sys.path.insert(0, HERE)

def sh(cmd, timeout=3600, cwd=None):
    p = subprocess.run(cmd, shell=True, cwd=cwd, stdout=subprocess.PIPE, stderr=subprocess.STDOUT, text=True, timeout=timeout)
    return p.returncode, p.stdout

# ------------------------------------------------------------------ proofs
FORBIDDEN = re.compile(r"\b(Admitted|admit|Axiom|Axioms|Parameter|Parameters|Conjecture|Conjectures|Abort All)\b|Unset\s+Guard|bypass_check|-type-in-type|-impredicative-set|Admit\s+Obligations")

def hygiene():
    bad = []
    for d in ("coq/theories", "coq/props", "coq/extract"):
        for fn in sorted(os.listdir(os.path.join(ROOT, d))):
            if not fn.endswith(".v"):
                continue
            txt = open(os.path.join(ROOT, d, fn)).read()
            txt = re.sub(r"\(\*.*?\*\)", "", txt, flags=re.S)
            for m in FORBIDDEN.finditer(txt):
                bad.append("%s/%s: %s" % (d, fn, m.group(0)))
            # Variable / Hypothesis outside a section
            depth = 0
            for line in txt.splitlines():
                s = line.strip()
                if re.match(r"Section\s+\w+", s): depth += 1
                elif re.match(r"End\s+\w+", s): depth = max(0, depth - 1)
                elif depth == 0 and re.match(r"(Variable|Variables|Hypothesis|Hypotheses|Context)\b", s):
                    bad.append("%s/%s: %s outside a section" % (d, fn, s[:40]))
    return bad

def check_proofs(prop):
    """full build is done by bin/setup; here the property's own file is re-checked and its assumptions parsed"""
    res = {"build_ok": True, "theorems": [], "closed": [], "axioms": {}, "log": "", "file": "coq/props/%s.v" % prop}
    rc, out = sh(os.path.join(ROOT, "bin", "setup"), timeout=3600)
    if rc != 0 or "SETUP: ok" not in out:
        res["build_ok"] = False; res["log"] = out[-3000:]
        return res
    pf = os.path.join(ROOT, "coq", "props", prop + ".v")
    if not os.path.exists(pf):
        res["build_ok"] = False; res["log"] = "missing " + pf
        return res
    rc, out = sh("timeout 900 coqc -Q theories MW -Q props MWP props/%s.v" % prop, cwd=os.path.join(ROOT, "coq"), timeout=1000)
    res["log"] = out[-4000:]
    if rc != 0:
        res["build_ok"] = False
        return res
    src = re.sub(r"\(\*.*?\*\)", "", open(pf).read(), flags=re.S)
    res["theorems"] = re.findall(r"^\s*(?:Theorem|Corollary)\s+(\w+)", src, flags=re.M)
    # props/<id>.v is generated from props_src/<id>.txt (tools/genprops.py): a theorem listed there must be stated in the checked file
    sf = os.path.join(ROOT, "coq", "props_src", prop + ".txt")
    if os.path.exists(sf):
        listed = [l.split()[1] for l in open(sf).read().split("RAW")[0].splitlines() if l.startswith("THEOREM ")]
        missing = [n for n in listed if n not in res["theorems"]]
        if missing:
            res["build_ok"] = False; res["log"] = "coq/props/%s.v is older than coq/props_src/%s.txt (run coq/tools/genprops.py %s): missing %s" % (prop, prop, prop, missing)
            return res
    printed = re.findall(r"Print Assumptions\s+(\w+)\s*\.", src)
    # output blocks of Print Assumptions appear in order
    blocks = re.split(r"(?=Closed under the global context|Axioms:)", out)
    blocks = [b for b in blocks if b.startswith("Closed under") or b.startswith("Axioms:")]
    for name, b in zip(printed, blocks):
        if b.startswith("Closed under"):
            res["closed"].append(name)
        else:
            res["axioms"][name] = [l.strip() for l in b.splitlines()[1:] if l.strip() and not l.startswith(" " * 4)][:20]
    res["printed"] = printed
    return res

# ------------------------------------------------------------------ evidence / replays
def case_hash(obj):
    return hashlib.sha1(json.dumps(obj, sort_keys=True, default=str).encode()).hexdigest()[:16]

def strip_case(c):
    return {k: v for k, v in c.items() if not k.startswith("_")}

def write_replay(prop, kind, payload):
    d = os.path.join(ROOT, "replays", prop)
    os.makedirs(d, exist_ok=True)
    body = {"property": prop, "kind": kind}
    body.update(payload)
    h = case_hash(body)
    fn = os.path.join(d, "%s_%s.json" % (kind, h))
    with open(fn, "w") as f:
        json.dump(body, f, indent=1, default=str)
    return fn

def abbreviate(case, limit=6):
    c = strip_case(case)
    ops = []
    for o in c.get("ops", [])[:limit]:
        if o[0] in ("fit", "pfit"):
            ops.append([o[0], "rows=%d" % len(o[1]), "arms=%s" % sorted(set(o[1])), "ctx=%s" % (None if o[3] is None else "%dx%d" % (len(o[3]), len(o[3][0]) if o[3] else 0))])
        elif o[0] in ("pred", "pexp"):
            ops.append([o[0], "m=%s" % (None if o[1] is None else len(o[1]))])
        elif o[0] == "warm":
            ops.append([o[0], "q=%s" % o[3]])
        else:
            ops.append(list(o[:2]))
    return {"lp": c.get("lp"), "np": c.get("np"), "arms": c.get("arms"), "label": c.get("label"), "seed": c.get("seed"),
            "n_ops": len(c.get("ops", [])), "ops_head": ops}

def main():
    import props as P
    ap = argparse.ArgumentParser()
    ap.add_argument("prop")
    ap.add_argument("--tier", default=os.environ.get("VERIF_TIER", "quick"))
    ap.add_argument("--replay", default=None)
    args = ap.parse_args()
    prop = args.prop
    tier = args.tier if args.tier in ("quick", "thorough") else "quick"
    seed = int(os.environ.get("VERIF_SEED", "0") or 0)
    t0 = time.time()
    spec = P.PROPS[prop]

    if not args.replay:
        # replay files of earlier runs of this property are stale
        rd = os.path.join(ROOT, "replays", prop)
        if os.path.isdir(rd):
            for fn in os.listdir(rd):
                try:
                    os.remove(os.path.join(rd, fn))
                except OSError:
                    pass
    proof = check_proofs(prop)
    hyg = hygiene()
    import mwh
    if args.replay:
        sys.exit(1 if P.replay(prop, args.replay) else 0)

    violations = []          # (replay file, suffix)
    known_lines = []
    stats = {"corr_cases": 0, "corr_disagree": 0, "rel_cases": 0, "rel_fail": 0, "known_hits": 0}
    samples = []
    distinct = set()
    dist = {}

    proof_ok = proof["build_ok"] and not hyg and len(proof["theorems"]) > 0 and \
        all(t in proof["closed"] or t in proof["axioms"] for t in proof.get("printed", [])) and \
        set(proof["theorems"]) <= set(proof.get("printed", []))
    unexpected_axioms = {k: v for k, v in proof["axioms"].items() if not P.axioms_allowed(v)}
    if unexpected_axioms:
        proof_ok = False

    findings = P.load_findings()
    corr = rel = None
    try:
        corr = P.run_correspondence(prop, spec, tier, seed, stats, samples, distinct, dist)
        rel = P.run_relations(prop, spec, tier, seed, stats, samples, distinct, dist, findings, known_lines)
    except Exception as e:
        traceback.print_exc()
        fn = write_replay(prop, "harness_error", {"error": traceback.format_exc()[-3000:]})
        violations.append((fn, " no-failing-input-found"))

    if rel:
        for f in rel:            # concrete failing inputs found on the implementation
            fn = write_replay(prop, "relation", f)
            violations.append((fn, ""))
    if corr:
        if spec.get("functional"):
            for d in corr[:3]:   # a theorem pins the model value: the disagreement is the failing input
                fn = write_replay(prop, "correspondence", d)
                violations.append((fn, ""))
        elif not rel:
            # correspondence broken, relation still holds on everything searched: extended search
            more = P.extended_search(prop, spec, tier, seed, stats, findings, known_lines)
            if more:
                for f in more:
                    violations.append((write_replay(prop, "relation", f), ""))
            else:
                fn = write_replay(prop, "correspondence", dict(corr[0], note="model and implementation disagree; the relation %s held on every searched input" % prop))
                violations.append((fn, " no-failing-input-found"))
    if not proof_ok:
        fn = write_replay(prop, "theorem", {"file": proof["file"], "build_ok": proof["build_ok"], "hygiene": hyg,
                                            "unexpected_axioms": unexpected_axioms, "log": proof["log"][-2000:],
                                            "theorems": proof["theorems"]})
        if not any(s == "" for _, s in violations):
            violations.append((fn, " no-failing-input-found"))

    wall = time.time() - t0
    ev = {
        "property_id": prop, "tier": tier, "seed": seed, "level": "proof",
        "coverage": {
            "obligations": len(proof["theorems"]),
            "discharged": len([t for t in proof["theorems"] if t in proof["closed"] or (t in proof["axioms"] and P.axioms_allowed(proof["axioms"][t]))]) if proof["build_ok"] else 0,
            "checker_cmd": "bin/setup (coq_makefile + make, full .vo build of coq/theories and coq/props) ; coqc -Q theories MW -Q props MWP props/%s.v" % prop,
            "trusted_base": P.TRUSTED_BASE,
            "theorems": proof["theorems"],
            "print_assumptions": {"closed_under_global_context": proof["closed"], "axioms": proof["axioms"]},
            "evaluations": stats["corr_cases"] + stats["rel_cases"],
            "distinct_nontrivial": len(distinct),
            "rule": spec.get("rule", ""),
            "samples": samples[:4],
            "traces_validated_against_impl": stats["corr_cases"],
            "correspondence_disagreements": stats["corr_disagree"],
            "relation_cases": stats["rel_cases"], "relation_failures": stats["rel_fail"],
            "known_finding_hits": stats["known_hits"],
            "input_distribution": dist,
            "exhaustive": False,
        },
        "assumptions": spec.get("assumptions", []) + P.COMMON_ASSUMPTIONS,
        "wall_s": round(wall, 2),
        "violations": len(violations),
        "known_findings_printed": known_lines,
    }
    os.makedirs(os.path.join(ROOT, "evidence"), exist_ok=True)
    with open(os.path.join(ROOT, "evidence", prop + ".json"), "w") as f:
        json.dump(ev, f, indent=1, default=str)
    for l in sorted(set(known_lines)):
        print(l)
    if violations:
        seen = set()
        for fn, suffix in violations[:5]:
            if fn in seen:
                continue
            seen.add(fn)
            print("VIOLATION property=%s replay=%s%s" % (prop, fn, suffix))
        sys.exit(1)
    print("OK property=%s tier=%s theorems=%d corr_cases=%d rel_cases=%d wall=%.1fs" % (
        prop, tier, len(proof["theorems"]), stats["corr_cases"], stats["rel_cases"], wall))
    sys.exit(0)

if __name__ == "__main__":
    main()
