(* Nbr.v — neighbors.py (_Neighbors, _Radius, _KNearest) and approximate.py (_LSHNearest),
   plus the generic "learning policy" sum type used by every neighbourhood policy. *)
From Coq Require Import ZArith List Bool.
From MW Require Import Num Assoc Rng CF Matrix Lin Par.
Import ListNotations.

Inductive metric := Cityblock | Chebyshev | SqEuclidean | Euclidean.

Section Nbr.
Context {R A G : Type} (N : Num R) (aeqb : A -> A -> bool) (RG : RngOps R G).

(* ---- the learning policy object held by a neighbourhood policy ---------------- *)
Inductive lp : Type :=
| LCf (s : @cf R A)
| LLin (s : @lin R A G).

Definition lp_arms (l : lp) : list A := match l with LCf s => c_arms s | LLin s => l_arms s end.

(* lp.fit; the flag is false when training raises *)
Definition lp_fit (l : lp) (g : G) (ds : list A) (rs : list R) (cx : mat (R:=R)) : lp * bool :=
  match l with
  | LCf s => (LCf (cf_fit N aeqb s ds rs), true)
  | LLin s => let (s', ok) := lin_fit N aeqb s g ds rs cx in (LLin s', ok)
  end.

Definition lp_add_arm (l : lp) (a : A) bz : lp :=
  match l with LCf s => LCf (cf_add_arm N aeqb s a bz) | LLin s => LLin (lin_add_arm N aeqb s a) end.
Definition lp_remove_arm (l : lp) (a : A) : lp :=
  match l with LCf s => LCf (cf_remove_arm N aeqb s a) | LLin s => LLin (lin_remove_arm aeqb s a) end.

(* lp.predict_expectations(row_2d) with lp.rng = g : a single dictionary *)
Definition lp_expectations1 (l : lp) (g : G) (row : list R) : list (A * R) * lp * G :=
  match l with
  | LCf s => let '(e, s', g') := cf_predict_exp N aeqb RG s g (Some 1%nat) in (hd [] e, LCf s', g')
  | LLin s => let '(e, s', g') := lin_expectations N aeqb RG s g [row] in (hd [] e, LLin s', g')
  end.

Definition lp_is_ts_binz (l : lp) : bool :=
  match l with
  | LCf s => match c_kind s, c_binz s with KThompson, Some _ => true | _, _ => false end
  | LLin _ => false
  end.

(* _binarize_ts_rewards: convert with the policy's binarizer, leave is_contextual_binarized = True *)
Definition lp_binarize (l : lp) (ds : list A) (rs : list R) : lp * list R :=
  match l with
  | LCf s => if lp_is_ts_binz l
             then (LCf (set_ctxbin s true), binarize (set_ctxbin s false) ds rs)
             else (l, rs)
  | LLin _ => (l, rs)
  end.

(* ---- distances ---------------------------------------------------------------- *)
Definition rabs' (x : R) : R := if ltb N x (zero N) then sub N (zero N) x else x.
Definition distance (m : metric) (u v : list R) : R :=
  let d := map2 (sub N) u v in
  match m with
  | Cityblock => pysum N (map rabs' d)
  | Chebyshev => fold_left (fun b x => if ltb N b x then x else b) (map rabs' d) (zero N)
  | SqEuclidean => pysum N (map (fun x => mul N x x) d)
  | Euclidean => sqrt N (pysum N (map (fun x => mul N x x) d))
  end.

(* ---- state -------------------------------------------------------------------- *)
Inductive nkind := NRadius (r : R) | NKNearest (k : nat) | NLsh (ndim ntab : nat).

Record nbr := mkNbr {
  n_kind : nkind;
  n_metric : metric;
  n_nnprob : option (list R);          (* no_nhood_prob_of_arm *)
  n_kf_newarm0 : bool;                 (* finding D10: an arm added later holds 0, not NaN *)
  n_arms : list A;
  n_lp : lp;
  n_exp : list (A * option R);         (* arm_to_expectation: NaN (None) *)
  n_ds : list A; n_rs : list R; n_cx : mat (R:=R);       (* stored history *)
  n_planes : list (mat (R:=R));        (* LSH: per table, num_features x n_dimensions *)
  n_tables : list (list (Z * list nat))(* LSH: per table, hash -> row positions *)
}.

Definition nbr_init (k : nkind) (m : metric) (p : option (list R)) (kf : bool) (arms : list A) (l : lp) : nbr :=
  mkNbr k m p kf arms l (afromkeys arms None) [] [] []
        (match k with NLsh _ nt => repeat [] nt | _ => [] end)
        (match k with NLsh _ nt => repeat [] nt | _ => [] end).

Definition set_hist (s : nbr) l ds rs cx :=
  mkNbr (n_kind s) (n_metric s) (n_nnprob s) (n_kf_newarm0 s) (n_arms s) l (n_exp s) ds rs cx (n_planes s) (n_tables s).
Definition set_lsh (s : nbr) pl tb :=
  mkNbr (n_kind s) (n_metric s) (n_nnprob s) (n_kf_newarm0 s) (n_arms s) (n_lp s) (n_exp s) (n_ds s) (n_rs s) (n_cx s) pl tb.

(* ---- LSH ---------------------------------------------------------------------- *)
(* get_context_hash for one row: sum over i of [0 < row . plane[:, i]] * 2^i *)
Definition lsh_hash (ndim : nat) (plane : mat (R:=R)) (row : list R) : Z :=
  fold_left (fun acc i => if ltb N (zero N) (dot N row (col N plane i)) then (acc + 2 ^ (Z.of_nat i))%Z else acc)
            (seq 0 ndim) 0%Z.

Definition zeqb (x y : Z) : bool := Z.eqb x y.

(* _fit_operation for one table: append position start+i under the hash of row i *)
Definition lsh_insert_rows (ndim : nat) (plane : mat (R:=R)) (tbl : list (Z * list nat)) (cx : mat (R:=R)) (start : nat)
  : list (Z * list nat) :=
  fold_left (fun t ir => let '(i, row) := (ir : nat * list R) in
                         let h := lsh_hash ndim plane row in
                         aset zeqb t h (aget_d zeqb [] t h ++ [start + i]))
            (combine (seq 0 (length cx)) cx) tbl.

(* draw one plane per table from the bandit's generator *)
Fixpoint draw_planes (g : G) (ntab d ndim : nat) : list (mat (R:=R)) * G :=
  match ntab with
  | O => ([], g)
  | S k => let (v, g1) := draw_r RG g (RqStdNormal d ndim) in
           let (rest, g2) := draw_planes g1 k d ndim in (chunk_rows d ndim v :: rest, g2)
  end.

(* sorted, duplicate-free union (the set of neighbours) *)
Fixpoint insert_nat (x : nat) (l : list nat) : list nat :=
  match l with
  | [] => [x]
  | y :: t => if Nat.ltb x y then x :: y :: t else if Nat.eqb x y then y :: t else y :: insert_nat x t
  end.
Definition nat_set (l : list nat) : list nat := fold_left (fun acc x => insert_nat x acc) l [].

Definition lsh_neighbors (s : nbr) (ndim : nat) (row : list R) : list nat :=
  nat_set (flat_map (fun pt => let '(plane, tbl) := (pt : mat (R:=R) * list (Z * list nat)) in
                               aget_d zeqb [] tbl (lsh_hash ndim plane row))
                    (combine (n_planes s) (n_tables s))).

(* ---- fit / partial_fit -------------------------------------------------------- *)
Definition nbr_fit (s : nbr) (g : G) (ds : list A) (rs : list R) (cx : mat (R:=R)) : nbr * G :=
  let (l', rs') := lp_binarize (n_lp s) ds rs in
  let s1 := set_hist s l' ds rs' cx in
  match n_kind s with
  | NLsh ndim ntab =>
      let (planes, g1) := draw_planes g ntab (ncols cx) ndim in
      let tables := map (fun plane => lsh_insert_rows ndim plane [] cx 0) planes in
      (set_lsh s1 planes tables, g1)
  | _ => (s1, g)
  end.

Definition nbr_partial_fit (s : nbr) (ds : list A) (rs : list R) (cx : mat (R:=R)) : nbr :=
  let (l', rs') := lp_binarize (n_lp s) ds rs in
  let start := length (n_cx s) in
  let s1 := set_hist s l' (n_ds s ++ ds) (n_rs s ++ rs') (n_cx s ++ cx) in
  match n_kind s with
  | NLsh ndim ntab =>
      set_lsh s1 (n_planes s1)
              (map (fun pt => let '(plane, tbl) := (pt : mat (R:=R) * list (Z * list nat)) in
                              lsh_insert_rows ndim plane tbl cx start)
                   (combine (n_planes s1) (n_tables s1)))
  | _ => s1
  end.

(* _Neighbors._uptake_new_arm: lp.add_arm, and a binarizer arriving with the arm marks the stored
   (already binary) rewards as converted *)
Definition lp_mark_converted (l : lp) (bz : option (A -> R -> R)) : lp :=
  match l, bz with
  | LCf c, Some _ => match c_kind c with KThompson => LCf (set_ctxbin c true) | _ => l end
  | _, _ => l
  end.

Definition nbr_add_arm (s : nbr) (a : A) bz : nbr :=
  mkNbr (n_kind s) (n_metric s) (n_nnprob s) (n_kf_newarm0 s) (n_arms s ++ [a]) (lp_mark_converted (lp_add_arm (n_lp s) a bz) bz)
        (aset aeqb (n_exp s) a (if n_kf_newarm0 s then Some (zero N) else None))
        (n_ds s) (n_rs s) (n_cx s) (n_planes s) (n_tables s).
Definition nbr_remove_arm (s : nbr) (a : A) : nbr :=
  mkNbr (n_kind s) (n_metric s) (n_nnprob s) (n_kf_newarm0 s) (lremove aeqb (n_arms s) a) (lp_remove_arm (n_lp s) a)
        (apop aeqb (n_exp s) a)
        (n_ds s) (n_rs s) (n_cx s) (n_planes s) (n_tables s).

(* ---- prediction --------------------------------------------------------------- *)
Definition select {T} (l : list T) (dflt : T) (idx : list nat) : list T := map (fun i => nth i l dflt) idx.

(* a valid answer of np.argpartition(d, k-1)[:k]: k distinct in-range positions whose
   distances are all <= every distance not selected *)
Fixpoint nodup_nat (l : list nat) : bool :=
  match l with [] => true | x :: t => negb (existsb (Nat.eqb x) t) && nodup_nat t end.
Definition knn_valid (dists : list R) (k : nat) (sel : list nat) : bool :=
  Nat.eqb (length sel) k && nodup_nat sel
  && forallb (fun i => Nat.ltb i (length dists)) sel
  && forallb (fun i => forallb (fun j => existsb (Nat.eqb j) sel || leb N (nth i dists (zero N)) (nth j dists (zero N)))
                               (seq 0 (length dists))) sel.

(* neighbourhood of one query row.  [oracle] is the answer of argpartition for KNearest
   (ignored otherwise); None = invalid certificate *)
Definition neighborhood (s : nbr) (row : list R) (oracle : list nat) : option (list nat) :=
  match n_kind s with
  | NRadius r =>
      Some (map fst (filter (fun id => leb N (snd id) r)
                            (combine (seq 0 (length (n_cx s))) (map (fun c => distance (n_metric s) c row) (n_cx s)))))
  | NKNearest k =>
      let dists := map (fun c => distance (n_metric s) c row) (n_cx s) in
      if knn_valid dists k oracle then Some oracle else None
  | NLsh ndim _ => Some (lsh_neighbors s ndim row)
  end.

Definition a_dflt (s : nbr) : A -> A := fun a => a.

Definition nnprob_len_ok (s : nbr) : bool :=
  match n_nnprob s with Some p => Nat.eqb (length p) (length (n_arms s)) | None => true end.

(* one row: lp is the chunk's deep copy (threaded through the rows of the chunk) *)
Definition nbr_row (s : nbr) (l : lp) (seed : Z) (row : list R) (oracle : list nat) (is_predict : bool)
  : option ((option A + list (A * option R)) * lp) :=
  let g := create RG seed in
  match neighborhood s row oracle with
  | None => None
  | Some [] =>
      if is_predict then
        (* rng.choice(len(arms), p=no_nhood_prob_of_arm) raises when the list no longer has one entry per arm
           (add_arm / remove_arm do not resize it: finding D24) *)
        if negb (nnprob_len_ok s) then None else
        let (v, _) := draw_z RG g (RqChoice (length (n_arms s)) (n_nnprob s)) in
        Some (inl (nth_error (n_arms s) (Z.to_nat (match v with x :: _ => x | [] => 0%Z end))), l)
      else Some (inr (n_exp s), l)
  | Some idx =>
      let ds := map (fun i => nth_error (n_ds s) i) idx in
      let ds' := flat_map (fun o => match o with Some a => [a] | None => [] end) ds in
      let rs := select (n_rs s) (zero N) idx in
      let cx := select (n_cx s) [] idx in
      let (l1, ok) := lp_fit l g ds' rs cx in
      if negb ok then None else
      let '(e, l2, _) := lp_expectations1 l1 g row in
      if is_predict then Some (inl (argmax_first N e), l2)
      else Some (inr (map (fun kv => (fst kv, Some (snd kv))) e), l2)
  end.

Fixpoint nbr_rows (s : nbr) (l : lp) (seeds : list Z) (rows : mat (R:=R)) (oracles : list (list nat)) (is_predict : bool)
  : option (list (option A + list (A * option R))) :=
  match seeds, rows with
  | sd :: seeds', row :: rows' =>
      match nbr_row s l sd row (hd [] oracles) is_predict with
      | None => None
      | Some (r, l') =>
          match nbr_rows s l' seeds' rows' (tl oracles) is_predict with
          | None => None
          | Some rest => Some (r :: rest)
          end
      end
  | _, _ => Some []
  end.

(* _parallel_predict: one seed per row drawn from the bandit's generator before partitioning;
   each chunk starts from a fresh deep copy of self.lp.  [sizes] is the partition. *)
Definition nbr_predict (s : nbr) (g : G) (cx : mat (R:=R)) (oracles : list (list nat)) (sizes : list nat) (is_predict : bool)
  : option (list (option A + list (A * option R))) * G :=
  let (seeds, g1) := draw_z RG g (RqRandint 2147483647 (length cx)) in
  let parts := combine (combine (chunks sizes seeds) (chunks sizes cx)) (chunks sizes oracles) in
  let res := map (fun p => let '(sd, rows, orc) := (p : list Z * mat (R:=R) * list (list nat)) in
                           nbr_rows s (n_lp s) sd rows orc is_predict) parts in
  (fold_right (fun r acc => match r, acc with Some x, Some y => Some (x ++ y) | _, _ => None end) (Some []) res, g1).

End Nbr.
