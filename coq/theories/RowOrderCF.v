(* RowOrderCF.v — C20 (row order) for the six context-free policies as a statement about the whole policy object (exact
   arithmetic): a per-arm training task reads the batch only through the sum, the number and the emptiness of the arm's rewards,
   so fit and partial_fit on a batch whose (decision, reward) rows are permuted leave the SAME policy object - statistics,
   expectations, trained / warm status, UCB1's N, Thompson's counts (after the binarizer) included. *)
From Coq Require Import ZArith List Bool Lia Permutation.
From MW Require Import Num NumLaws Assoc AssocFacts Rng CF CFAlg.
Import ListNotations.

Section RowOrderCF.
Context {R A : Type} (N : Num R) (L : NumLaws N) (aeqb : A -> A -> bool).
Notation cf := (@cf R A).

Lemma is_nil_permutation {T} (l l' : list T) : Permutation l l' -> is_nil l = is_nil l'.
Proof.
  intros P. destruct l as [|x l]; destruct l' as [|y l']; try reflexivity.
  - apply Permutation_nil in P. discriminate.
  - apply Permutation_sym, Permutation_nil in P. discriminate.
Qed.

Lemma cf_fit_arm_permutation (s : cf) a ds rs ds' rs' :
  Permutation (arm_rewards aeqb a ds rs) (arm_rewards aeqb a ds' rs') -> cf_fit_arm N aeqb s a ds rs = cf_fit_arm N aeqb s a ds' rs'.
Proof.
  intros P. unfold cf_fit_arm. rewrite (nsum_permutation N L _ _ P), (Permutation_length P), (is_nil_permutation _ _ P). reflexivity.
Qed.

Lemma cf_parallel_fit_permutation (rows rows' : list (A * R)) : Permutation rows rows' -> forall s : cf,
  cf_parallel_fit N aeqb s (map fst rows) (map snd rows) = cf_parallel_fit N aeqb s (map fst rows') (map snd rows').
Proof.
  intros P s. unfold cf_parallel_fit. generalize (c_arms s). intros arms. revert s. induction arms as [|a t IH]; intros s; cbn [fold_left]; [reflexivity|].
  rewrite (cf_fit_arm_permutation s a _ _ _ _ (arm_rewards_permutation aeqb a rows rows' P)). apply IH.
Qed.

Lemma amem_permutation' (a : A) (l l' : list A) : Permutation l l' -> amem aeqb a l = amem aeqb a l'.
Proof.
  intros P. unfold amem. induction P as [|x l l' P IH|x y l|l l' l'' P1 IH1 P2 IH2]; cbn; [reflexivity | rewrite IH; reflexivity | | congruence].
  destruct (aeqb a y), (aeqb a x); reflexivity.
Qed.

Lemma set_trained_permutation (s : cf) (ds ds' : list A) p : Permutation ds ds' -> set_trained aeqb s ds p = set_trained aeqb s ds' p.
Proof.
  intros P. unfold set_trained. f_equal. generalize (c_status s). induction (c_arms s) as [|a t IH]; intros st; cbn [fold_left]; [reflexivity|].
  rewrite (amem_permutation' a ds ds' P). apply IH.
Qed.

Lemma combine_fst_snd {X Y} (l : list (X * Y)) : combine (map fst l) (map snd l) = l.
Proof. induction l as [|[x y] t IH]; cbn; [reflexivity | rewrite IH; reflexivity]. Qed.

(* the binarizer is applied row by row: the converted batch is the permuted converted batch *)
Definition conv_rows (s : cf) (rows : list (A * R)) : list (A * R) :=
  match c_binz s with
  | Some f => if c_ctxbin s then rows else map (fun dr => (fst dr, f (fst dr) (snd dr))) rows
  | None => rows
  end.

Lemma binarize_rows (s : cf) (rows : list (A * R)) :
  map fst (conv_rows s rows) = map fst rows /\ map snd (conv_rows s rows) = binarize s (map fst rows) (map snd rows).
Proof.
  unfold conv_rows, binarize. destruct (c_binz s) as [f|]; [|split; reflexivity]. destruct (c_ctxbin s); [split; reflexivity|].
  rewrite combine_fst_snd. rewrite !map_map. split; reflexivity.
Qed.

Lemma conv_rows_permutation (s : cf) rows rows' : Permutation rows rows' -> Permutation (conv_rows s rows) (conv_rows s rows').
Proof. intros P. unfold conv_rows. destruct (c_binz s); [|exact P]. destruct (c_ctxbin s); [exact P | apply Permutation_map; exact P]. Qed.

Theorem cf_fit_permutation (s : cf) (rows rows' : list (A * R)) : Permutation rows rows' ->
  cf_fit N aeqb s (map fst rows) (map snd rows) = cf_fit N aeqb s (map fst rows') (map snd rows').
Proof.
  intros P. pose proof (Permutation_map fst P) as Pd. unfold cf_fit. destruct (c_kind s).
  - rewrite (cf_parallel_fit_permutation rows rows' P). rewrite (set_trained_permutation _ _ _ false Pd). reflexivity.
  - rewrite (cf_parallel_fit_permutation rows rows' P). rewrite (set_trained_permutation _ _ _ false Pd). rewrite !map_length, (Permutation_length P). reflexivity.
  - rewrite (cf_parallel_fit_permutation rows rows' P). rewrite (set_trained_permutation _ _ _ false Pd). reflexivity.
  - rewrite (cf_parallel_fit_permutation rows rows' P). rewrite (set_trained_permutation _ _ _ false Pd). reflexivity.
  - destruct (binarize_rows s rows) as [D1 B1]. destruct (binarize_rows s rows') as [D2 B2]. rewrite <- B1, <- B2, <- D1, <- D2.
    rewrite (cf_parallel_fit_permutation _ _ (conv_rows_permutation s rows rows' P)). rewrite D1, D2.
    rewrite (set_trained_permutation _ _ _ false Pd). reflexivity.
  - reflexivity.
Qed.

Theorem cf_partial_fit_permutation (s : cf) (rows rows' : list (A * R)) : Permutation rows rows' ->
  cf_partial_fit N aeqb s (map fst rows) (map snd rows) = cf_partial_fit N aeqb s (map fst rows') (map snd rows').
Proof.
  intros P. pose proof (Permutation_map fst P) as Pd. unfold cf_partial_fit. destruct (c_kind s).
  - rewrite (cf_parallel_fit_permutation rows rows' P). rewrite (set_trained_permutation _ _ _ true Pd). reflexivity.
  - rewrite (cf_parallel_fit_permutation rows rows' P). rewrite (set_trained_permutation _ _ _ true Pd). rewrite !map_length, (Permutation_length P). reflexivity.
  - rewrite (cf_parallel_fit_permutation rows rows' P). rewrite (set_trained_permutation _ _ _ true Pd). reflexivity.
  - rewrite (cf_parallel_fit_permutation rows rows' P). rewrite (set_trained_permutation _ _ _ true Pd). reflexivity.
  - destruct (binarize_rows s rows) as [D1 B1]. destruct (binarize_rows s rows') as [D2 B2]. rewrite <- B1, <- B2.
    rewrite <- D1 at 1. rewrite <- D2 at 1.
    rewrite (cf_parallel_fit_permutation _ _ (conv_rows_permutation s rows rows' P)).
    rewrite (set_trained_permutation _ _ _ true Pd). reflexivity.
  - reflexivity.
Qed.

End RowOrderCF.
