(* AssocFacts.v — lemmas about association lists used as ordered dictionaries. *)
From Coq Require Import List Bool Arith Lia.
From MW Require Import Assoc.
Import ListNotations.

Section AssocFacts.
Context {K V : Type} (keqb : K -> K -> bool).
Hypothesis keqb_spec : forall x y, keqb x y = true <-> x = y.

Lemma keqb_refl x : keqb x x = true.
Proof. apply keqb_spec; reflexivity. Qed.

Lemma keqb_neq x y : x <> y -> keqb x y = false.
Proof. intros H; destruct (keqb x y) eqn:E; [apply keqb_spec in E; contradiction | reflexivity]. Qed.

Lemma keqb_false x y : keqb x y = false -> x <> y.
Proof. intros E H; subst; rewrite keqb_refl in E; discriminate. Qed.

Lemma keqb_dec (x y : K) : {x = y} + {x <> y}.
Proof. destruct (keqb x y) eqn:E; [left; apply keqb_spec; exact E | right; apply keqb_false; exact E]. Qed.

(* ---- keys ---- *)
Lemma akeys_aset_in (d : list (K * V)) k v : In k (akeys d) -> akeys (aset keqb d k v) = akeys d.
Proof.
  induction d as [|[k' v'] t IH]; simpl; intros H; [contradiction|].
  destruct (keqb k k') eqn:E; simpl; [reflexivity|].
  f_equal. apply IH. destruct H as [H|H]; [subst; rewrite keqb_refl in E; discriminate | exact H].
Qed.

Lemma akeys_aset_notin (d : list (K * V)) k v : ~ In k (akeys d) -> akeys (aset keqb d k v) = akeys d ++ [k].
Proof.
  induction d as [|[k' v'] t IH]; simpl; intros H; [reflexivity|].
  destruct (keqb k k') eqn:E.
  - apply keqb_spec in E; subst; exfalso; apply H; left; reflexivity.
  - simpl; f_equal; apply IH; intros Hin; apply H; right; exact Hin.
Qed.

Lemma akeys_areset (d : list (K * V)) v : akeys (areset d v) = akeys d.
Proof. unfold akeys, areset; rewrite map_map; reflexivity. Qed.

Lemma akeys_afromkeys (ks : list K) (v : V) : akeys (afromkeys ks v) = ks.
Proof. unfold akeys, afromkeys; rewrite map_map; simpl; apply map_id. Qed.

Lemma akeys_map_snd {W} (f : K * V -> W) (d : list (K * V)) :
  akeys (map (fun kv => (fst kv, f kv)) d) = akeys d.
Proof. unfold akeys; rewrite map_map; reflexivity. Qed.

Lemma akeys_apop (d : list (K * V)) k : akeys (apop keqb d k) = lremove keqb (akeys d) k.
Proof.
  induction d as [|[k' v'] t IH]; simpl; [reflexivity|].
  destruct (keqb k k'); simpl; [reflexivity | f_equal; exact IH].
Qed.

(* ---- lookups ---- *)
Lemma aget_aset_same (d : list (K * V)) k v : aget keqb (aset keqb d k v) k = Some v.
Proof.
  induction d as [|[k' v'] t IH]; simpl.
  - rewrite keqb_refl; reflexivity.
  - destruct (keqb k k') eqn:E; simpl; rewrite ?E; [reflexivity | exact IH].
Qed.

Lemma aget_aset_other (d : list (K * V)) k k2 v : k2 <> k -> aget keqb (aset keqb d k v) k2 = aget keqb d k2.
Proof.
  intros Hne. induction d as [|[k' v'] t IH]; simpl.
  - rewrite (keqb_neq k2 k Hne); reflexivity.
  - destruct (keqb k k') eqn:E; simpl.
    + apply keqb_spec in E; subst k'. rewrite (keqb_neq k2 k Hne); reflexivity.
    + destruct (keqb k2 k'); [reflexivity | exact IH].
Qed.

Lemma aget_in (d : list (K * V)) k : In k (akeys d) -> exists v, aget keqb d k = Some v.
Proof.
  induction d as [|[k' v'] t IH]; simpl; intros H; [contradiction|].
  destruct (keqb k k') eqn:E; [eexists; reflexivity|].
  apply IH. destruct H as [H|H]; [subst; rewrite keqb_refl in E; discriminate | exact H].
Qed.

Lemma aget_notin (d : list (K * V)) k : ~ In k (akeys d) -> aget keqb d k = None.
Proof.
  induction d as [|[k' v'] t IH]; simpl; intros H; [reflexivity|].
  destruct (keqb k k') eqn:E.
  - apply keqb_spec in E; subst; exfalso; apply H; left; reflexivity.
  - apply IH; intros Hin; apply H; right; exact Hin.
Qed.

Lemma aget_some_in (d : list (K * V)) k v : aget keqb d k = Some v -> In k (akeys d).
Proof.
  induction d as [|[k' v'] t IH]; simpl; intros H; [discriminate|].
  destruct (keqb k k') eqn:E; [left; symmetry; apply keqb_spec; exact E | right; apply IH; exact H].
Qed.

Lemma aget_areset (d : list (K * V)) k v : In k (akeys d) -> aget keqb (areset d v) k = Some v.
Proof.
  induction d as [|[k' v'] t IH]; simpl; intros H; [contradiction|].
  destruct (keqb k k') eqn:E; [reflexivity|].
  apply IH. destruct H as [H|H]; [subst; rewrite keqb_refl in E; discriminate | exact H].
Qed.

Lemma aget_afromkeys (ks : list K) (v : V) k : In k ks -> aget keqb (afromkeys ks v) k = Some v.
Proof.
  induction ks as [|k' t IH]; simpl; intros H; [contradiction|].
  destruct (keqb k k') eqn:E; [reflexivity|].
  apply IH. destruct H as [H|H]; [subst; rewrite keqb_refl in E; discriminate | exact H].
Qed.

Lemma aget_map_vals {W} (f : K -> V -> W) (d : list (K * V)) k :
  aget keqb (map (fun kv => (fst kv, f (fst kv) (snd kv))) d) k =
  match aget keqb d k with Some v => Some (f k v) | None => None end.
Proof.
  induction d as [|[k' v'] t IH]; simpl; [reflexivity|].
  destruct (keqb k k') eqn:E; [apply keqb_spec in E; subst; reflexivity | exact IH].
Qed.

Lemma aget_apop_other (d : list (K * V)) k k2 : k2 <> k -> aget keqb (apop keqb d k) k2 = aget keqb d k2.
Proof.
  intros Hne. induction d as [|[k' v'] t IH]; simpl; [reflexivity|].
  destruct (keqb k k') eqn:E; simpl.
  - apply keqb_spec in E; subst k'. rewrite (keqb_neq k2 k Hne); reflexivity.
  - destruct (keqb k2 k'); [reflexivity | exact IH].
Qed.

(* ---- membership ---- *)
Lemma amem_true (k : K) (l : list K) : amem keqb k l = true <-> In k l.
Proof.
  unfold amem; rewrite existsb_exists; split.
  - intros [x [Hin E]]; apply keqb_spec in E; subst; exact Hin.
  - intros H; exists k; split; [exact H | apply keqb_refl].
Qed.

Lemma amem_false (k : K) (l : list K) : amem keqb k l = false <-> ~ In k l.
Proof.
  split.
  - intros E H; apply amem_true in H; rewrite H in E; discriminate.
  - intros H; destruct (amem keqb k l) eqn:E; [apply amem_true in E; contradiction | reflexivity].
Qed.

(* ---- list.remove ---- *)
Lemma lremove_in (l : list K) k x : In x (lremove keqb l k) -> In x l.
Proof.
  induction l as [|y t IH]; simpl; [tauto|].
  destruct (keqb k y); simpl; intros H; [right; exact H|].
  destruct H as [H|H]; [left; exact H | right; apply IH; exact H].
Qed.

Lemma lremove_nodup (l : list K) k : NoDup l -> NoDup (lremove keqb l k).
Proof.
  induction l as [|y t IH]; simpl; intros H; [constructor|].
  inversion H as [|? ? Hn Ht]; subst.
  destruct (keqb k y); [exact Ht|].
  constructor; [intros Hin; apply Hn; eapply lremove_in; exact Hin | apply IH; exact Ht].
Qed.

Lemma lremove_not_in (l : list K) k : NoDup l -> ~ In k (lremove keqb l k).
Proof.
  induction l as [|y t IH]; simpl; intros H; [tauto|].
  inversion H as [|? ? Hn Ht]; subst.
  destruct (keqb k y) eqn:E.
  - apply keqb_spec in E; subst; exact Hn.
  - simpl; intros [H1|H1]; [subst; rewrite keqb_refl in E; discriminate | apply (IH Ht); exact H1].
Qed.

Lemma lremove_other (l : list K) k x : x <> k -> In x l -> In x (lremove keqb l k).
Proof.
  intros Hne. induction l as [|y t IH]; simpl; [tauto|].
  destruct (keqb k y) eqn:E; intros [H|H].
  - apply keqb_spec in E; subst; contradiction.
  - exact H.
  - left; exact H.
  - right; apply IH; exact H.
Qed.

Lemma nodup_app_single (l : list K) k : NoDup l -> ~ In k l -> NoDup (l ++ [k]).
Proof.
  induction l as [|y t IH]; simpl; intros H Hn; [constructor; [tauto | constructor]|].
  inversion H as [|? ? Hy Ht]; subst.
  constructor.
  - rewrite in_app_iff; simpl; intros [H1|[H1|[]]]; [contradiction | subst; apply Hn; left; reflexivity].
  - apply IH; [exact Ht | intros H1; apply Hn; right; exact H1].
Qed.

End AssocFacts.
