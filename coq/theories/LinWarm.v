(* LinWarm.v — C13 for the linear policies: warm_start touches only cold arms (an arm that is trained or was warm-started
   before keeps its regression object and its status), each initialised arm receives a copy of its donor's regression
   (same beta, A, A_inv, X'y, scaler; its own generator copy) and is marked warm by that donor. *)
From Coq Require Import ZArith List Bool Lia.
From MW Require Import Num Assoc AssocFacts Rng CF Matrix Lin Warm WarmInv MoreFacts.
Import ListNotations.

Section LinWarm.
Context {R A G : Type} (N : Num R) (aeqb : A -> A -> bool).
Hypothesis aeqb_spec : forall x y, aeqb x y = true <-> x = y.
Notation lin := (@lin R A G).

Lemma lin_copy_other g (s : lin) cw a : a <> fst cw ->
  aget aeqb (l_models (lin_copy_arm aeqb g s cw)) a = aget aeqb (l_models s) a /\ l_status (lin_copy_arm aeqb g s cw) = l_status s.
Proof.
  destruct cw as [c w]. simpl. intros Hne. unfold lin_copy_arm; simpl.
  rewrite (aget_aset_other aeqb aeqb_spec) by exact Hne. auto.
Qed.

Lemma lin_fold_copy_other g (m : list (A * A)) (s : lin) a : ~ In a (map fst m) ->
  aget aeqb (l_models (fold_left (lin_copy_arm aeqb g) m s)) a = aget aeqb (l_models s) a /\
  l_status (fold_left (lin_copy_arm aeqb g) m s) = l_status s.
Proof.
  revert s. induction m as [|cw t IH]; intros s Hn; simpl; [auto|].
  assert (Hne : a <> fst cw) by (intros E; apply Hn; left; symmetry; exact E).
  assert (Hnt : ~ In a (map fst t)) by (intros X; apply Hn; right; exact X).
  destruct (IH (lin_copy_arm aeqb g s cw) Hnt) as [I1 I2]. destruct (lin_copy_other g s cw a Hne) as [C1 C2].
  split; congruence.
Qed.

Lemma lin_mark_other (s : lin) cw a : a <> fst cw ->
  aget aeqb (l_status (lin_mark_warm aeqb s cw)) a = aget aeqb (l_status s) a /\ l_models (lin_mark_warm aeqb s cw) = l_models s.
Proof.
  destruct cw as [c w]. simpl. intros Hne. unfold lin_mark_warm; simpl.
  rewrite (aget_aset_other aeqb aeqb_spec) by exact Hne. auto.
Qed.

Lemma lin_fold_mark_other (m : list (A * A)) (s : lin) a : ~ In a (map fst m) ->
  aget aeqb (l_status (fold_left (lin_mark_warm aeqb) m s)) a = aget aeqb (l_status s) a /\
  l_models (fold_left (lin_mark_warm aeqb) m s) = l_models s.
Proof.
  revert s. induction m as [|cw t IH]; intros s Hn; simpl; [auto|].
  assert (Hne : a <> fst cw) by (intros E; apply Hn; left; symmetry; exact E).
  assert (Hnt : ~ In a (map fst t)) by (intros X; apply Hn; right; exact X).
  destruct (IH (lin_mark_warm aeqb s cw) Hnt) as [I1 I2]. destruct (lin_mark_other s cw a Hne) as [C1 C2].
  split; congruence.
Qed.

Theorem lin_warm_start_only_touches_cold_arms (s s' : lin) g keys raw q a :
  lin_warm_start N aeqb s g keys raw q = Some s' -> ~ In a (lin_cold_arms aeqb s) ->
  aget aeqb (l_models s') a = aget aeqb (l_models s) a /\ aget aeqb (l_status s') a = aget aeqb (l_status s) a.
Proof.
  intros H Hnc. unfold lin_warm_start in H. destruct (distance_threshold N _ q) as [thr|]; [|discriminate]. injection H as <-.
  set (m := cold_to_warm_gen N aeqb (lin_trained_arms aeqb s) (lin_cold_arms aeqb s) (distance_table N aeqb keys raw) thr).
  assert (Hn : ~ In a (map fst m)).
  { intros Hin. apply Hnc. apply in_map_iff in Hin. destruct Hin as [[c w] [<- Hcw]]. simpl.
    apply (proj1 (cold_to_warm_gen_fst N aeqb _ _ _ _ _ _ Hcw)). }
  destruct (lin_fold_copy_other g m s a Hn) as [C1 C2].
  destruct (lin_fold_mark_other m (fold_left (lin_copy_arm aeqb g) m s) a Hn) as [M1 M2].
  split; [rewrite M2; exact C1 | rewrite M1, C2; reflexivity].
Qed.

(* the pairs are sound for the linear policies too (the pair computation is shared with the context-free policies) *)
Theorem lin_warm_pairs_sound (s : lin) dt thr c w :
  In (c, w) (cold_to_warm_gen N aeqb (lin_trained_arms aeqb s) (lin_cold_arms aeqb s) dt thr) ->
  In c (lin_cold_arms aeqb s) /\ In w (lin_trained_arms aeqb s) /\ leb N (dist_lookup N aeqb dt c w) thr = true.
Proof. apply (warm_pairs_sound N aeqb). Qed.

End LinWarm.
