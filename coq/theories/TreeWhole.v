(* TreeWhole.v — C12 / C06 for TreeBandit over a whole history: after fit followed by any number of partial_fit calls (the trees are
   fitted at fit and only applied afterwards: one leaf function), the rewards filed for arm a under leaf lf are EXACTLY the (converted)
   rewards of the observations of the whole history since that fit whose decision is a and whose context falls into leaf lf of a's
   tree, in arrival order - a filter of the concatenated history.  Hence (C06) every way of cutting the same history into fit +
   partial_fit calls files the same rewards in every cell. *)
From Coq Require Import ZArith List Bool Arith Lia.
From MW Require Import Num Assoc AssocFacts Rng Par CF Matrix Lin Nbr Clu Tree CellFacts RowOrder.
Import ListNotations.

Section TreeWhole.
Context {R A G : Type} (N : Num R) (aeqb : A -> A -> bool).
Hypothesis aeqb_spec : forall x y, aeqb x y = true <-> x = y.
Notation tree := (@tree R A).
Notation obs := (A * R * list R)%type.

(* the reward as it is stored: converted by the Thompson binarizer when there is one *)
Definition conv (s : tree) (o : obs) : obs :=
  match c_kind (t_lp s), c_binz (t_lp s) with
  | KThompson, Some f => (fst (fst o), f (fst (fst o)) (snd (fst o)), snd o)
  | _, _ => o
  end.

Definition cell (leaf : A -> list R -> nat) (a : A) (lf : nat) (rows : list obs) : list R :=
  map (fun t => snd (fst t)) (filter (fun t => aeqb (fst (fst t)) a && Nat.eqb (leaf a (snd t)) lf) rows).

Definition leaves_at (s : tree) (a : A) (lf : nat) : list R := aget_d Nat.eqb [] (aget_d aeqb [] (t_leaves s) a) lf.

Lemma tree_binarize_rows (s : tree) (b : list obs) :
  snd (tree_binarize s (ds_of b) (rs_of b)) = rs_of (map (conv s) b) /\ ds_of (map (conv s) b) = ds_of b /\ cx_of (map (conv s) b) = cx_of b.
Proof.
  unfold tree_binarize, conv, ds_of, rs_of, cx_of. rewrite !map_map.
  destruct (c_kind (t_lp s)); try (repeat split; reflexivity).
  destruct (c_binz (t_lp s)) as [f|] eqn:B; [|repeat split; reflexivity]. cbn [snd fst]. repeat split.
  unfold binarize. cbn [set_ctxbin c_binz c_ctxbin]. rewrite B.
  induction b as [|[[d r] c] t IH]; [reflexivity|]. cbn. f_equal. exact IH.
Qed.

(* one parallel fit: every arm's task touches its own entry only *)
Lemma fold_fit_arm_cells leaf ds rs cx (arms : list A) : forall lv a lf, NoDup arms ->
  aget_d Nat.eqb [] (aget_d aeqb [] (fold_left (fun lv a => tree_fit_arm aeqb leaf lv a ds rs cx) arms lv) a) lf =
  aget_d Nat.eqb [] (aget_d aeqb [] lv a) lf ++
  (if existsb (aeqb a) arms
   then map (fun row : obs => snd (fst row)) (filter (fun row => Nat.eqb (leaf a (snd row)) lf) (filter (fun t => aeqb (fst (fst t)) a) (combine (combine ds rs) cx)))
   else []).
Proof.
  induction arms as [|b arms IH]; intros lv a lf Hnd; cbn [fold_left existsb]; [rewrite app_nil_r; reflexivity|].
  inversion Hnd as [|? ? Hnotin Hnd']; subst. rewrite (IH _ a lf Hnd').
  destruct (aeqb a b) eqn:E.
  - apply aeqb_spec in E. subst b. cbn [orb].
    assert (Hex : existsb (aeqb a) arms = false).
    { destruct (existsb (aeqb a) arms) eqn:X; [|reflexivity]. apply existsb_exists in X. destruct X as [x [Hx Ex]]. apply aeqb_spec in Ex. subst x. contradiction. }
    rewrite Hex, app_nil_r. apply (tree_fit_arm_leaf aeqb aeqb_spec).
  - cbn [orb]. f_equal. unfold aget_d.
    rewrite (tree_fit_arm_other aeqb aeqb_spec leaf lv b a ds rs cx); [reflexivity|]. intros ->.
    assert (aeqb b b = true) by (apply aeqb_spec; reflexivity). congruence.
Qed.

Lemma cell_as_double_filter leaf a lf (rows : list obs) :
  map (fun row : obs => snd (fst row)) (filter (fun row => Nat.eqb (leaf a (snd row)) lf) (filter (fun t => aeqb (fst (fst t)) a) rows)) = cell leaf a lf rows.
Proof.
  unfold cell. f_equal. induction rows as [|t rows IH]; [reflexivity|]. cbn [filter].
  destruct (aeqb (fst (fst t)) a); cbn [filter andb]; [destruct (Nat.eqb (leaf a (snd t)) lf); [f_equal|]; exact IH | exact IH].
Qed.

Lemma in_existsb (a : A) arms : In a arms -> existsb (aeqb a) arms = true.
Proof. intros H. apply existsb_exists. exists a. split; [exact H | apply aeqb_spec; reflexivity]. Qed.

Lemma afromkeys_cell (arms : list A) a lf : aget_d Nat.eqb [] (aget_d aeqb [] (afromkeys arms (@nil (nat * list R))) a) lf = [].
Proof.
  unfold afromkeys, aget_d. induction arms as [|b arms IH]; [reflexivity|]. cbn [map aget]. destruct (aeqb a b); [reflexivity | exact IH].
Qed.

Lemma tree_fit_cells (s : tree) leaf (b : list obs) a lf : NoDup (t_arms s) -> In a (t_arms s) ->
  leaves_at (tree_fit aeqb s leaf (ds_of b) (rs_of b) (cx_of b)) a lf = cell leaf a lf (map (conv s) b).
Proof.
  intros Hnd Hin. unfold tree_fit, leaves_at. destruct (tree_binarize_rows s b) as (E1 & E2 & E3).
  destruct (tree_binarize s (ds_of b) (rs_of b)) as [l rs']. cbn [snd] in E1. subst rs'.
  unfold tree_parallel_fit. cbn [t_leaves]. rewrite (fold_fit_arm_cells leaf _ _ _ (t_arms s) _ a lf Hnd).
  rewrite (in_existsb a _ Hin). rewrite afromkeys_cell. cbn [app]. rewrite <- E2, <- E3. rewrite combine_of. apply cell_as_double_filter.
Qed.

Lemma tree_partial_fit_cells (s : tree) leaf (b : list obs) a lf : NoDup (t_arms s) -> In a (t_arms s) ->
  leaves_at (tree_partial_fit aeqb s leaf (ds_of b) (rs_of b) (cx_of b)) a lf = leaves_at s a lf ++ cell leaf a lf (map (conv s) b).
Proof.
  intros Hnd Hin. unfold tree_partial_fit, leaves_at. destruct (tree_binarize_rows s b) as (E1 & E2 & E3).
  destruct (tree_binarize s (ds_of b) (rs_of b)) as [l rs']. cbn [snd] in E1. subst rs'.
  unfold tree_parallel_fit. cbn [t_leaves]. rewrite (fold_fit_arm_cells leaf _ _ _ (t_arms s) _ a lf Hnd).
  rewrite (in_existsb a _ Hin). f_equal. rewrite <- E2, <- E3. rewrite combine_of. apply cell_as_double_filter.
Qed.

Definition tree_partials (s : tree) leaf (h : list (list obs)) : tree :=
  fold_left (fun s b => tree_partial_fit aeqb s leaf (ds_of b) (rs_of b) (cx_of b)) h s.

(* training keeps the arms and what decides the conversion *)
Lemma tree_fit_cfg (s : tree) leaf ds rs cx :
  t_arms (tree_fit aeqb s leaf ds rs cx) = t_arms s /\ c_kind (t_lp (tree_fit aeqb s leaf ds rs cx)) = c_kind (t_lp s) /\
  c_binz (t_lp (tree_fit aeqb s leaf ds rs cx)) = c_binz (t_lp s).
Proof. unfold tree_fit, tree_binarize. destruct (c_kind (t_lp s)) eqn:K; try (repeat split; assumption). destruct (c_binz (t_lp s)) eqn:B; repeat split; assumption. Qed.
Lemma tree_partial_fit_cfg (s : tree) leaf ds rs cx :
  t_arms (tree_partial_fit aeqb s leaf ds rs cx) = t_arms s /\ c_kind (t_lp (tree_partial_fit aeqb s leaf ds rs cx)) = c_kind (t_lp s) /\
  c_binz (t_lp (tree_partial_fit aeqb s leaf ds rs cx)) = c_binz (t_lp s).
Proof. unfold tree_partial_fit, tree_binarize. destruct (c_kind (t_lp s)) eqn:K; try (repeat split; assumption). destruct (c_binz (t_lp s)) eqn:B; repeat split; assumption. Qed.

Lemma conv_cfg (s s' : tree) : c_kind (t_lp s') = c_kind (t_lp s) -> c_binz (t_lp s') = c_binz (t_lp s) -> conv s' = conv s.
Proof. intros H1 H2. unfold conv. rewrite H1, H2. reflexivity. Qed.

Lemma cell_app leaf a lf (r1 r2 : list obs) : cell leaf a lf (r1 ++ r2) = cell leaf a lf r1 ++ cell leaf a lf r2.
Proof. unfold cell. rewrite filter_app, map_app. reflexivity. Qed.

Lemma tree_partials_cells leaf (h : list (list obs)) : forall (s : tree) a lf, NoDup (t_arms s) -> In a (t_arms s) ->
  leaves_at (tree_partials s leaf h) a lf = leaves_at s a lf ++ cell leaf a lf (map (conv s) (concat h)) /\
  t_arms (tree_partials s leaf h) = t_arms s.
Proof.
  induction h as [|b h IH]; intros s a lf Hnd Hin; cbn [tree_partials fold_left concat map]; [rewrite app_nil_r; split; reflexivity|].
  destruct (tree_partial_fit_cfg s leaf (ds_of b) (rs_of b) (cx_of b)) as (Ea & Ek & Eb).
  fold (tree_partials (tree_partial_fit aeqb s leaf (ds_of b) (rs_of b) (cx_of b)) leaf h).
  destruct (IH (tree_partial_fit aeqb s leaf (ds_of b) (rs_of b) (cx_of b)) a lf ltac:(rewrite Ea; exact Hnd) ltac:(rewrite Ea; exact Hin)) as [H1 H2].
  rewrite H1, H2, Ea. split; [|reflexivity]. rewrite (tree_partial_fit_cells s leaf b a lf Hnd Hin).
  rewrite (conv_cfg s _ Ek Eb). rewrite map_app, cell_app, app_assoc. reflexivity.
Qed.

(* C12, whole history *)
Theorem tree_cells_hold_the_filtered_history (s : tree) leaf (b0 : list obs) (h : list (list obs)) a lf :
  NoDup (t_arms s) -> In a (t_arms s) ->
  leaves_at (tree_partials (tree_fit aeqb s leaf (ds_of b0) (rs_of b0) (cx_of b0)) leaf h) a lf
  = cell leaf a lf (map (conv s) (b0 ++ concat h)).
Proof.
  intros Hnd Hin. destruct (tree_fit_cfg s leaf (ds_of b0) (rs_of b0) (cx_of b0)) as (Ea & Ek & Eb).
  destruct (tree_partials_cells leaf h (tree_fit aeqb s leaf (ds_of b0) (rs_of b0) (cx_of b0)) a lf ltac:(rewrite Ea; exact Hnd) ltac:(rewrite Ea; exact Hin)) as [H _].
  rewrite H. rewrite (tree_fit_cells s leaf b0 a lf Hnd Hin). rewrite (conv_cfg s _ Ek Eb). rewrite map_app, cell_app. reflexivity.
Qed.

(* C06: the cut of the history into calls is irrelevant *)
Corollary tree_cut_of_the_history_is_irrelevant (s : tree) leaf (b0 b0' : list obs) (h h' : list (list obs)) a lf :
  NoDup (t_arms s) -> In a (t_arms s) -> b0 ++ concat h = b0' ++ concat h' ->
  leaves_at (tree_partials (tree_fit aeqb s leaf (ds_of b0) (rs_of b0) (cx_of b0)) leaf h) a lf
  = leaves_at (tree_partials (tree_fit aeqb s leaf (ds_of b0') (rs_of b0') (cx_of b0')) leaf h') a lf.
Proof. intros Hnd Hin E. rewrite !tree_cells_hold_the_filtered_history by assumption. rewrite E. reflexivity. Qed.

End TreeWhole.
