(* MoreFacts.v — C13 (warm start touches only cold arms, copies from trained arms within the threshold),
   C14 (a binarizer is applied exactly once), C17 (a rejected call changes nothing). *)
From Coq Require Import ZArith List Bool Arith Lia.
From MW Require Import Num Assoc AssocFacts Rng Par CF CFInv Matrix Lin Warm WarmInv Nbr Clu Tree Mab.
Import ListNotations.

Section MoreFacts.
Context {R A G : Type} (N : Num R) (aeqb : A -> A -> bool) (RG : RngOps R G).
Hypothesis aeqb_spec : forall x y, aeqb x y = true <-> x = y.
Notation cf := (@cf R A).

(* ================================ C13 ================================ *)
(* every pair (cold arm, donor) chosen by warm_start: the arm is cold, the donor is trained, and the donor's
   distance does not exceed the threshold *)
Theorem warm_pairs_sound (trained cold : list A) dt thr c w :
  In (c, w) (cold_to_warm_gen N aeqb trained cold dt thr) ->
  In c cold /\ In w trained /\ leb N (dist_lookup N aeqb dt c w) thr = true.
Proof.
  intros H. destruct (cold_to_warm_gen_fst N aeqb trained cold dt thr c w H) as [H1 H2].
  repeat split; auto.
  unfold cold_to_warm_gen in H. apply in_flat_map in H. destruct H as [c' [Hc H]].
  destruct (argmin_first N _) as [w'|] eqn:E; [|contradiction].
  destruct (leb N (dist_lookup N aeqb dt c' w') thr) eqn:El; [|contradiction].
  destruct H as [H|[]]. injection H as -> ->. exact El.
Qed.

(* an arm that is not cold keeps its statistics, its expectation and its status through warm_start *)
Lemma copy_arm_other (s : cf) cw a : a <> fst cw ->
  aget aeqb (c_stats (copy_arm N aeqb s cw)) a = aget aeqb (c_stats s) a /\
  aget aeqb (c_exp (copy_arm N aeqb s cw)) a = aget aeqb (c_exp s) a /\
  c_status (copy_arm N aeqb s cw) = c_status s.
Proof.
  destruct cw as [c w]. simpl. intros Hne. unfold copy_arm.
  destruct (c_kind s); simpl; rewrite ?(aget_aset_other aeqb aeqb_spec) by exact Hne; auto.
Qed.

Lemma fold_copy_other (m : list (A * A)) (s : cf) a : ~ In a (map fst m) ->
  aget aeqb (c_stats (fold_left (copy_arm N aeqb) m s)) a = aget aeqb (c_stats s) a /\
  aget aeqb (c_exp (fold_left (copy_arm N aeqb) m s)) a = aget aeqb (c_exp s) a /\
  c_status (fold_left (copy_arm N aeqb) m s) = c_status s.
Proof.
  revert s. induction m as [|cw t IH]; intros s Hn; simpl; [auto|].
  destruct (IH (copy_arm N aeqb s cw)) as (H1 & H2 & H3); [intros H; apply Hn; right; exact H|].
  destruct (copy_arm_other s cw a) as (K1 & K2 & K3); [intros E; apply Hn; left; symmetry; exact E|].
  rewrite H1, H2, H3, K1, K2, K3. auto.
Qed.

Lemma mark_warm_other (s : cf) cw a : a <> fst cw ->
  aget aeqb (c_status (mark_warm aeqb s cw)) a = aget aeqb (c_status s) a /\
  c_stats (mark_warm aeqb s cw) = c_stats s /\ c_exp (mark_warm aeqb s cw) = c_exp s.
Proof.
  destruct cw as [c w]. simpl. intros Hne. unfold mark_warm; simpl.
  rewrite (aget_aset_other aeqb aeqb_spec) by exact Hne. auto.
Qed.

Lemma fold_mark_other (m : list (A * A)) (s : cf) a : ~ In a (map fst m) ->
  aget aeqb (c_status (fold_left (mark_warm aeqb) m s)) a = aget aeqb (c_status s) a /\
  c_stats (fold_left (mark_warm aeqb) m s) = c_stats s /\ c_exp (fold_left (mark_warm aeqb) m s) = c_exp s.
Proof.
  revert s. induction m as [|cw t IH]; intros s Hn; simpl; [auto|].
  destruct (IH (mark_warm aeqb s cw)) as (H1 & H2 & H3); [intros H; apply Hn; right; exact H|].
  destruct (mark_warm_other s cw a) as (K1 & K2 & K3); [intros E; apply Hn; left; symmetry; exact E|].
  rewrite H1, H2, H3, K1, K2, K3. auto.
Qed.

Lemma cold_to_warm_keys_cold (s : cf) dt thr a :
  In a (map fst (cold_to_warm N aeqb s dt thr)) -> In a (cold_arms aeqb s).
Proof.
  intros H. apply in_map_iff in H. destruct H as [[c w] [E H]]. simpl in E. subst c.
  apply (cold_to_warm_gen_fst N aeqb _ _ _ _ _ _ H).
Qed.

(* trained arms, and arms that were warm-started before, are never modified (learned state and status);
   Softmax re-normalises its derived shares, so for Softmax the statement is about sums, counts and means *)
Theorem warm_start_only_touches_cold_arms (s s' : cf) keys raw q a :
  c_kind s <> KSoftmax ->
  cf_warm_start N aeqb s keys raw q = Some s' -> ~ In a (cold_arms aeqb s) ->
  aget aeqb (c_stats s') a = aget aeqb (c_stats s) a /\ aget aeqb (c_exp s') a = aget aeqb (c_exp s) a /\
  aget aeqb (c_status s') a = aget aeqb (c_status s) a.
Proof.
  intros Hk H Hnc. unfold cf_warm_start in H.
  destruct (c_kind s) eqn:Ek; try congruence; try (injection H as <-; auto; fail);
  (destruct (distance_threshold N _ q) as [thr|]; [|discriminate]; injection H as <-);
  set (m := cold_to_warm N aeqb s (distance_table N aeqb keys raw) thr);
  (assert (Hn : ~ In a (map fst m)) by (intros Hin; apply Hnc; eapply cold_to_warm_keys_cold; exact Hin));
  destruct (fold_copy_other m s a Hn) as (C1 & C2 & C3);
  destruct (fold_mark_other m (fold_left (copy_arm N aeqb) m s) a Hn) as (M1 & M2 & M3);
  rewrite M1, M2, M3, C1, C2, C3; auto.
Qed.

(* ================================ C14 ================================ *)
(* once the stored rewards are marked as converted, the policy never converts again *)
Theorem binarize_marked_is_identity (s : cf) ds rs : c_ctxbin s = true -> binarize s ds rs = rs.
Proof. intros H. unfold binarize. rewrite H. destruct (c_binz s); reflexivity. Qed.

(* training a Thompson policy that has a binarizer = training the policy without binarizer on the converted
   rewards (the binarizer field itself is the only difference) *)
Theorem thompson_binarize_once (s : cf) ds rs :
  c_kind s = KThompson ->
  cf_fit N aeqb s ds rs = set_binz (cf_fit N aeqb (set_binz s None) ds (binarize s ds rs)) (c_binz s) /\
  cf_partial_fit N aeqb s ds rs = set_binz (cf_partial_fit N aeqb (set_binz s None) ds (binarize s ds rs)) (c_binz s).
Proof.
  intros Ek. unfold cf_fit, cf_partial_fit. simpl. rewrite Ek.
  assert (Hb : binarize (set_binz s None) ds (binarize s ds rs) = binarize s ds rs) by reflexivity.
  rewrite Hb.
  assert (Hpf : forall x : cf, c_kind x = KThompson ->
            cf_parallel_fit N aeqb x ds (binarize s ds rs) =
            set_binz (cf_parallel_fit N aeqb (set_binz x None) ds (binarize s ds rs)) (c_binz x)).
  { intros x Ex. unfold cf_parallel_fit. simpl.
    assert (Hf : forall l (y : cf), c_kind y = KThompson ->
              fold_left (fun s0 a => cf_fit_arm N aeqb s0 a ds (binarize s ds rs)) l y =
              set_binz (fold_left (fun s0 a => cf_fit_arm N aeqb s0 a ds (binarize s ds rs)) l (set_binz y None)) (c_binz y)).
    { induction l as [|a l IH]; intros y Ey; simpl; [destruct y; reflexivity|].
      rewrite IH by (rewrite (proj1 (fit_arm_cfg N aeqb y a ds (binarize s ds rs))); exact Ey).
      assert (E1 : cf_fit_arm N aeqb (set_binz y None) a ds (binarize s ds rs) = set_binz (cf_fit_arm N aeqb y a ds (binarize s ds rs)) None)
        by (unfold cf_fit_arm; simpl; rewrite Ey; reflexivity).
      rewrite E1.
      assert (E2 : c_binz (cf_fit_arm N aeqb y a ds (binarize s ds rs)) = c_binz y)
        by (apply (fit_arm_cfg N aeqb y a ds (binarize s ds rs))).
      rewrite E2. reflexivity. }
    apply Hf. exact Ex. }
  split.
  - rewrite (Hpf (reset_status (reset_counts_ts N s))) by exact Ek. reflexivity.
  - rewrite (Hpf s Ek). reflexivity.
Qed.

(* under a neighbourhood policy the history holds the converted rewards and the policy is marked *)
Theorem neighbourhood_stores_converted_rewards (l : @lp R A G) ds rs :
  lp_is_ts_binz l = true ->
  match l with
  | LCf c => lp_binarize l ds rs = (LCf (set_ctxbin c true), binarize (set_ctxbin c false) ds rs)
  | LLin _ => True
  end.
Proof. intros H. destruct l as [c|]; [|exact I]. unfold lp_binarize. rewrite H. reflexivity. Qed.

(* ================================ C17 ================================ *)
(* calls that do not train: a rejected call returns the very same state *)
Theorem rejected_nontraining_call_changes_nothing (m : @mab R A G) (o : @op R A) :
  (match o with Fit _ _ _ _ | PartialFit _ _ _ _ | Predict _ _ | PredictExp _ _ => False | _ => True end) ->
  snd (step N aeqb RG m o) = ORejected -> fst (step N aeqb RG m o) = m.
Proof.
  intros Hop. destruct o as [ds rs cx orc | ds rs cx orc | a bz | a | keys raw q | cx orc | cx orc]; try contradiction; unfold step.
  - destruct (match bz with Some _ => negb (binz_allowed (m_imp m)) | None => false end); [reflexivity|].
    destruct (amem aeqb a (m_arms m)); [reflexivity | discriminate].
  - destruct (amem aeqb a (m_arms m)); [discriminate | reflexivity].
  - destruct (negb _); [reflexivity|]. destruct (negb _); [reflexivity|].
    destruct (m_imp m) as [s|s|s|s|s]; try discriminate.
    + destruct (cf_warm_start N aeqb s keys raw q); [discriminate | reflexivity].
    + destruct (lin_warm_start N aeqb s (m_rng m) keys raw q); [discriminate | reflexivity].
Qed.

(* training calls on bandits whose training cannot raise (context-free, and neighbourhood policies over
   context-free policies): a rejected fit / partial_fit returns the very same state *)
Definition lp_is_cf (l : @lp R A G) : Prop := match l with LCf _ => True | LLin _ => False end.

Definition never_raises (i : @imp R A G) : Prop :=
  match i with
  | ICf _ | ITree _ => True
  | INbr _ => True
  | IClu s => Forall lp_is_cf (k_lps s)      (* Clusters over a context-free policy: k-means' own rejections happen before anything is assigned *)
  | ILin _ => False
  end.

Lemma lp_binarize_is_cf (l : @lp R A G) ds rs : lp_is_cf l -> lp_is_cf (fst (lp_binarize l ds rs)).
Proof. destruct l as [c|c]; [|contradiction]. intros _. unfold lp_binarize. destruct (lp_is_ts_binz (LCf c)); exact I. Qed.

Lemma clu_binarize_is_cf (s : @clu R A G) ds rs : Forall lp_is_cf (k_lps s) -> Forall lp_is_cf (fst (clu_binarize s ds rs)).
Proof.
  intros H. unfold clu_binarize. destruct (k_lps s) as [|l0 t] eqn:E; [constructor|]. rewrite <- E in *.
  destruct (lp_is_ts_binz l0); [|exact H]. cbn [fst].
  apply Forall_forall. intros l Hl. apply in_map_iff in Hl. destruct Hl as [l' [<- Hl']].
  apply lp_binarize_is_cf. rewrite Forall_forall in H. apply H. exact Hl'.
Qed.

Lemma clu_refit_cf_ok (s : @clu R A G) g labels : Forall lp_is_cf (k_lps s) -> snd (clu_refit N aeqb s g labels) = true.
Proof.
  intros H. unfold clu_refit. cbn [snd]. apply forallb_forall. intros x Hx. apply in_map_iff in Hx.
  destruct Hx as [[c l] [<- Hin]]. apply in_combine_r in Hin. rewrite Forall_forall in H. specialize (H l Hin).
  destruct l as [cf0|lin0]; [reflexivity | contradiction].
Qed.

Theorem rejected_training_call_changes_nothing (m : @mab R A G) ds rs cx orc (partial : bool) :
  never_raises (m_imp m) ->
  let o := if partial then PartialFit ds rs cx orc else Fit ds rs cx orc in
  snd (step N aeqb RG m o) = ORejected -> fst (step N aeqb RG m o) = m.
Proof.
  intros Hn o. subst o.
  assert (Hclu1 : forall (s : @clu R A G), Forall lp_is_cf (k_lps s) -> snd (clu_partial_fit N aeqb s (m_rng m) ds rs (octx cx) (o_labels orc)) = true).
  { intros s H. unfold clu_partial_fit. pose proof (clu_binarize_is_cf s ds rs H) as Hb. destruct (clu_binarize s ds rs) as [lps rs']. cbn [fst] in Hb.
    apply clu_refit_cf_ok. exact Hb. }
  assert (Hclu2 : forall (s : @clu R A G), Forall lp_is_cf (k_lps s) -> snd (clu_fit N aeqb s (m_rng m) ds rs (octx cx) (o_labels orc)) = true).
  { intros s H. unfold clu_fit. pose proof (clu_binarize_is_cf s ds rs H) as Hb. destruct (clu_binarize s ds rs) as [lps rs']. cbn [fst] in Hb.
    apply clu_refit_cf_ok. exact Hb. }
  destruct partial; unfold step;
    (destruct (fit_args_ok N m ds rs cx); [|reflexivity]);
    (destruct (negb (train_shape_ok (m_imp m) _ ds cx)); [reflexivity|]).
  - destruct (m_fitted m); unfold imp_partial_fit, imp_fit; destruct (m_imp m) as [s|s|s|s|s]; simpl in Hn; try contradiction; simpl;
      try discriminate;
      try (destruct (nbr_fit N RG s (m_rng m) ds rs (octx cx)); simpl; discriminate).
    + pose proof (Hclu1 s Hn) as X. destruct (clu_partial_fit N aeqb s (m_rng m) ds rs (octx cx) (o_labels orc)) as [s' ok]. cbn [snd] in X. subst ok. discriminate.
    + pose proof (Hclu2 s Hn) as X. destruct (clu_fit N aeqb s (m_rng m) ds rs (octx cx) (o_labels orc)) as [s' ok]. cbn [snd] in X. subst ok. discriminate.
  - unfold imp_fit; destruct (m_imp m) as [s|s|s|s|s]; simpl in Hn; try contradiction; simpl; try discriminate;
      try (destruct (nbr_fit N RG s (m_rng m) ds rs (octx cx)); simpl; discriminate).
    pose proof (Hclu2 s Hn) as X. destruct (clu_fit N aeqb s (m_rng m) ds rs (octx cx) (o_labels orc)) as [s' ok]. cbn [snd] in X. subst ok. discriminate.
Qed.

(* queries before the first fit, or without contexts on a contextual bandit, are rejected without any change *)
Theorem rejected_query_before_fit (m : @mab R A G) cx orc :
  m_fitted m = false ->
  step N aeqb RG m (Predict cx orc) = (m, ORejected) /\ step N aeqb RG m (PredictExp cx orc) = (m, ORejected).
Proof. intros H. unfold step. rewrite H. simpl. auto. Qed.

End MoreFacts.
