(* Assoc.v — Python's insertion-ordered dict as an association list. *)
From Coq Require Import List Bool.
Import ListNotations.

Section Assoc.
Context {K V : Type} (keqb : K -> K -> bool).

Fixpoint aget (d : list (K * V)) (k : K) : option V :=
  match d with
  | [] => None
  | (k', v) :: t => if keqb k k' then Some v else aget t k
  end.

Definition aget_d (dflt : V) (d : list (K * V)) (k : K) : V :=
  match aget d k with Some v => v | None => dflt end.

(* d[k] = v : overwrite in place if present, else append at the end *)
Fixpoint aset (d : list (K * V)) (k : K) (v : V) : list (K * V) :=
  match d with
  | [] => [(k, v)]
  | (k', v') :: t => if keqb k k' then (k', v) :: t else (k', v') :: aset t k v
  end.

(* d.pop(k) : remove the (first) binding of k *)
Fixpoint apop (d : list (K * V)) (k : K) : list (K * V) :=
  match d with
  | [] => []
  | (k', v') :: t => if keqb k k' then t else (k', v') :: apop t k
  end.

Definition akeys (d : list (K * V)) : list K := map fst d.
Definition avals (d : list (K * V)) : list V := map snd d.

(* reset(d, v) *)
Definition areset (d : list (K * V)) (v : V) : list (K * V) := map (fun kv => (fst kv, v)) d.

(* dict.fromkeys(keys, v) for duplicate-free keys *)
Definition afromkeys (ks : list K) (v : V) : list (K * V) := map (fun k => (k, v)) ks.

Definition amapv (f : K -> V -> V) (d : list (K * V)) : list (K * V) :=
  map (fun kv => (fst kv, f (fst kv) (snd kv))) d.

Definition amem (k : K) (l : list K) : bool := existsb (keqb k) l.

(* list.remove(k): first occurrence *)
Fixpoint lremove (l : list K) (k : K) : list K :=
  match l with
  | [] => []
  | x :: t => if keqb k x then t else x :: lremove t k
  end.

End Assoc.
