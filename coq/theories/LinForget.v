(* LinForget.v — C07 for the linear policies: fit discards everything learned before EXCEPT the private
   generator copies of the per-arm regressions (finding D8: for LinTS those copies are read by predict, so a
   re-fitted bandit draws from other stream positions than a fresh one; for LinGreedy / LinUCB they are never read).
   [lin_strip s] is the freshly constructed policy with s's configuration and arm list in which each regression
   object holds the generator copy it holds in s. *)
From Coq Require Import ZArith List Bool Lia.
From MW Require Import Num Assoc AssocFacts Rng CF CFInv Matrix Lin LinInv.
Import ListNotations.

Section LinForget.
Context {R A G : Type} (N : Num R) (aeqb : A -> A -> bool).
Notation lin := (@lin R A G).

Definition ridge_strip (m : @ridge R G) : @ridge R G := mkRidge [] [] [] [] None (r_rng m).

Definition lin_strip (s : lin) : lin :=
  mkLin (l_kind s) (l_alpha s) (l_eps s) (l_l2 s) (l_scale s) (l_kf_ainv s) None (l_arms s) (l_exp s)
        (afromkeys (l_arms s) status0) (map (fun am => (fst am, ridge_strip (snd am))) (l_models s)).

Theorem lin_fit_forgets (s : lin) g ds rs cx :
  lin_fit N aeqb (lin_strip s) g ds rs cx = lin_fit N aeqb s g ds rs cx.
Proof.
  unfold lin_fit.
  assert (E : set_lstatus
      (set_models (set_lnf (lin_strip s) (Some (ncols cx)))
         (map (fun am => (fst am, ridge_init N (set_lnf (lin_strip s) (Some (ncols cx))) (ncols cx) (snd am)))
            (l_models (set_lnf (lin_strip s) (Some (ncols cx))))))
      (afromkeys (l_arms (set_models (set_lnf (lin_strip s) (Some (ncols cx)))
         (map (fun am => (fst am, ridge_init N (set_lnf (lin_strip s) (Some (ncols cx))) (ncols cx) (snd am)))
            (l_models (set_lnf (lin_strip s) (Some (ncols cx))))))) status0)
    = set_lstatus
      (set_models (set_lnf s (Some (ncols cx)))
         (map (fun am => (fst am, ridge_init N (set_lnf s (Some (ncols cx))) (ncols cx) (snd am)))
            (l_models (set_lnf s (Some (ncols cx))))))
      (afromkeys (l_arms (set_models (set_lnf s (Some (ncols cx)))
         (map (fun am => (fst am, ridge_init N (set_lnf s (Some (ncols cx))) (ncols cx) (snd am)))
            (l_models (set_lnf s (Some (ncols cx))))))) status0)).
  { unfold set_lstatus, set_models, set_lnf, lin_strip; simpl. f_equal. rewrite map_map. apply map_ext. intros [a m]. reflexivity. }
  rewrite E. reflexivity.
Qed.

(* the stripped policy is the constructor's, up to those generator copies *)
Definition lin_exp_zero (s : lin) : Prop := l_exp s = afromkeys (l_arms s) (zero N).

Definition lin_fresh (s : lin) : lin := lin_init N (l_kind s) (l_alpha s) (l_eps s) (l_l2 s) (l_scale s) (l_kf_ainv s) (l_arms s).

Theorem lin_strip_is_fresh (s : lin) :
  lin_keys_ok s -> lin_exp_zero s ->
  let f := lin_fresh s in
  l_kind (lin_strip s) = l_kind f /\ l_alpha (lin_strip s) = l_alpha f /\ l_eps (lin_strip s) = l_eps f /\
  l_l2 (lin_strip s) = l_l2 f /\ l_scale (lin_strip s) = l_scale f /\ l_kf_ainv (lin_strip s) = l_kf_ainv f /\
  l_nf (lin_strip s) = l_nf f /\ l_arms (lin_strip s) = l_arms f /\ l_exp (lin_strip s) = l_exp f /\
  l_status (lin_strip s) = l_status f /\
  map (fun am => (fst am, mkRidge (r_beta (snd am)) (r_A (snd am)) (r_Ainv (snd am)) (r_Xty (snd am)) (r_scaler (snd am)) None)) (l_models (lin_strip s))
  = l_models f.
Proof.
  intros (Hn & He & Hst & Hm) Hz f. unfold f, lin_fresh, lin_strip, lin_init; simpl. repeat split; auto.
  rewrite map_map. simpl. rewrite <- Hm. unfold akeys, afromkeys. rewrite map_map. apply map_ext. intros [a m]. reflexivity.
Qed.

End LinForget.
