(*  C09 — predict returns the arm with the highest expectation.
   
    PROVED for context-free bandits, every state, every generator state, every number of rows: what predict
    returns is the first-maximum (utils.argmax: replace only on strictly greater, so the FIRST arm in arm-list
    order among ties) of exactly the dictionaries predict_expectations returns from the same state and the same
    generator position, and both calls leave the same state behind.
    ..._partial: for linear and neighbourhood policies the same definitional structure is in the model
    (imp_query computes predictions from the expectation rows) and is compared with the implementation by the
    deep-copy twin relation; TreeBandit + EpsilonGreedy(epsilon>0) is excluded by the property. *)
From Coq Require Import List ZArith Bool Arith QArith Qcanon.
From MW Require Import Num Assoc AssocFacts Rng Par CF CFInv CFClean CFForget CFSpec Matrix Lin Warm WarmInv Nbr NbrFacts NbrIndep Clu Tree Mab FacadeCF FacadeArms NumLaws QcInst.
Import ListNotations.

Theorem C09_predict_is_first_argmax_of_expectations_partial :
  forall (R A G : Type) (N : Num R) (aeqb : A -> A -> bool) (RG : RngOps R G) 
    (m : (@mab R A G)) (cx : option (@ctxs R)) (orc : (@oracle R A)),
  is_cf m ->
  snd (step N aeqb RG m (Predict cx orc)) = out_argmax N (snd (step N aeqb RG m (PredictExp cx orc))) /\
  fst (step N aeqb RG m (Predict cx orc)) = fst (step N aeqb RG m (PredictExp cx orc)).
Proof. exact @predict_is_argmax_of_expectations. Qed.
Print Assumptions C09_predict_is_first_argmax_of_expectations_partial.

Theorem C09_argmax_is_a_key :
  forall (R A : Type) (N : Num R) (d : list (A * R)),
  d <> [] -> exists a : A, argmax_first N d = Some a /\ In a (akeys d).
Proof. exact @argmax_first_in. Qed.
Print Assumptions C09_argmax_is_a_key.


