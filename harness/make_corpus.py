# make_corpus.py — (re)writes the committed regression corpus: witnesses of the repaired defects, as
# correspondence cases that every run of the property's check replays first.
import os, json
ROOT = os.path.dirname(os.path.dirname(os.path.abspath(__file__)))
def put(prop, name, case, note):
    d = os.path.join(ROOT, "corpus", prop); os.makedirs(d, exist_ok=True)
    json.dump({"note": note, "case": case}, open(os.path.join(d, name + ".json"), "w"), indent=1)
base = {"seed": 7, "label": "int", "mode": "exact"}
put("C01", "D1_popularity_partial_fit_omits_arms",
    dict(base, arms=[1, 2, 3], lp=["popularity"], np=None,
         ops=[["fit", [1, 1, 2, 3], [1.0, 3.0, 2.0, 6.0], None], ["pfit", [1], [5.0], None], ["pexp", None], ["pfit", [3], [0.0], None], ["pexp", None]]),
    "D1: arms absent from a partial_fit batch")
put("C01", "D1b_popularity_all_zero_prefix",
    dict(base, arms=[1, 2, 3], lp=["popularity"], np=None,
         ops=[["fit", [1, 2], [0.0, 0.0], None], ["pfit", [1, 2, 1], [1.0, 1.0, 0.0], None], ["pexp", None], ["rem", 2], ["pexp", None]]),
    "seed S1-C06: unobserved arm after an all-zero prefix")
put("C02", "D3_lints_single_feature_many_rows",
    dict(base, mode="tol", arms=[1, 2], lp=["lints", 1e-9, 1.0, False, True], np=None,
         ops=[["fit", [1, 2, 1, 2], [1.0, 0.0, 2.0, 1.0], [[1.0], [2.0], [3.0], [1.0]]], ["pexp", [[1.0], [2.0], [3.0]]], ["pred", [[2.0], [0.5]]]]),
    "D3: d = 1 and m > 1")
put("C02", "D14_lingreedy_scale_exploration_rows",
    dict(base, mode="tol", arms=[1, 2], lp=["lingreedy", 1.0, 1.0, True, True], np=None,
         ops=[["fit", [1, 2, 1, 2], [1.0, 0.0, 2.0, 1.0], [[1.0, 0.0], [2.0, 1.0], [3.0, 1.0], [1.0, 2.0]]], ["pexp", [[1.0, 1.0]]], ["pred", [[2.0, 0.0], [0.0, 1.0]]]]),
    "D14: every row is an exploration row")
put("C07", "D4_lsh_refit_on_smaller_data",
    dict(base, arms=[1, 2], lp=["ucb", 1.0], np=["lsh", 2, 2, None],
         ops=[["fit", [1, 2, 1, 2, 1, 2], [1.0, 0.0, 2.0, 1.0, 0.0, 3.0], [[1.0, 0.0], [2.0, 1.0], [3.0, 1.0], [1.0, 2.0], [0.0, 2.0], [4.0, 4.0]]],
              ["pexp", [[1.0, 0.0]]], ["fit", [1, 2], [1.0, 0.0], [[1.0, 0.0], [2.0, 1.0]]], ["pexp", [[1.0, 0.0], [2.0, 1.0]]]]),
    "D4: stale hash tables")
put("C03", "D10_added_arm_empty_neighbourhood",
    dict(base, arms=[1, 2], lp=["ucb", 1.0], np=["radius", 1.0, "cityblock", None],
         ops=[["fit", [1, 2, 1], [1.0, 0.0, 2.0], [[0.0, 0.0], [1.0, 0.0], [0.0, 1.0]]], ["add", 5, None], ["pexp", [[30.0, 30.0]]], ["pexp", [[0.0, 0.0]]]]),
    "D10: NaN for an added arm")
put("C14", "D11_add_arm_binarizer_after_unbinarized_history",
    dict(base, arms=[1, 2], lp=["thompson", None], np=["knearest", 2, "cityblock"],
         ops=[["fit", [1, 2, 1, 2], [1.0, 0.0, 1.0, 1.0], [[0.0, 0.0], [1.0, 0.0], [0.0, 1.0], [2.0, 2.0]]], ["add", 5, ["flip"]],
              ["pexp", [[0.0, 0.0]]], ["pfit", [5, 1], [0.0, 1.0], [[1.0, 1.0], [0.0, 2.0]]], ["pexp", [[1.0, 1.0]]]]),
    "D11: stored binary rewards must not be re-converted")
print("corpus written")
