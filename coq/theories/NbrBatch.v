(* NbrBatch.v — C06 for the neighbourhood policies, as ONE statement about the whole object: for Radius, KNearest and
   LSHNearest (any learning policy underneath, Thompson Sampling with a binarizer included), one fit on c1 ++ c2 and
   fit on c1 followed by partial_fit on c2 leave the SAME policy object - stored decisions, (binarized) rewards and
   contexts, the learning policy with its flags, the LSH planes and, bucket for bucket and position for position, the
   LSH hash tables - and the same generator.  Structural: holds for every number structure, so bit-for-bit in binary64. *)
From Coq Require Import ZArith List Bool Arith Lia.
From MW Require Import Num Assoc Rng Par CF Matrix Lin Nbr.
Import ListNotations.

Section NbrBatch.
Context {R A G : Type} (N : Num R) (aeqb : A -> A -> bool) (RG : RngOps R G).
Notation nbr := (@nbr R A G).
Notation lp := (@lp R A G).

(* ---- the hash tables ------------------------------------------------------------------------------------- *)
Definition ins1 (ndim : nat) (plane : mat (R:=R)) (start : nat) (t : list (Z * list nat)) (ir : nat * list R) :=
  let '(i, row) := ir in
  let h := lsh_hash N ndim plane row in
  aset zeqb t h (aget_d zeqb [] t h ++ [start + i]).

Lemma insert_rows_fold ndim plane tbl (cx : mat (R:=R)) start :
  lsh_insert_rows N ndim plane tbl cx start = fold_left (ins1 ndim plane start) (combine (seq 0 (length cx)) cx) tbl.
Proof. reflexivity. Qed.

(* shifting the positions is the same as shifting the start *)
Lemma fold_shift ndim plane (cx : mat (R:=R)) : forall k start tbl,
  fold_left (ins1 ndim plane start) (combine (seq k (length cx)) cx) tbl
  = fold_left (ins1 ndim plane (start + k)) (combine (seq 0 (length cx)) cx) tbl.
Proof.
  induction cx as [|row cx IH]; intros k start tbl; [reflexivity|].
  cbn [length seq combine fold_left]. rewrite (IH (S k) start). rewrite (IH 1 (start + k)).
  unfold ins1 at 2 4. replace (start + k + 0) with (start + k) by lia.
  replace (start + S k) with (start + k + 1) by lia. reflexivity.
Qed.

Theorem insert_rows_app ndim plane tbl (c1 c2 : mat (R:=R)) start :
  lsh_insert_rows N ndim plane tbl (c1 ++ c2) start
  = lsh_insert_rows N ndim plane (lsh_insert_rows N ndim plane tbl c1 start) c2 (start + length c1).
Proof.
  rewrite !insert_rows_fold. rewrite app_length, seq_app.
  assert (Hc : forall (l1 l1' : list nat) (m1 m2 : mat (R:=R)), length l1 = length m1 ->
             combine (l1 ++ l1') (m1 ++ m2) = combine l1 m1 ++ combine l1' m2).
  { clear. induction l1 as [|x l1 IH]; intros l1' [|r m1] m2 H; simpl in *; try discriminate; [reflexivity|].
    f_equal. apply IH. lia. }
  rewrite Hc by (rewrite seq_length; reflexivity).
  rewrite fold_left_app. cbn [plus]. rewrite (fold_shift ndim plane c2 (length c1) start). reflexivity.
Qed.

(* ---- binarizing is row by row ---------------------------------------------------------------------------- *)
Lemma binarize_app (s : @cf R A) (d1 d2 : list A) (r1 r2 : list R) :
  length d1 = length r1 -> binarize s (d1 ++ d2) (r1 ++ r2) = binarize s d1 r1 ++ binarize s d2 r2.
Proof.
  intros H. unfold binarize. destruct (c_binz s) as [f|]; [|reflexivity]. destruct (c_ctxbin s); [reflexivity|].
  rewrite <- map_app. f_equal. revert r1 H. induction d1 as [|d d1 IH]; intros [|r r1] H; simpl in *; try discriminate; [reflexivity|].
  f_equal. apply IH. lia.
Qed.

Lemma lp_binarize_app (l : lp) d1 d2 r1 r2 : length d1 = length r1 ->
  lp_binarize l (d1 ++ d2) (r1 ++ r2)
  = (fst (lp_binarize l d1 r1), snd (lp_binarize l d1 r1) ++ snd (lp_binarize (fst (lp_binarize l d1 r1)) d2 r2)).
Proof.
  intros H. destruct l as [s|s]; [|reflexivity]. unfold lp_binarize.
  destruct (lp_is_ts_binz (LCf s)) eqn:E; cbn [fst snd]; [|rewrite E; reflexivity].
  assert (E' : lp_is_ts_binz (@LCf R A G (set_ctxbin s true)) = true) by exact E. rewrite E'. cbn [fst snd].
  f_equal. rewrite (binarize_app _ d1 d2 r1 r2 H). reflexivity.
Qed.

(* ---- the whole object ------------------------------------------------------------------------------------ *)
Lemma draw_planes_length (g : G) ntab d ndim : length (fst (draw_planes RG g ntab d ndim)) = ntab.
Proof.
  revert g. induction ntab as [|k IH]; intros g; [reflexivity|]. cbn [draw_planes].
  destruct (draw_r RG g _) as [v g1]. specialize (IH g1). destruct (draw_planes RG g1 k d ndim) as [rest g2]. cbn [fst length] in *. lia.
Qed.

Lemma lp_binarize_lp_idem (l : lp) d r d' r' :
  fst (lp_binarize (fst (lp_binarize l d r)) d' r') = fst (lp_binarize l d r).
Proof.
  destruct l as [c|c]; [|reflexivity].
  assert (E' : lp_is_ts_binz (@LCf R A G (set_ctxbin c true)) = lp_is_ts_binz (@LCf R A G c)) by reflexivity.
  unfold lp_binarize. destruct (lp_is_ts_binz (LCf c)) eqn:T; cbn [fst].
  - rewrite E'. reflexivity.
  - rewrite T. reflexivity.
Qed.

Theorem nbr_fit_whole_equals_fit_then_partial_fit (s : nbr) (g : G) d1 d2 r1 r2 (c1 c2 : mat (R:=R)) :
  length d1 = length r1 ->
  (* the planes are drawn for the width of the training contexts *)
  ncols (c1 ++ c2) = ncols c1 ->
  nbr_fit N RG s g (d1 ++ d2) (r1 ++ r2) (c1 ++ c2)
  = (nbr_partial_fit N (fst (nbr_fit N RG s g d1 r1 c1)) d2 r2 c2, snd (nbr_fit N RG s g d1 r1 c1)).
Proof.
  intros Hl Hw. unfold nbr_fit. rewrite (lp_binarize_app (n_lp s) d1 d2 r1 r2 Hl).
  pose proof (lp_binarize_lp_idem (n_lp s) d1 r1 d2 r2) as Hid.
  destruct (lp_binarize (n_lp s) d1 r1) as [l1 r1'] eqn:E1. cbn [fst snd] in *.
  destruct (n_kind s) as [rad|k|ndim ntab] eqn:K.
  - cbn [fst snd]. unfold nbr_partial_fit. cbn [set_hist n_lp n_kind n_ds n_rs n_cx]. rewrite K.
    destruct (lp_binarize l1 d2 r2) as [l2 r2'] eqn:E2. cbn [fst snd] in *. subst l2. reflexivity.
  - cbn [fst snd]. unfold nbr_partial_fit. cbn [set_hist n_lp n_kind n_ds n_rs n_cx]. rewrite K.
    destruct (lp_binarize l1 d2 r2) as [l2 r2'] eqn:E2. cbn [fst snd] in *. subst l2. reflexivity.
  - rewrite Hw. destruct (draw_planes RG g ntab (ncols c1) ndim) as [planes g1]. cbn [fst snd] in *.
    unfold nbr_partial_fit. cbn [set_lsh set_hist n_lp n_kind n_ds n_rs n_cx n_planes n_tables]. rewrite K.
    destruct (lp_binarize l1 d2 r2) as [l2 r2'] eqn:E2. cbn [fst snd] in *. subst l2.
    unfold set_lsh, set_hist; cbn. f_equal. f_equal.
    clear. induction planes as [|p planes IH]; [reflexivity|]. cbn [map combine]. f_equal; [|exact IH].
    rewrite (insert_rows_app ndim p [] c1 c2 0). reflexivity.
Qed.

(* Non-vacuity of the width premise: it holds as soon as the first batch is non-empty. *)
Lemma ncols_app_nonempty (row : list R) (c1 c2 : mat (R:=R)) : ncols ((row :: c1) ++ c2) = ncols (row :: c1).
Proof. reflexivity. Qed.

End NbrBatch.
