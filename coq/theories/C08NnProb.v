(* C08NnProb.v — finding D24 as a theorem about the model: with no_nhood_prob_of_arm given, add_arm (and remove_arm) leave the list
   with the wrong number of entries, and predict on a context with an empty neighbourhood is REJECTED (numpy's choice raises) -
   C08's "an added arm is present immediately / predict returns a member of the arm list" fails on this history. *)
From Coq Require Import ZArith List Bool QArith Qcanon.
From MW Require Import Num Assoc Rng Par CF Matrix Lin Warm Nbr Clu Tree Mab QcInst.
Import ListNotations.

Definition q24 (z : Z) : Qc := Q2Qc (inject_Z z).
Definition d24_m0 : @mab Qc Z nat :=
  mkMab (INbr (nbr_init (NRadius (q24 1)) Cityblock (Some [Q2Qc (1 # 2); Q2Qc (1 # 2)]) false [1; 2]%Z
                        (LCf (cf_init QcNum KGreedy (q24 0) None [1; 2]%Z)))) false 1%nat.
Definition d24_o : @oracle Qc Z := mkOracle [[]] [] [] (fun _ _ => 0%nat) [1%nat].
Definition d24_fit := Fit [1; 2; 1; 2]%Z [q24 1; q24 0; q24 1; q24 0] (Some [[q24 0; q24 0]; [q24 0; q24 1]; [q24 1; q24 0]; [q24 1; q24 1]]) d24_o.
Definition d24_query := Predict (Some [[q24 50; q24 50]]) d24_o.

Theorem predict_after_add_arm_with_no_nhood_prob_refuted :
  (* before the arm change the empty-neighbourhood row is answered with an arm of the list *)
  (exists a, snd (run QcNum Z.eqb ToyRng d24_m0 [d24_fit; d24_query]) = [ODone; OArm (Some a)] /\ In a [1; 2]%Z) /\
  (* after add_arm the same query is rejected, and so it is after remove_arm *)
  snd (run QcNum Z.eqb ToyRng d24_m0 [d24_fit; AddArm 3%Z None; d24_query]) = [ODone; ODone; ORejected] /\
  snd (run QcNum Z.eqb ToyRng d24_m0 [d24_fit; RemoveArm 2%Z; d24_query]) = [ODone; ODone; ORejected].
Proof.
  split; [|split; vm_compute; reflexivity].
  vm_compute. eexists. split; [reflexivity|]. simpl. tauto.
Qed.
