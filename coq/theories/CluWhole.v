(* CluWhole.v — C12 for Clusters over a whole history: after fit and any number of partial_fit calls the stored history is the
   concatenation of the batches (rewards converted once), and the policy of cluster c after the last call is the policy object AS
   CONSTRUCTED (nothing learned before survives: Forget.v) trained on exactly the observations of that whole history whose k-means
   label is c, in stored order. *)
From Coq Require Import ZArith List Bool Arith Lia.
From MW Require Import Num NumLaws Assoc AssocFacts Rng Par CF CFInv CFClean CFForget Matrix Lin LinForget Nbr Warm Clu Tree Mab LpInv CellFacts Forget.
Import ListNotations.

Section CluWhole.
Context {R A G : Type} (N : Num R) (aeqb : A -> A -> bool) (RG : RngOps R G).
Hypothesis aeqb_spec : forall x y, aeqb x y = true <-> x = y.
Notation clu := (@clu R A G).

Lemma clu_refit_hist (s : clu) g labels :
  k_ds (fst (clu_refit N aeqb s g labels)) = k_ds s /\ k_rs (fst (clu_refit N aeqb s g labels)) = k_rs s /\ k_cx (fst (clu_refit N aeqb s g labels)) = k_cx s /\
  k_n (fst (clu_refit N aeqb s g labels)) = k_n s /\ length (k_lps (fst (clu_refit N aeqb s g labels))) = Nat.min (k_n s) (length (k_lps s)).
Proof. unfold clu_refit. cbn [fst k_ds k_rs k_cx k_n k_lps]. repeat split. rewrite !map_length, combine_length, seq_length. reflexivity. Qed.

Lemma clu_binarize_length (s : clu) ds rs : length (fst (clu_binarize s ds rs)) = length (k_lps s).
Proof. unfold clu_binarize. destruct (k_lps s) as [|l0 t]; [reflexivity|]. destruct (lp_is_ts_binz l0); [cbn [fst]; apply map_length | reflexivity]. Qed.

(* the stored history after training calls *)
Theorem clu_fit_history (s : clu) g ds rs cx labels :
  let s' := fst (clu_fit N aeqb s g ds rs cx labels) in
  k_ds s' = ds /\ k_rs s' = snd (clu_binarize s ds rs) /\ k_cx s' = cx.
Proof.
  cbv zeta. unfold clu_fit. destruct (clu_binarize s ds rs) as [lps rs']. cbn [snd].
  destruct (clu_refit_hist (mkClu (k_n s) (k_arms s) lps (k_exp s) ds rs' cx) g labels) as (H1 & H2 & H3 & _). auto.
Qed.

Theorem clu_partial_fit_history (s : clu) g ds rs cx labels :
  let s' := fst (clu_partial_fit N aeqb s g ds rs cx labels) in
  k_ds s' = k_ds s ++ ds /\ k_rs s' = k_rs s ++ snd (clu_binarize s ds rs) /\ k_cx s' = k_cx s ++ cx.
Proof.
  cbv zeta. unfold clu_partial_fit. destruct (clu_binarize s ds rs) as [lps rs']. cbn [snd].
  destruct (clu_refit_hist (mkClu (k_n s) (k_arms s) lps (k_exp s) (k_ds s ++ ds) (k_rs s ++ rs') (k_cx s ++ cx)) g labels) as (H1 & H2 & H3 & _). auto.
Qed.

(* the policy of cluster c after a training call: the forgotten (as constructed) policy trained on its cell of the whole history *)
Theorem cluster_policy_is_trained_from_scratch_on_its_cell (s : clu) g ds rs cx labels c (l : @lp R A G) (is_fit : bool) :
  clu_lps_inv N s -> length (k_lps s) = k_n s -> nth_error (fst (clu_binarize s ds rs)) c = Some l ->
  let s' := fst (if is_fit then clu_fit N aeqb s g ds rs cx labels else clu_partial_fit N aeqb s g ds rs cx labels) in
  nth_error (k_lps s') c =
  Some (fst (lp_fit N aeqb (lp_forget N l) g (rows_with_label labels c (k_ds s')) (rows_with_label labels c (k_rs s')) (rows_with_label labels c (k_cx s')))).
Proof.
  intros Hinv Hlen Hc. cbv zeta.
  pose proof (clu_binarize_inv N s ds rs Hinv) as Hb. pose proof (clu_binarize_length s ds rs) as Hbl.
  assert (Hl : lp_inv N l). { rewrite Forall_forall in Hb. apply Hb. eapply nth_error_In. exact Hc. }
  destruct is_fit.
  - destruct (clu_fit_history s g ds rs cx labels) as (E1 & E2 & E3). cbv zeta in E1, E2, E3. rewrite E1, E2, E3.
    unfold clu_fit. destruct (clu_binarize s ds rs) as [lps rs'] eqn:Eb. cbn [fst snd] in *.
    rewrite (cluster_policy_trained_on_its_rows N aeqb (mkClu (k_n s) (k_arms s) lps (k_exp s) ds rs' cx) g labels c l); [|cbn [k_lps k_n]; congruence | exact Hc].
    cbn [k_ds k_rs k_cx]. rewrite (lp_fit_forget N aeqb l g _ _ _ Hl). reflexivity.
  - destruct (clu_partial_fit_history s g ds rs cx labels) as (E1 & E2 & E3). cbv zeta in E1, E2, E3. rewrite E1, E2, E3.
    unfold clu_partial_fit. destruct (clu_binarize s ds rs) as [lps rs'] eqn:Eb. cbn [fst snd] in *.
    rewrite (cluster_policy_trained_on_its_rows N aeqb (mkClu (k_n s) (k_arms s) lps (k_exp s) (k_ds s ++ ds) (k_rs s ++ rs') (k_cx s ++ cx)) g labels c l); [|cbn [k_lps k_n]; congruence | exact Hc].
    cbn [k_ds k_rs k_cx]. rewrite (lp_fit_forget N aeqb l g _ _ _ Hl). reflexivity.
Qed.

End CluWhole.
