(*  C16 — Simulator bookkeeping is a faithful account of the data.
   
    PROVED:
     * ordered split: train ++ test is the input, the test rows are exactly the LAST rows, the test indices are
       their positions (for every test_size, also in binary64 where int(n*(1-test_size)) rounds);
     * random split: train_test_split is an oracle; for every answer that enumerates the rows once, train and
       test together are a permutation of the input;
     * per arm, train and test counts add up to the total count (for every such split);
     * the default evaluator credits every prediction to exactly one arm: the evaluated counts sum to the
       number of test rows (predictions among the distinct arms);
     * under exact arithmetic the sums add up as well (C06/C20 permutation invariance of the sum).
     * the reported minimum and maximum of a reward list are elements of the list that bound every element, so min <= max
       (order laws);
     * the mean of a non-empty reward list lies between its minimum and its maximum (ordered-field laws), every statistics record the
       Simulator builds is therefore ordered, and the min / mean / max analyses of the default evaluator are ordered arm by arm:
       the credited value of each test row grows with the statistic, and so do the sums (analyses_are_ordered);
     * ON THE MODEL OF THE SIMULATOR (SimRun.v, compared with the real Simulator on every run - arm_to_stats_total/train/test and every
       per-batch and total evaluation bit-exact, std up to 1e-12): the neighbourhood statistics recorded by the simulator classes are
       ordered records at every point of every run (an invariant of training, prediction and online updates), hence
       simulator_analyses_are_ordered for every finished record.
     * the chunk loop of the drivers (ChunkCover.v): for EVERY chunk size and every number of test rows the [start, stop) pairs are
       exactly the code's range(ceil(n / chunk_size)) with start = idx * chunk_size, stop = min((idx + 1) * chunk_size, n); they are
       contiguous from 0 to n, non-empty, at most chunk_size long, and the slices of the test data taken at them concatenate to the
       test data: every test row is predicted and evaluated exactly once, in order, whatever the chunk size.
    Not proved: nothing is claimed about the rounding of the numerical std (it is compared with the model's binary64 evaluation). *)
From Coq Require Import List ZArith Bool Arith QArith Qcanon Permutation.
From MW Require Import Num Assoc AssocFacts Rng Par CF CFInv CFClean CFForget CFSpec Matrix Lin Warm WarmInv Nbr NbrFacts NbrIndep LshFacts Clu Tree CellFacts Mab FacadeCF FacadeArms MoreFacts NumLaws CFAlg Sim Extra QcInst OrderFacts ExpIrrel LinInv FacadeLin LpInv NbrInv CluTreeInv FacadeAll ToyFacts C09All C10All LinForget LinSim MatrixFacts GaussJordan LinSpec NbrIndepGen CluIndep C17Lin WarmIdem C14More LshScale TreeLeaf Rename PopSpec CopyFacts StatFacts CluBatch LinWarm EvalOrder SimRun SimEval ChunkCover.
Import ListNotations.

Theorem C16_ordered_split_partition :
  forall (R : Type) (N : Num R) (T : Type) (l : list T) (test_size : R),
  let k := train_size N (length l) test_size in
  firstn k l ++ skipn k l = l /\
  length (skipn k l) = length (test_indices_ordered N (length l) test_size) /\
  (forall d : T, pick (test_indices_ordered N (length l) test_size) l d = skipn k l) /\
  (forall i : nat, In i (test_indices_ordered N (length l) test_size) <-> (k <= i < length l)%nat).
Proof. exact @ordered_split_partition. Qed.
Print Assumptions C16_ordered_split_partition.

Theorem C16_random_split_is_permutation :
  forall (T : Type) (l : list T) (d : T) (train_idx test_idx : list nat),
  Permutation (train_idx ++ test_idx) (seq 0 (length l)) ->
  Permutation (pick train_idx l d ++ pick test_idx l d) l.
Proof. exact @random_split_is_partition. Qed.
Print Assumptions C16_random_split_is_permutation.

Theorem C16_train_plus_test_counts :
  forall (R A : Type) (aeqb : A -> A -> bool) (rows train test : list (A * R)) (a : A),
  Permutation (train ++ test) rows ->
  (length (arm_rewards aeqb a (map fst train) (map snd train)) +
   length (arm_rewards aeqb a (map fst test) (map snd test)))%nat =
  length (arm_rewards aeqb a (map fst rows) (map snd rows)).
Proof. exact @train_plus_test_counts. Qed.
Print Assumptions C16_train_plus_test_counts.

Theorem C16_evaluated_counts_sum_to_test_size :
  forall (R A : Type) (N : Num R) (aeqb : A -> A -> bool),
  (forall x y : A, aeqb x y = true <-> x = y) ->
  forall (stat : stats -> R) (train : list (A * stats)) (nstats : list (option (list (A * stats))))
    (arms preds decs : list A) (rewards : list R),
  NoDup arms ->
  (forall p : A, In p preds -> In p arms) ->
  length preds = length decs ->
  length preds = length rewards ->
  length preds = length nstats ->
  fold_right Init.Nat.add 0%nat
    (map (fun a : A => length (arm_credits N aeqb stat train nstats preds decs rewards a)) arms) =
  length preds.
Proof. exact @evaluated_counts_sum_to_test_size. Qed.
Print Assumptions C16_evaluated_counts_sum_to_test_size.

Theorem C16_sums_invariant_under_row_order :
  forall (R : Type) (N : Num R),
  NumLaws N -> forall l l' : list R, Permutation l l' -> nsum N l = nsum N l'.
Proof. exact @nsum_permutation. Qed.
Print Assumptions C16_sums_invariant_under_row_order.

Theorem C16_minimum_is_an_attained_lower_bound :
  forall (R : Type) (N : Num R),
  NumLaws N ->
  forall l : list R,
  l <> [] -> In (list_min N l) l /\ (forall x : R, In x l -> leb N (list_min N l) x = true).
Proof. exact @list_min_is_attained_lower_bound. Qed.
Print Assumptions C16_minimum_is_an_attained_lower_bound.

Theorem C16_maximum_is_an_attained_upper_bound :
  forall (R : Type) (N : Num R),
  NumLaws N ->
  forall l : list R,
  l <> [] -> In (list_max N l) l /\ (forall x : R, In x l -> leb N x (list_max N l) = true).
Proof. exact @list_max_is_attained_upper_bound. Qed.
Print Assumptions C16_maximum_is_an_attained_upper_bound.

Theorem C16_min_le_max :
  forall (R : Type) (N : Num R),
  NumLaws N ->
  forall rs : list R, rs <> [] -> leb N (st_min (get_stats N rs)) (st_max (get_stats N rs)) = true.
Proof. exact @stats_min_le_max. Qed.
Print Assumptions C16_min_le_max.

Theorem C16_mean_between_min_and_max :
  forall (R : Type) (N : Num R),
  NumLaws N ->
  forall l : list R,
  l <> [] ->
  let st := get_stats N l in
  leb N (st_min st) (st_mean st) = true /\ leb N (st_mean st) (st_max st) = true.
Proof. exact @mean_between_min_and_max. Qed.
Print Assumptions C16_mean_between_min_and_max.

Theorem C16_statistics_tables_hold_ordered_records :
  forall (R A : Type) (N : Num R),
  NumLaws N ->
  forall (aeqb : A -> A -> bool) (arms ds : list A) (rs : list R),
  Forall (fun kv : A * stats => ordered_stats N (snd kv)) (arm_stats N aeqb arms ds rs).
Proof. exact @arm_stats_ordered. Qed.
Print Assumptions C16_statistics_tables_hold_ordered_records.

Theorem C16_analyses_are_ordered :
  forall (R A : Type) (N : Num R),
  NumLaws N ->
  forall (aeqb : A -> A -> bool) (train : list (A * stats)) (nstats : list (option (list (A * stats))))
    (preds decs : list A) (rews : list R) (a : A),
  Forall (fun kv : A * stats => ordered_stats N (snd kv)) train ->
  Forall (nstat_ordered N) nstats ->
  leb N (nsum N (arm_credits N aeqb st_min train nstats preds decs rews a))
    (nsum N (arm_credits N aeqb st_mean train nstats preds decs rews a)) = true /\
  leb N (nsum N (arm_credits N aeqb st_mean train nstats preds decs rews a))
    (nsum N (arm_credits N aeqb st_max train nstats preds decs rews a)) = true.
Proof. exact @analyses_are_ordered. Qed.
Print Assumptions C16_analyses_are_ordered.

Theorem C16_simulator_training_keeps_ordered_neighbourhood_statistics :
  forall (R A G : Type) (N : Num R) (aeqb : A -> A -> bool) (RG : RngOps R G) 
    (quick : bool) (m : (@mab R A G)) (ds : list A) (rs : list R) (cx : option (list (list R))) 
    (orc : (@oracle R A)), bk_ok N (fst (sim_train N aeqb RG quick m ds rs cx orc)).
Proof. exact @sim_train_ok. Qed.
Print Assumptions C16_simulator_training_keeps_ordered_neighbourhood_statistics.

Theorem C16_simulator_prediction_keeps_ordered_neighbourhood_statistics :
  forall (R A G : Type) (N : Num R),
  NumLaws N ->
  forall (aeqb : A -> A -> bool) (RG : RngOps R G) (b : (@sbandit R A G)) (dc : (@dcache R))
    (cx : option (list (list R))) (n lo hi : nat) (op oe : (@oracle R A)),
  bk_ok N b -> bk_ok N (fst (fst (sim_query N aeqb RG b dc cx n lo hi op oe))).
Proof. exact @sim_query_ok. Qed.
Print Assumptions C16_simulator_prediction_keeps_ordered_neighbourhood_statistics.

Theorem C16_simulator_update_keeps_ordered_neighbourhood_statistics :
  forall (R A G : Type) (N : Num R) (aeqb : A -> A -> bool) (RG : RngOps R G) 
    (b : (@sbandit R A G)) (ds : list A) (rs : list R) (cx : option (list (list R))) 
    (orc : (@oracle R A)), bk_ok N b -> bk_ok N (fst (sim_update N aeqb RG b ds rs cx orc)).
Proof. exact @sim_update_ok. Qed.
Print Assumptions C16_simulator_update_keeps_ordered_neighbourhood_statistics.

Theorem C16_simulator_analyses_are_ordered :
  forall (R A G : Type) (N : Num R),
  NumLaws N ->
  forall (aeqb : A -> A -> bool) (arms : list A) (train : list (A * stats)) 
    (b : (@sbandit R A G)) (preds : list (option A)) (lo : nat) (decs : list A) (rews : list R)
    (r1 r2 r3 : list (A * option stats)) (a : A) (s1 s2 s3 : stats),
  bk_ok N b ->
  Forall (fun kv : A * stats => ordered_stats N (snd kv)) train ->
  sim_evaluate N aeqb arms st_min train b preds lo decs rews = Some r1 ->
  sim_evaluate N aeqb arms st_mean train b preds lo decs rews = Some r2 ->
  sim_evaluate N aeqb arms st_max train b preds lo decs rews = Some r3 ->
  In (a, Some s1) r1 ->
  In (a, Some s2) r2 ->
  In (a, Some s3) r3 ->
  NoDup arms -> leb N (st_sum s1) (st_sum s2) = true /\ leb N (st_sum s2) (st_sum s3) = true.
Proof. exact @simulator_analyses_are_ordered. Qed.
Print Assumptions C16_simulator_analyses_are_ordered.

Theorem C16_chunk_loop_visits_every_test_row_exactly_once_in_order :
  forall (T : Type) (c : nat) (l : list T),
  concat
    (map (fun ab : nat * nat => slice (fst ab) (snd ab) l) (chunk_bounds (S (length l)) c 0 (length l))) =
  l.
Proof. exact @chunk_bounds_cover. Qed.
Print Assumptions C16_chunk_loop_visits_every_test_row_exactly_once_in_order.

Theorem C16_chunks_are_contiguous_nonempty_and_bounded_by_the_chunk_size :
  forall c n : nat,
  contiguous 0 n (chunk_bounds (S n) c 0 n) /\
  Forall (fun ab : nat * nat => (snd ab - fst ab <= Nat.max c 1)%nat) (chunk_bounds (S n) c 0 n).
Proof. exact @chunk_bounds_shape. Qed.
Print Assumptions C16_chunks_are_contiguous_nonempty_and_bounded_by_the_chunk_size.

Theorem C16_chunk_loop_is_the_code_s_range_of_ceil_n_over_chunk_size :
  forall c n : nat, (1 <= c)%nat -> chunk_bounds (S n) c 0 n = code_bounds c n.
Proof. exact @chunk_bounds_closed_form. Qed.
Print Assumptions C16_chunk_loop_is_the_code_s_range_of_ceil_n_over_chunk_size.


