(* RowOrderFacade.v — RowOrderCF at the public facade: a context-free bandit answers fit / partial_fit on a batch and on any
   permutation of its rows alike (accepted or rejected alike) and ends in the same state. *)
From Coq Require Import ZArith List Bool Arith Lia Permutation.
From MW Require Import Num NumLaws Assoc AssocFacts Rng Par CF CFAlg Matrix Lin Warm Nbr Clu Tree Mab RowOrderCF.
Import ListNotations.

Section RowOrderFacade.
Context {R A G : Type} (N : Num R) (L : NumLaws N) (aeqb : A -> A -> bool) (RG : RngOps R G).
Notation mab := (@mab R A G).

Lemma forallb_permutation {T} (f : T -> bool) (l l' : list T) : Permutation l l' -> forallb f l = forallb f l'.
Proof.
  intros P. induction P as [|x l l' P IH|x y l|l l' l'' P1 IH1 P2 IH2]; cbn; [reflexivity | rewrite IH; reflexivity | | congruence].
  destruct (f x), (f y); reflexivity.
Qed.

Theorem context_free_training_ignores_the_row_order (m : mab) (c : @cf R A) (rows rows' : list (A * R)) o o' :
  m_imp m = ICf c -> Permutation rows rows' ->
  step N aeqb RG m (Fit (map fst rows) (map snd rows) None o) = step N aeqb RG m (Fit (map fst rows') (map snd rows') None o') /\
  step N aeqb RG m (PartialFit (map fst rows) (map snd rows) None o) = step N aeqb RG m (PartialFit (map fst rows') (map snd rows') None o').
Proof.
  intros Ei P.
  assert (Ha : fit_args_ok N m (map fst rows) (map snd rows) None = fit_args_ok N m (map fst rows') (map snd rows') None).
  { unfold fit_args_ok. rewrite !map_length, (Permutation_length P). rewrite (forallb_permutation _ _ _ (Permutation_map snd P)). reflexivity. }
  split; cbn [step]; rewrite Ha; destruct (fit_args_ok N m (map fst rows') (map snd rows') None); try reflexivity; rewrite Ei; cbn [train_shape_ok negb imp_fit imp_partial_fit].
  - rewrite (cf_fit_permutation N L aeqb c rows rows' P). reflexivity.
  - destruct (m_fitted m); [rewrite (cf_partial_fit_permutation N L aeqb c rows rows' P) | rewrite (cf_fit_permutation N L aeqb c rows rows' P)]; reflexivity.
Qed.

End RowOrderFacade.
