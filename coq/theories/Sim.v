(* Sim.v — simulator.py bookkeeping (C16) and the distance cache of the simulator's neighbourhood
   classes (C15): train/test split, per-arm statistics, the default evaluator. *)
From Coq Require Import ZArith List Bool Arith Lia Permutation.
From MW Require Import Num NumLaws Assoc AssocFacts Rng Par CF CFSpec CFAlg Matrix Lin Nbr.
Import ListNotations.

Section Sim.
Context {R A : Type} (N : Num R) (aeqb : A -> A -> bool).
Hypothesis aeqb_spec : forall x y, aeqb x y = true <-> x = y.

(* ---- split ---------------------------------------------------------------------------------- *)
(* _run_train_test_split, ordered: train_size = int(len * (1 - test_size)) *)
Definition train_size (n : nat) (test_size : R) : nat :=
  Nat.min n (floor_nat N (mul N (of_Z N (Z.of_nat n)) (sub N (one N) test_size))).
Definition test_indices_ordered (n : nat) (test_size : R) : list nat :=
  seq (train_size n test_size) (n - train_size n test_size).

Definition pick {T} (idx : list nat) (l : list T) (d : T) : list T := map (fun i => nth i l d) idx.

(* ---- statistics ------------------------------------------------------------------------------- *)
Record stats := mkStats { st_count : Z; st_sum : R; st_min : R; st_max : R; st_mean : R; st_std : R }.

Definition list_min (l : list R) : R :=
  match l with [] => zero N | h :: t => fold_left (fun b x => if ltb N x b then x else b) t h end.
Definition list_max (l : list R) : R :=
  match l with [] => zero N | h :: t => fold_left (fun b x => if ltb N b x then x else b) t h end.

(* Simulator.get_stats *)
Definition get_stats (rs : list R) : stats :=
  let n := of_Z N (Z.of_nat (length rs)) in
  let mean := div N (nsum N rs) n in
  mkStats (Z.of_nat (length rs)) (nsum N rs) (list_min rs) (list_max rs) mean
          (sqrt N (div N (nsum N (map (fun x => mul N (sub N x mean) (sub N x mean)) rs)) n)).

Definition zero_stats : stats := mkStats 0 (zero N) (zero N) (zero N) (zero N) (zero N).

(* Simulator.get_arm_stats *)
Definition arm_stats (arms : list A) (ds : list A) (rs : list R) : list (A * stats) :=
  map (fun a => let ar := arm_rewards aeqb a ds rs in (a, match ar with [] => zero_stats | _ => get_stats ar end)) arms.

(* ---- default evaluator ---------------------------------------------------------------------- *)
(* the value credited for one test row: the observed reward when the prediction equals the logged decision,
   otherwise the predicted arm's neighbourhood statistic if there is one, else its training statistic *)
Definition credited (stat : stats -> R) (train : list (A * stats)) (nstat : option (list (A * stats)))
           (pred dec : A) (reward : R) : R :=
  if aeqb pred dec then reward else
  match nstat with
  | Some row => match aget aeqb row pred with Some st => stat st | None => stat (aget_d aeqb zero_stats train pred) end
  | None => stat (aget_d aeqb zero_stats train pred)
  end.

Definition arm_credits (stat : stats -> R) (train : list (A * stats)) (nstats : list (option (list (A * stats))))
           (preds decs : list A) (rewards : list R) (a : A) : list R :=
  map (fun t => let '(p, d, r, ns) := (t : A * A * R * option (list (A * stats))) in credited stat train ns p d r)
      (filter (fun t => aeqb (fst (fst (fst t))) a) (combine (combine (combine preds decs) rewards) nstats)).

(* ---- theorems ------------------------------------------------------------------------------- *)
Theorem ordered_split_partition {T} (l : list T) (test_size : R) :
  let k := train_size (length l) test_size in
  firstn k l ++ skipn k l = l /\ length (skipn k l) = length (test_indices_ordered (length l) test_size) /\
  (forall d, pick (test_indices_ordered (length l) test_size) l d = skipn k l) /\
  (forall i, In i (test_indices_ordered (length l) test_size) <-> k <= i < length l).
Proof.
  intros k. assert (Hk : k <= length l) by (unfold k, train_size; lia).
  split; [apply firstn_skipn|]. split; [unfold test_indices_ordered; rewrite skipn_length, seq_length; fold k; reflexivity|].
  split.
  - intros d. unfold pick, test_indices_ordered. fold k.
    clearbody k. revert l Hk. induction k as [|k IH]; intros l Hk.
    + simpl. rewrite Nat.sub_0_r. clear. induction l as [|x t IH]; simpl; [reflexivity|]. f_equal.
      rewrite <- seq_shift, map_map. exact IH.
    + destruct l as [|x t]; [simpl in Hk; lia|]. simpl length. rewrite Nat.sub_succ. simpl skipn.
      rewrite <- (IH t) by (simpl in Hk; lia). rewrite <- seq_shift, map_map. reflexivity.
  - intros i. unfold test_indices_ordered. fold k. rewrite in_seq. lia.
Qed.

Lemma pick_seq {T} (l : list T) (d : T) : pick (seq 0 (length l)) l d = l.
Proof.
  unfold pick. induction l as [|x t IH]; simpl; [reflexivity|]. f_equal. rewrite <- seq_shift, map_map. exact IH.
Qed.

(* any split described by two index lists that together enumerate the rows once (train_test_split is an
   oracle; this is the certificate checked on its answer) *)
Theorem random_split_is_partition {T} (l : list T) (d : T) (train_idx test_idx : list nat) :
  Permutation (train_idx ++ test_idx) (seq 0 (length l)) ->
  Permutation (pick train_idx l d ++ pick test_idx l d) l.
Proof.
  intros P. unfold pick. rewrite <- map_app.
  pose proof (pick_seq l d) as E. unfold pick in E.
  eapply Permutation_trans; [apply Permutation_map; exact P | rewrite E; apply Permutation_refl].
Qed.

(* counts of train and test add up to the totals, for every arm *)
Theorem train_plus_test_counts (rows train test : list (A * R)) (a : A) :
  Permutation (train ++ test) rows ->
  length (arm_rewards aeqb a (map fst train) (map snd train)) + length (arm_rewards aeqb a (map fst test) (map snd test))
  = length (arm_rewards aeqb a (map fst rows) (map snd rows)).
Proof.
  intros P. rewrite <- app_length.
  assert (E : arm_rewards aeqb a (map fst train) (map snd train) ++ arm_rewards aeqb a (map fst test) (map snd test)
              = arm_rewards aeqb a (map fst (train ++ test)) (map snd (train ++ test))).
  { rewrite !map_app. symmetry. apply (arm_rewards_app aeqb). rewrite !map_length. reflexivity. }
  rewrite E. apply Permutation_length. apply (arm_rewards_permutation aeqb). exact P.
Qed.

(* every prediction that is one of the (distinct) arms is credited to exactly one arm: counts sum to the test size *)
Theorem evaluated_counts_sum_to_test_size (stat : stats -> R) train nstats (arms preds decs : list A) (rewards : list R) :
  NoDup arms -> (forall p, In p preds -> In p arms) ->
  length preds = length decs -> length preds = length rewards -> length preds = length nstats ->
  fold_right plus 0 (map (fun a => length (arm_credits stat train nstats preds decs rewards a)) arms) = length preds.
Proof.
  intros Hn Hin L1 L2 L3. unfold arm_credits.
  set (rows := combine (combine (combine preds decs) rewards) nstats).
  assert (Hlen : length rows = length preds) by (unfold rows; rewrite !combine_length; lia).
  assert (Hrows : forall t, In t rows -> In (fst (fst (fst t))) arms).
  { intros [[[p d] r] ns] Ht. simpl. apply Hin. unfold rows in Ht.
    apply in_combine_l in Ht. apply in_combine_l in Ht. apply in_combine_l in Ht. exact Ht. }
  rewrite <- Hlen. clear Hlen L1 L2 L3 Hin. clearbody rows.
  induction rows as [|t rows IH]; simpl.
  - clear. induction arms as [|a arms IHa]; simpl; [reflexivity | exact IHa].
  - assert (Hone : fold_right plus 0 (map (fun a => length (map (fun t0 => let '(p, d, r, ns) := t0 in credited stat train ns p d r)
                       (if aeqb (fst (fst (fst t))) a then t :: filter (fun t0 => aeqb (fst (fst (fst t0))) a) rows
                        else filter (fun t0 => aeqb (fst (fst (fst t0))) a) rows))) arms)
                   = S (fold_right plus 0 (map (fun a => length (map (fun t0 => let '(p, d, r, ns) := t0 in credited stat train ns p d r)
                       (filter (fun t0 => aeqb (fst (fst (fst t0))) a) rows))) arms))).
    { assert (Ht : In (fst (fst (fst t))) arms) by (apply Hrows; left; reflexivity).
      clear IH Hrows. induction arms as [|a arms IHa]; [contradiction|].
      inversion Hn as [|? ? Hna Hn']; subst. simpl.
      destruct (aeqb (fst (fst (fst t))) a) eqn:E.
      - apply aeqb_spec in E. simpl. f_equal. f_equal.
        (* the row matches no other arm *)
        apply f_equal. apply map_ext_in. intros b Hb.
        destruct (aeqb (fst (fst (fst t))) b) eqn:Eb; [apply aeqb_spec in Eb; congruence | reflexivity].
      - destruct Ht as [Ht|Ht]; [subst; rewrite (keqb_refl aeqb aeqb_spec) in E; discriminate|].
        rewrite (IHa Hn' Ht). lia. }
    rewrite Hone. f_equal. apply IH. intros t0 Ht0. apply Hrows. right. exact Ht0.
Qed.

(* ---- C15: the simulator's Radius class selects from cached distances ---------------------------- *)
Definition sim_radius_select (cache : list R) (r : R) : list nat :=
  map fst (filter (fun id => leb N (snd id) r) (combine (seq 0 (length cache)) cache)).

(* with the cache computed by the bandit's own metric the selection is the library's *)
Theorem sim_radius_refines_library {G : Type} (s : @nbr R A G) (r : R) (row : list R) orc :
  n_kind s = NRadius r ->
  neighborhood N s row orc = Some (sim_radius_select (map (fun c => distance N (n_metric s) c row) (n_cx s)) r).
Proof.
  intros Ek. unfold neighborhood, sim_radius_select. rewrite Ek. rewrite map_length. reflexivity.
Qed.

End Sim.
