(* NbrRowOrder.v — C20 (row order) for Radius: the observations a query selects are exactly the stored observations
   (decision, reward, context) whose context lies within the radius - a FILTER of the stored history - so presenting
   the training rows in another order makes every query select a permutation of the same observations (structural:
   any number structure), and hence (exact arithmetic) the same per-arm reward sum and count reach the learning policy. *)
From Coq Require Import ZArith List Bool Lia Permutation.
From MW Require Import Num NumLaws Assoc Rng Par CF CFAlg Matrix Lin Nbr RowOrder.
Import ListNotations.

Section NbrRowOrder.
Context {R A G : Type} (N : Num R) (aeqb : A -> A -> bool) (RG : RngOps R G).
Notation nbr := (@nbr R A G).
Notation obs := (A * R * list R)%type.

(* positions selected by a predicate on a derived value, read back through nth_error, are the filtered elements *)
Lemma positions_nth_error {T V} (f : T -> V) (q : V -> bool) (l : list T) : forall pre : list T,
  map (nth_error (pre ++ l))
      (map fst (filter (fun id : nat * V => q (snd id)) (combine (seq (length pre) (length l)) (map f l))))
  = map Some (filter (fun x => q (f x)) l).
Proof.
  induction l as [|x t IH]; intros pre; [reflexivity|].
  cbn [length seq map combine filter snd]. destruct (q (f x)) eqn:E.
  - cbn [map fst]. f_equal.
    + rewrite nth_error_app2 by lia. rewrite Nat.sub_diag. reflexivity.
    + specialize (IH (pre ++ [x])). rewrite <- app_assoc in IH. cbn [app] in IH. rewrite app_length in IH. cbn [length] in IH.
      rewrite Nat.add_1_r in IH. exact IH.
  - specialize (IH (pre ++ [x])). rewrite <- app_assoc in IH. cbn [app] in IH. rewrite app_length in IH. cbn [length] in IH.
    rewrite Nat.add_1_r in IH. exact IH.
Qed.

Lemma nth_error_map' {T U} (g : T -> U) (l : list T) i : nth_error (map g l) i = option_map g (nth_error l i).
Proof. revert i. induction l as [|x t IH]; intros [|i]; simpl; auto. Qed.

Lemma nth_via_error {T} (l : list T) d i : nth i l d = match nth_error l i with Some x => x | None => d end.
Proof. revert i. induction l as [|x t IH]; intros [|i]; simpl; auto. Qed.

(* the aligned history and what one query row selects from it *)
Definition hist_of (ds : list A) (rs : list R) (cx : mat (R:=R)) : list obs := combine (combine ds rs) cx.

(* exactly the three lists nbr_row hands to lp.fit *)
Definition selected (s : nbr) (idx : list nat) : list A * list R * mat (R:=R) :=
  (flat_map (fun o : option A => match o with Some a => [a] | None => [] end) (map (fun i => nth_error (n_ds s) i) idx),
   select (n_rs s) (zero N) idx, select (n_cx s) [] idx).

Definition within (s : nbr) (r : R) (row : list R) (o : obs) : bool := leb N (distance N (n_metric s) (snd o) row) r.

(* generic: positions chosen by a predicate on the stored observations, read back the way nbr_row does, are the filter *)
Lemma selected_positions_are_a_filter {V} (s : nbr) (h : list obs) (f : obs -> V) (q : V -> bool) :
  n_ds s = ds_of h -> n_rs s = rs_of h -> n_cx s = cx_of h ->
  selected s (map fst (filter (fun id : nat * V => q (snd id)) (combine (seq 0 (length h)) (map f h))))
  = (ds_of (filter (fun o => q (f o)) h), rs_of (filter (fun o => q (f o)) h), cx_of (filter (fun o => q (f o)) h)).
Proof.
  intros Hd Hr Hc.
  pose proof (positions_nth_error f q h []) as P. cbn [app length] in P.
  set (idx := map fst (filter _ _)) in *. unfold selected.
  f_equal; [f_equal|].
  - rewrite Hd. unfold ds_of.
    transitivity (flat_map (fun o : option A => match o with Some a => [a] | None => [] end)
                           (map (option_map (fun t : obs => fst (fst t))) (map (nth_error h) idx))).
    { f_equal. rewrite map_map. apply map_ext. intros i. apply nth_error_map'. }
    rewrite P. generalize (filter (fun o => q (f o)) h). intros l. induction l as [|x l IH]; [reflexivity|]. cbn. f_equal. exact IH.
  - rewrite Hr. unfold rs_of, select.
    transitivity (map (fun o : option obs => match o with Some t => snd (fst t) | None => zero N end) (map (nth_error h) idx)).
    { rewrite map_map. apply map_ext. intros i. rewrite nth_via_error, nth_error_map'. destruct (nth_error h i); reflexivity. }
    rewrite P. rewrite !map_map. reflexivity.
  - rewrite Hc. unfold cx_of, select.
    transitivity (map (fun o : option obs => match o with Some t => snd t | None => [] end) (map (nth_error h) idx)).
    { rewrite map_map. apply map_ext. intros i. rewrite nth_via_error, nth_error_map'. destruct (nth_error h i); reflexivity. }
    rewrite P. rewrite !map_map. reflexivity.
Qed.

Theorem radius_selects_a_filter_of_the_history (s : nbr) (h : list obs) r row idx :
  n_kind s = NRadius r -> n_ds s = ds_of h -> n_rs s = rs_of h -> n_cx s = cx_of h ->
  neighborhood N s row [] = Some idx ->
  selected s idx = (ds_of (filter (within s r row) h), rs_of (filter (within s r row) h), cx_of (filter (within s r row) h)).
Proof.
  intros K Hd Hr Hc. unfold neighborhood. rewrite K. intros E. injection E as <-.
  assert (Hm : map (fun c => distance N (n_metric s) c row) (n_cx s) = map (fun o : obs => distance N (n_metric s) (snd o) row) h).
  { rewrite Hc. unfold cx_of. rewrite map_map. reflexivity. }
  assert (Hl : length (n_cx s) = length h) by (rewrite Hc; unfold cx_of; apply map_length).
  rewrite Hm, Hl.
  exact (selected_positions_are_a_filter s h (fun o : obs => distance N (n_metric s) (snd o) row) (fun v => leb N v r) Hd Hr Hc).
Qed.

(* two Radius policies whose histories are permutations of each other: every query selects permuted observations *)
Theorem radius_row_order_selects_a_permutation (s s' : nbr) (h h' : list obs) r row idx idx' :
  n_kind s = NRadius r -> n_kind s' = NRadius r -> n_metric s = n_metric s' ->
  n_ds s = ds_of h -> n_rs s = rs_of h -> n_cx s = cx_of h ->
  n_ds s' = ds_of h' -> n_rs s' = rs_of h' -> n_cx s' = cx_of h' ->
  Permutation h h' ->
  neighborhood N s row [] = Some idx -> neighborhood N s' row [] = Some idx' ->
  exists sel sel' : list obs,
    selected s idx = (ds_of sel, rs_of sel, cx_of sel) /\ selected s' idx' = (ds_of sel', rs_of sel', cx_of sel') /\
    Permutation sel sel' /\ (idx = [] <-> idx' = []).
Proof.
  intros K K' M Hd Hr Hc Hd' Hr' Hc' P E E'.
  exists (filter (within s r row) h), (filter (within s r row) h').
  split; [apply radius_selects_a_filter_of_the_history; assumption|].
  split.
  - replace (within s r row) with (within s' r row) by (unfold within; rewrite M; reflexivity).
    apply radius_selects_a_filter_of_the_history; assumption.
  - split; [apply filter_permutation; exact P|].
    (* the neighbourhood is empty for the one exactly when it is for the other *)
    pose proof (radius_selects_a_filter_of_the_history s h r row idx K Hd Hr Hc E) as S1.
    assert (S2 : selected s' idx' = (ds_of (filter (within s r row) h'), rs_of (filter (within s r row) h'), cx_of (filter (within s r row) h'))).
    { replace (within s r row) with (within s' r row) by (unfold within; rewrite M; reflexivity).
      apply radius_selects_a_filter_of_the_history; assumption. }
    pose proof (filter_permutation (within s r row) h h' P) as Pf.
    assert (L1 : length idx = length (filter (within s r row) h)).
    { unfold selected in S1. injection S1 as _ _ S1. unfold select, cx_of in S1. apply (f_equal (@length _)) in S1. rewrite !map_length in S1. exact S1. }
    assert (L2 : length idx' = length (filter (within s r row) h')).
    { unfold selected in S2. injection S2 as _ _ S2. unfold select, cx_of in S2. apply (f_equal (@length _)) in S2. rewrite !map_length in S2. exact S2. }
    apply Permutation_length in Pf. split; intros ->; cbn [length] in *; [destruct idx' | destruct idx]; cbn [length] in *; try reflexivity; lia.
Qed.

(* consequently (exact arithmetic) the learning policy receives, for every arm, the same reward sum and count *)
Theorem radius_row_order_same_statistics (L : NumLaws N) (sel sel' : list obs) (a : A) :
  Permutation sel sel' ->
  nsum N (arm_rewards aeqb a (ds_of sel) (rs_of sel)) = nsum N (arm_rewards aeqb a (ds_of sel') (rs_of sel')) /\
  length (arm_rewards aeqb a (ds_of sel) (rs_of sel)) = length (arm_rewards aeqb a (ds_of sel') (rs_of sel')).
Proof.
  intros P.
  pose proof (row_order_irrelevant N L aeqb a (map fst sel) (map fst sel') (Permutation_map fst P)) as H.
  unfold ds_of, rs_of. rewrite !map_map in H. exact H.
Qed.

End NbrRowOrder.
