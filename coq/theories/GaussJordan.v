(* GaussJordan.v — C02: the matrix the model's [inverse] (Gauss-Jordan elimination with partial pivoting, the model of
   np.linalg.inv) returns is a LEFT INVERSE of its argument (under the field laws NumLaws), hence
   beta = A_inv (X'y) is THE solution of the ridge normal equations (lambda*I + X'X) b = X'y whenever one exists. *)
From Coq Require Import ZArith List Bool Arith Lia.
From MW Require Import Num NumLaws Matrix MatrixFacts.
Import ListNotations.

Section GJ.
Context {R : Type} (N : Num R) (L : NumLaws N).
Add Ring RingGJ : (L_ring N L).

Notation "0" := (zero N).
Notation "1" := (one N).
Infix "+" := (add N).
Infix "*" := (mul N).
Infix "-" := (sub N).

(* ---- scalars -------------------------------------------------------------------------------------------- *)
Lemma div_as_mul x p : p <> 0 -> div N x p = x * div N 1 p.
Proof.
  intros Hp. apply (L_mul_cancel N L _ _ p Hp). rewrite (L_div N L x p Hp).
  replace (x * div N 1 p * p) with (x * (div N 1 p * p)) by ring. rewrite (L_div N L 1 p Hp). ring.
Qed.
Lemma div_self p : p <> 0 -> div N p p = 1.
Proof. intros Hp. apply (L_mul_cancel N L _ _ p Hp). rewrite (L_div N L p p Hp). ring. Qed.

(* ---- vectors: pointwise facts ---------------------------------------------------------------------------- *)
Lemma vscale_length c (u : vec (R:=R)) : length (vscale N c u) = length u.
Proof. unfold vscale. apply map_length. Qed.
Lemma vadd_length (u v : vec (R:=R)) : length (vadd N u v) = Nat.min (length u) (length v).
Proof. unfold vadd. apply map2_length. Qed.
Lemma vsub_length (u v : vec (R:=R)) : length (vsub N u v) = Nat.min (length u) (length v).
Proof. unfold vsub. apply map2_length. Qed.

Lemma nth_map2 {X Y Z} (f : X -> Y -> Z) (a : list X) (b : list Y) j dx dy dz :
  (j < length a)%nat -> (j < length b)%nat -> nth j (map2 f a b) dz = f (nth j a dx) (nth j b dy).
Proof.
  revert b j. induction a as [|x a IH]; intros [|y b] [|j] Ha Hb; simpl in *; try lia; [reflexivity|]. apply IH; lia.
Qed.

Lemma firstn_map2 {X Y Z} (f : X -> Y -> Z) n (a : list X) (b : list Y) :
  firstn n (map2 f a b) = map2 f (firstn n a) (firstn n b).
Proof. revert a b. induction n as [|n IH]; intros [|x a] [|y b]; simpl; try reflexivity. f_equal. apply IH. Qed.
Lemma skipn_map2 {X Y Z} (f : X -> Y -> Z) n (a : list X) (b : list Y) :
  skipn n (map2 f a b) = map2 f (skipn n a) (skipn n b).
Proof.
  revert a b. induction n as [|n IH]; intros a b; [reflexivity|].
  destruct a as [|x a]; destruct b as [|y b]; simpl; try reflexivity; [destruct (skipn n a); reflexivity | apply IH].
Qed.

(* a list is determined by its length and its entries *)
Lemma nth_ext_R (a b : list R) : length a = length b -> (forall j, (j < length a)%nat -> nth j a 0 = nth j b 0) -> a = b.
Proof.
  revert b. induction a as [|x a IH]; intros [|y b] Hl H; simpl in *; try discriminate; [reflexivity|].
  f_equal; [apply (H O); lia | apply IH; [lia | intros j Hj; apply (H (S j)); lia]].
Qed.

(* ---- linear combinations of the rows of a matrix ----------------------------------------------------------- *)
Fixpoint lc (d : nat) (e : vec (R:=R)) (A : mat (R:=R)) : vec (R:=R) :=
  match e, A with
  | x :: e', r :: A' => vadd N (vscale N x r) (lc d e' A')
  | _, _ => zeros N d
  end.

Definition rows_len (d : nat) (A : mat (R:=R)) : Prop := Forall (fun r => length r = d) A.

Lemma zeros_length d : length (zeros N d) = d. Proof. unfold zeros. apply repeat_length. Qed.

Lemma lc_length d e A : rows_len d A -> length (lc d e A) = d.
Proof.
  revert e. induction A as [|r A IH]; intros [|x e] H; simpl; try apply zeros_length.
  inversion H; subst. rewrite vadd_length, vscale_length, IH by assumption. lia.
Qed.

Lemma lin_sub (r a b : list R) x1 x2 : length a = length r -> length b = length r ->
  vadd N (vscale N (x1 - x2) r) (vsub N a b) = vsub N (vadd N (vscale N x1 r) a) (vadd N (vscale N x2 r) b).
Proof.
  unfold vadd, vsub, vscale. revert a b. induction r as [|y r IH]; intros [|p a] [|q b] Ha Hb; simpl in *; try discriminate; [reflexivity|].
  f_equal; [ring | apply IH; lia].
Qed.

Lemma lin_scale (r a : list R) k x : length a = length r ->
  vadd N (vscale N (k * x) r) (vscale N k a) = vscale N k (vadd N (vscale N x r) a).
Proof.
  unfold vadd, vscale. revert a. induction r as [|y r IH]; intros [|p a] Ha; simpl in *; try discriminate; [reflexivity|].
  f_equal; [ring | apply IH; lia].
Qed.

Lemma vsub_zeros d : vsub N (zeros N d) (zeros N d) = zeros N d.
Proof. induction d as [|d IH]; simpl; [reflexivity|]. unfold vsub, zeros in *. simpl. f_equal; [ring | exact IH]. Qed.
Lemma vscale_zeros k d : vscale N k (zeros N d) = zeros N d.
Proof. induction d as [|d IH]; simpl; [reflexivity|]. unfold vscale, zeros in *. simpl. f_equal; [ring | exact IH]. Qed.

Lemma lc_sub d (A : mat (R:=R)) : rows_len d A -> forall e1 e2, length e1 = length A -> length e2 = length A ->
  lc d (vsub N e1 e2) A = vsub N (lc d e1 A) (lc d e2 A).
Proof.
  intros H. induction H as [|r A Hr HA IH]; intros [|x1 e1] [|x2 e2] H1 H2; simpl in *; try discriminate.
  - symmetry. apply vsub_zeros.
  - change (map2 (sub N) e1 e2) with (vsub N e1 e2). rewrite IH by lia. apply lin_sub; rewrite lc_length by exact HA; auto.
Qed.

Lemma lc_scale d (A : mat (R:=R)) k : rows_len d A -> forall e, length e = length A ->
  lc d (vscale N k e) A = vscale N k (lc d e A).
Proof.
  intros H. induction H as [|r A Hr HA IH]; intros [|x e] H1; simpl in *; try discriminate.
  - symmetry. apply vscale_zeros.
  - change (map (mul N k) e) with (vscale N k e). rewrite IH by lia. apply lin_scale. rewrite lc_length by exact HA; auto.
Qed.

Lemma map_div_as_scale (u : vec (R:=R)) p : p <> 0 -> map (fun x => div N x p) u = vscale N (div N 1 p) u.
Proof. intros Hp. unfold vscale. apply map_ext. intros x. rewrite (div_as_mul x p Hp). ring. Qed.

(* ---- list plumbing ------------------------------------------------------------------------------------------ *)
Lemma nth_map_lt {X Y} (f : X -> Y) (l : list X) j dx dy : (j < length l)%nat -> nth j (map f l) dy = f (nth j l dx).
Proof. revert j. induction l as [|x l IH]; intros [|j] H; simpl in *; try lia; [reflexivity | apply IH; lia]. Qed.

Lemma nth_indexed {X Y} (f : nat * X -> Y) (l : list X) s i dx dy : (i < length l)%nat ->
  nth i (map f (combine (seq s (length l)) l)) dy = f ((s + i)%nat, nth i l dx).
Proof.
  revert s i. induction l as [|x l IH]; intros s [|i] H; simpl in *; try lia.
  - rewrite Nat.add_0_r. reflexivity.
  - rewrite IH by lia. f_equal. f_equal. lia.
Qed.

Lemma indexed_length {X Y} (f : nat * X -> Y) (l : list X) s : length (map f (combine (seq s (length l)) l)) = length l.
Proof. rewrite map_length, combine_length, seq_length. lia. Qed.

Lemma indexed_forall {X Y} (P : Y -> Prop) (f : nat * X -> Y) (l : list X) s :
  (forall i x, In x l -> P (f (i, x))) -> Forall P (map f (combine (seq s (length l)) l)).
Proof.
  intros H. apply Forall_forall. intros y Hy. apply in_map_iff in Hy. destruct Hy as [[i x] [<- Hin]].
  apply H. eapply in_combine_r; eauto.
Qed.

Lemma swap_length (m : mat (R:=R)) i j : length (swap_rows m i j) = length m.
Proof. unfold swap_rows. rewrite map_length, seq_length. reflexivity. Qed.

Lemma swap_nth (m : mat (R:=R)) i j k : (k < length m)%nat ->
  nth k (swap_rows m i j) [] = if Nat.eqb k i then nth j m [] else if Nat.eqb k j then nth i m [] else nth k m [].
Proof.
  intros Hk. unfold swap_rows. rewrite (nth_map_lt _ _ k O []) by (rewrite seq_length; exact Hk).
  rewrite seq_nth by exact Hk. reflexivity.
Qed.

Lemma swap_forall (P : vec (R:=R) -> Prop) (m : mat (R:=R)) i j :
  (i < length m)%nat -> (j < length m)%nat -> Forall P m -> Forall P (swap_rows m i j).
Proof.
  intros Hi Hj H. rewrite Forall_forall in H. apply Forall_forall. intros r Hr. unfold swap_rows in Hr.
  apply in_map_iff in Hr. destruct Hr as [k [<- Hk]]. apply in_seq in Hk.
  destruct (Nat.eqb k i); [apply H, nth_In; exact Hj|]. destruct (Nat.eqb k j); apply H, nth_In; lia.
Qed.

Lemma best_pivot_index (rows : list (nat * vec (R:=R))) c best p v :
  best_pivot N rows c best = Some (p, v) -> (exists v', best = Some (p, v')) \/ In p (map fst rows).
Proof.
  revert best. induction rows as [|[i r] t IH]; intros best H; simpl in *.
  - left. exists v. exact H.
  - destruct best as [[bi bv]|].
    + destruct (ltb N bv _).
      * destruct (IH _ H) as [[v' E]|Hin]; [injection E as <- _; right; left; reflexivity | right; right; exact Hin].
      * destruct (IH _ H) as [E|Hin]; [left; exact E | right; right; exact Hin].
    + destruct (IH _ H) as [[v' E]|Hin]; [injection E as <- _; right; left; reflexivity | right; right; exact Hin].
Qed.

Lemma skipn_seq c s n : skipn c (seq s n) = seq (s + c) (n - c).
Proof.
  revert s n. induction c as [|c IH]; intros s n; simpl.
  - rewrite Nat.add_0_r, Nat.sub_0_r. reflexivity.
  - destruct n as [|n]; simpl; [reflexivity|]. rewrite IH. f_equal. lia.
Qed.

Lemma map_fst_indexed {X} (l : list X) s : map fst (combine (seq s (length l)) l) = seq s (length l).
Proof. revert s. induction l as [|r l IH]; intros s; simpl; [reflexivity | rewrite IH; reflexivity]. Qed.

Lemma pivot_range (m : mat (R:=R)) c p v :
  best_pivot N (skipn c (combine (seq 0 (length m)) m)) c None = Some (p, v) -> (c <= p < length m)%nat.
Proof.
  intros H. destruct (best_pivot_index _ _ _ _ _ H) as [[v' E]|Hin]; [discriminate|].
  rewrite <- skipn_map in Hin.
  rewrite map_fst_indexed, skipn_seq in Hin. apply in_seq in Hin. lia.
Qed.

(* ---- the two invariants of the elimination ------------------------------------------------------------------- *)
Definition row_ok (d : nat) (A0 : mat (R:=R)) (r : vec (R:=R)) : Prop :=
  length r = (d + d)%nat /\ lc d (skipn d r) A0 = firstn d r.
Definition aug_ok (d : nat) (A0 rows : mat (R:=R)) : Prop := length rows = d /\ Forall (row_ok d A0) rows.
Definition ucol (d : nat) (rows : mat (R:=R)) (c : nat) : Prop :=
  forall i j, (i < d)%nat -> (j < c)%nat -> nth j (nth i rows []) 0 = if Nat.eqb i j then 1 else 0.
Definition wfA (d : nat) (A0 : mat (R:=R)) : Prop := rows_len d A0 /\ length A0 = d.

Lemma row_ok_div d A0 r p : wfA d A0 -> p <> 0 -> row_ok d A0 r -> row_ok d A0 (map (fun x => div N x p) r).
Proof.
  intros [Hr Hl] Hp [H1 H2]. split; [rewrite map_length; exact H1|].
  rewrite skipn_map, firstn_map, !(map_div_as_scale _ p Hp).
  rewrite lc_scale; [rewrite H2; reflexivity | exact Hr | rewrite skipn_length; lia].
Qed.

Lemma row_ok_elim d A0 r q f : wfA d A0 -> row_ok d A0 r -> row_ok d A0 q -> row_ok d A0 (vsub N r (vscale N f q)).
Proof.
  intros [Hr Hl] [H1 H2] [Q1 Q2]. split; [rewrite vsub_length, vscale_length; lia|].
  unfold vsub, vscale. rewrite skipn_map2, firstn_map2, skipn_map, firstn_map.
  change (map2 (sub N) (skipn d r) (map (mul N f) (skipn d q))) with (vsub N (skipn d r) (vscale N f (skipn d q))).
  rewrite lc_sub; [| exact Hr | rewrite skipn_length; lia | rewrite vscale_length, skipn_length; lia].
  rewrite lc_scale; [| exact Hr | rewrite skipn_length; lia]. rewrite H2, Q2. reflexivity.
Qed.

Theorem gj_step_ok d A0 (m m' : mat (R:=R)) c :
  wfA d A0 -> (c < d)%nat -> aug_ok d A0 m -> ucol d m c -> gj_step N m c = Some m' ->
  aug_ok d A0 m' /\ ucol d m' (S c).
Proof.
  intros HA Hc [Hlen Hrows] Hu. unfold gj_step.
  destruct (best_pivot N (skipn c (combine (seq 0 (length m)) m)) c None) as [[p pv]|] eqn:Ep; [|discriminate].
  pose proof (pivot_range m c p pv Ep) as Hp. rewrite Hlen in Hp.
  set (m1 := swap_rows m c p).
  assert (Hlen1 : length m1 = d) by (unfold m1; rewrite swap_length; exact Hlen).
  assert (Hrows1 : Forall (row_ok d A0) m1) by (apply swap_forall; [lia | lia | exact Hrows]).
  assert (Hu1 : ucol d m1 c).
  { intros i j Hi Hj. unfold m1. rewrite swap_nth by lia.
    destruct (Nat.eqb_spec i c) as [->|Nic].
    - rewrite (Hu p j) by lia. destruct (Nat.eqb_spec p j); [lia|]. destruct (Nat.eqb_spec c j); [lia | reflexivity].
    - destruct (Nat.eqb_spec i p) as [->|Nip].
      + rewrite (Hu c j) by lia. destruct (Nat.eqb_spec c j); [lia|]. destruct (Nat.eqb_spec p j); [lia | reflexivity].
      + apply Hu; assumption. }
  set (prow := nth c m1 []).
  assert (Hprow : row_ok d A0 prow) by (rewrite Forall_forall in Hrows1; apply Hrows1, nth_In; lia).
  destruct (eqb N (nth c prow 0) 0) eqn:Ez; [discriminate|].
  assert (Hpiv : nth c prow 0 <> 0) by (intros E; apply (L_eqb_eq N L) in E; congruence).
  set (piv := nth c prow 0) in *. set (prow' := map (fun x => div N x piv) prow).
  assert (Hprow' : row_ok d A0 prow') by (apply row_ok_div; assumption).
  intros E; injection E as <-. split.
  - split; [rewrite indexed_length; exact Hlen1|].
    apply indexed_forall. intros i r Hin. destruct (Nat.eqb i c); [exact Hprow'|].
    apply row_ok_elim; [exact HA | rewrite Forall_forall in Hrows1; apply Hrows1; exact Hin | exact Hprow'].
  - (* the first c+1 columns are unit vectors *)
    assert (Hp0 : forall j, (j < c)%nat -> nth j prow' 0 = 0).
    { intros j Hj. unfold prow'. rewrite (nth_map_lt _ _ j 0 0) by (rewrite (proj1 Hprow); lia).
      unfold prow. rewrite (Hu1 c j Hc Hj). destruct (Nat.eqb_spec c j); [lia|]. rewrite (div_as_mul 0 piv Hpiv). ring. }
    assert (Hpc : nth c prow' 0 = 1).
    { unfold prow'. rewrite (nth_map_lt _ _ c 0 0) by (rewrite (proj1 Hprow); lia). fold piv. apply div_self. exact Hpiv. }
    intros i j Hi Hj.
    rewrite (nth_indexed _ m1 0 i [] []) by lia. simpl Nat.add.
    destruct (Nat.eqb_spec i c) as [->|Nic].
    + destruct (Nat.eq_dec j c) as [->|Njc].
      * rewrite Nat.eqb_refl. exact Hpc.
      * rewrite Hp0 by lia. destruct (Nat.eqb_spec c j); [lia | reflexivity].
    + set (r := nth i m1 []).
      assert (Hr : row_ok d A0 r) by (rewrite Forall_forall in Hrows1; apply Hrows1, nth_In; lia).
      unfold vsub. rewrite (nth_map2 _ _ _ j 0 0 0) by (rewrite ?vscale_length, ?(proj1 Hr), ?(proj1 Hprow'); lia).
      unfold vscale. rewrite (nth_map_lt _ _ j 0 0) by (rewrite (proj1 Hprow'); lia).
      destruct (Nat.eq_dec j c) as [->|Njc].
      * rewrite Hpc. destruct (Nat.eqb_spec i c); [lia|]. ring.
      * rewrite Hp0 by lia. unfold r. rewrite (Hu1 i j) by lia. destruct (Nat.eqb i j); ring.
Qed.

Lemma gj_loop_ok d A0 : wfA d A0 -> forall k c (m m' : mat (R:=R)), (c + k = d)%nat ->
  aug_ok d A0 m -> ucol d m c -> gj_loop N m (seq c k) = Some m' -> aug_ok d A0 m' /\ ucol d m' d.
Proof.
  intros HA. induction k as [|k IH]; intros c m m' Hck Hm Hu H; simpl in H.
  - injection H as <-. assert (c = d) by lia. subst c. auto.
  - destruct (gj_step N m c) as [m1|] eqn:E1; [|discriminate].
    destruct (gj_step_ok d A0 m m1 c HA ltac:(lia) Hm Hu E1) as [Hm1 Hu1].
    apply (IH (S c) m1 m'); auto. lia.
Qed.

(* ---- the start: [A | I] --------------------------------------------------------------------------------------- *)
Lemma unit_vec_length d i : length (unit_vec N d i) = d.
Proof. unfold unit_vec. rewrite map_length, seq_length. reflexivity. Qed.

Lemma vadd_scale1_zeros (r : vec (R:=R)) : vadd N (vscale N 1 r) (zeros N (length r)) = r.
Proof. unfold vadd, vscale, zeros. induction r as [|x r IH]; simpl; [reflexivity|]. f_equal; [ring | exact IH]. Qed.
Lemma vadd_scale0 (r X : vec (R:=R)) : length X = length r -> vadd N (vscale N 0 r) X = X.
Proof. unfold vadd, vscale. revert X. induction r as [|x r IH]; intros [|y X] H; simpl in *; try discriminate; [reflexivity|]. f_equal; [ring | apply IH; lia]. Qed.

Lemma lc_all_zero d (A : mat (R:=R)) (e : vec (R:=R)) : rows_len d A -> Forall (fun x => x = 0) e -> lc d e A = zeros N d.
Proof.
  intros HA. revert e. induction HA as [|r A Hr HA IH]; intros [|x e] He; simpl; try reflexivity.
  inversion He; subst. rewrite IH by assumption. rewrite vadd_scale0; [reflexivity | rewrite zeros_length; auto].
Qed.

Lemma lc_unit_gen d (A : mat (R:=R)) i : rows_len d A -> forall s, (s <= i < s + length A)%nat ->
  lc d (map (fun j => if Nat.eqb i j then 1 else 0) (seq s (length A))) A = nth (i - s) A [].
Proof.
  intros HA. induction HA as [|r A Hr HA IH]; intros s Hi; simpl in *; [lia|].
  destruct (Nat.eqb_spec i s) as [->|Nis].
  - rewrite Nat.sub_diag. rewrite lc_all_zero; [rewrite <- Hr; apply vadd_scale1_zeros | exact HA |].
    apply Forall_forall. intros x Hx. apply in_map_iff in Hx. destruct Hx as [j [<- Hj]]. apply in_seq in Hj.
    destruct (Nat.eqb_spec s j); [lia | reflexivity].
  - rewrite IH by lia. replace (i - s)%nat with (S (i - S s)) by lia. simpl.
    apply vadd_scale0. rewrite Hr. rewrite Forall_forall in HA. apply HA. apply nth_In. lia.
Qed.

Lemma lc_unit d (A : mat (R:=R)) i : wfA d A -> (i < d)%nat -> lc d (unit_vec N d i) A = nth i A [].
Proof.
  intros [HA Hl] Hi. unfold unit_vec. replace (seq 0 d) with (seq 0 (length A)) by (rewrite Hl; reflexivity).
  rewrite (lc_unit_gen d A i HA 0) by lia. rewrite Nat.sub_0_r. reflexivity.
Qed.

Lemma aug0_ok d (a : mat (R:=R)) : wfA d a -> aug_ok d a (map2 (fun r e => r ++ e) a (identity N d)).
Proof.
  intros HA. pose proof HA as [Hr Hl]. unfold aug_ok.
  assert (Hid : length (identity N d) = d) by (unfold identity; rewrite map_length, seq_length; reflexivity).
  split; [rewrite map2_length; lia|].
  apply Forall_nth. intros i dflt Hi. rewrite map2_length in Hi.
  rewrite (nth_map2 _ _ _ i [] [] dflt) by lia.
  assert (Ea : length (nth i a []) = d) by (unfold rows_len in Hr; rewrite Forall_forall in Hr; apply Hr, nth_In; lia).
  assert (Eu : nth i (identity N d) [] = unit_vec N d i).
  { unfold identity. rewrite (nth_map_lt _ _ i O []) by (rewrite seq_length; lia). rewrite seq_nth by lia. reflexivity. }
  rewrite Eu. split.
  - rewrite app_length, unit_vec_length. lia.
  - assert (Es : skipn d (nth i a [] ++ unit_vec N d i) = unit_vec N d i).
    { rewrite skipn_app. rewrite <- Ea at 1. rewrite skipn_all. rewrite Ea, Nat.sub_diag. reflexivity. }
    assert (Ef : firstn d (nth i a [] ++ unit_vec N d i) = nth i a []).
    { rewrite firstn_app. rewrite <- Ea at 1. rewrite firstn_all. rewrite Ea, Nat.sub_diag. simpl. apply app_nil_r. }
    rewrite Es, Ef. apply lc_unit; [exact HA | lia].
Qed.

Lemma nth_firstn_lt {X} (l : list X) n j dflt : (j < n)%nat -> nth j (firstn n l) dflt = nth j l dflt.
Proof. revert l j. induction n as [|n IH]; intros [|x l] [|j] H; simpl; try lia; try reflexivity. apply IH. lia. Qed.

(* ---- the result is a left inverse ------------------------------------------------------------------------------ *)
Theorem inverse_is_left_inverse d (a E : mat (R:=R)) :
  wfA d a -> inverse N d a = Some E ->
  length E = d /\ forall i, (i < d)%nat -> length (nth i E []) = d /\ lc d (nth i E []) a = unit_vec N d i.
Proof.
  intros HA. unfold inverse.
  destruct (gj_loop N (map2 (fun r e => r ++ e) a (identity N d)) (seq 0 d)) as [m|] eqn:El; [|discriminate].
  intros H; injection H as <-.
  destruct (gj_loop_ok d a HA d 0 _ m eq_refl (aug0_ok d a HA) ltac:(intros i j _ Hj; lia) El) as [[Hlen Hrows] Hu].
  split; [rewrite map_length; exact Hlen|]. intros i Hi.
  rewrite (nth_map_lt _ _ i [] []) by lia.
  assert (Hr : row_ok d a (nth i m [])) by (rewrite Forall_forall in Hrows; apply Hrows, nth_In; lia).
  destruct Hr as [H1 H2]. split; [rewrite skipn_length; lia|]. rewrite H2.
  apply nth_ext_R.
  - rewrite firstn_length, unit_vec_length. lia.
  - intros j Hj. rewrite firstn_length in Hj. assert (H : (j < d)%nat) by lia. rewrite nth_firstn_lt by exact H.
    rewrite (Hu i j Hi H). unfold unit_vec. rewrite (nth_map_lt _ _ j O 0) by (rewrite seq_length; lia). rewrite seq_nth by lia. reflexivity.
Qed.

(* ---- hence beta = A_inv (X'y) is the solution of the normal equations ----------------------------------------- *)
Lemma pysum_cons x (l : list R) : pysum N (x :: l) = x + pysum N l.
Proof. unfold pysum. simpl. rewrite (fold_add_acc N L). ring. Qed.

Lemma dot_cons x y (u v : vec (R:=R)) : dot N (x :: u) (y :: v) = x * y + dot N u v.
Proof. unfold dot. simpl map2. apply pysum_cons. Qed.
Lemma dot_nil_r (u : vec (R:=R)) : dot N u [] = 0.
Proof. unfold dot. destruct u; reflexivity. Qed.

Lemma dot_vadd (u v b : vec (R:=R)) : length u = length b -> length v = length b ->
  dot N (vadd N u v) b = dot N u b + dot N v b.
Proof.
  revert u v. induction b as [|z b IH]; intros [|x u] [|y v] Hu Hv; simpl in *; try discriminate.
  - unfold dot; simpl. unfold pysum; simpl. ring.
  - unfold vadd. simpl map2. rewrite !dot_cons. fold (vadd N u v). rewrite IH by lia. ring.
Qed.

Lemma dot_vscale k (u b : vec (R:=R)) : dot N (vscale N k u) b = k * dot N u b.
Proof.
  revert b. induction u as [|x u IH]; intros [|z b]; simpl.
  - unfold dot, pysum; simpl. ring.
  - unfold dot, pysum; simpl. ring.
  - rewrite !dot_nil_r. ring.
  - unfold vscale in *. simpl map. rewrite !dot_cons, IH. ring.
Qed.

Lemma dot_zeros d (b : vec (R:=R)) : dot N (zeros N d) b = 0.
Proof.
  revert b. induction d as [|d IH]; intros b; [unfold dot, pysum; reflexivity|].
  destruct b as [|z b]; [apply dot_nil_r|]. unfold zeros in *. simpl repeat. rewrite dot_cons, IH. ring.
Qed.

Lemma dot_lc d (A : mat (R:=R)) (b : vec (R:=R)) : rows_len d A -> length b = d ->
  forall e, dot N e (mat_vec N A b) = dot N (lc d e A) b.
Proof.
  intros HA Hb. induction HA as [|r A Hr HA IH]; intros e.
  - simpl. rewrite dot_nil_r. destruct e; simpl; rewrite dot_zeros; reflexivity.
  - destruct e as [|x e]; [simpl; rewrite dot_zeros; unfold dot, pysum; reflexivity|].
    unfold mat_vec in *. simpl map. simpl lc. rewrite dot_cons, IH.
    rewrite dot_vadd by (rewrite ?vscale_length, ?lc_length; auto; lia). rewrite dot_vscale. reflexivity.
Qed.

Lemma dot_all_zero (e b : vec (R:=R)) : Forall (fun x => x = 0) e -> dot N e b = 0.
Proof.
  revert b. induction e as [|x e IH]; intros b He; [unfold dot, pysum; reflexivity|].
  destruct b as [|z b]; [apply dot_nil_r|]. inversion He; subst. rewrite dot_cons, IH by assumption. ring.
Qed.

Lemma dot_unit_gen (b : vec (R:=R)) i : forall s, (s <= i < s + length b)%nat ->
  dot N (map (fun j => if Nat.eqb i j then 1 else 0) (seq s (length b))) b = nth (i - s) b 0.
Proof.
  induction b as [|z b IH]; intros s Hi; simpl in *; [lia|].
  rewrite dot_cons. destruct (Nat.eqb_spec i s) as [->|Nis].
  - rewrite Nat.sub_diag. rewrite dot_all_zero; [ring|].
    apply Forall_forall. intros x Hx. apply in_map_iff in Hx. destruct Hx as [j [<- Hj]]. apply in_seq in Hj.
    destruct (Nat.eqb_spec s j); [lia | reflexivity].
  - rewrite IH by lia. replace (i - s)%nat with (S (i - S s)) by lia. simpl. ring.
Qed.

Lemma dot_unit d (b : vec (R:=R)) i : length b = d -> (i < d)%nat -> dot N (unit_vec N d i) b = nth i b 0.
Proof. intros Hb Hi. unfold unit_vec. replace (seq 0 d) with (seq 0 (length b)) by (rewrite Hb; reflexivity).
  rewrite (dot_unit_gen b i 0) by lia. rewrite Nat.sub_0_r. reflexivity. Qed.

(* whenever the normal equations A b = v have a solution b, A_inv v is that solution *)
Theorem inverse_solves d (a E : mat (R:=R)) (b : vec (R:=R)) :
  wfA d a -> inverse N d a = Some E -> length b = d -> mat_vec N E (mat_vec N a b) = b.
Proof.
  intros HA HE Hb. destruct (inverse_is_left_inverse d a E HA HE) as [Hl Hi].
  apply nth_ext_R.
  - unfold mat_vec. rewrite !map_length. transitivity d; [exact Hl | symmetry; exact Hb].
  - intros i Hlt. unfold mat_vec in Hlt. rewrite map_length in Hlt. assert (Hid : (i < d)%nat) by (rewrite <- Hl; exact Hlt). clear Hlt.
    unfold mat_vec at 1. rewrite (nth_map_lt _ _ i [] 0) by (change (i < length E)%nat; rewrite Hl; exact Hid).
    destruct (Hi i Hid) as [_ Hu]. rewrite (dot_lc d a b (proj1 HA) Hb). rewrite Hu. apply dot_unit; assumption.
Qed.

End GJ.

Section Shapes.
Context {R : Type} (N : Num R).

Lemma wfA_ridge_matrix d lam (X : mat (R:=R)) : wfA d (madd N (mscale N lam (identity N d)) (xtx N d X)).
Proof.
  assert (H1 : length (mscale N lam (identity N d)) = d) by (unfold mscale, identity; rewrite !map_length, seq_length; reflexivity).
  assert (H2 : length (xtx N d X) = d) by (unfold xtx, transpose; rewrite !map_length, seq_length; reflexivity).
  assert (R1 : Forall (fun r => length r = d) (mscale N lam (identity N d))).
  { apply Forall_forall. intros r Hr. unfold mscale, identity in Hr. rewrite map_map in Hr. apply in_map_iff in Hr.
    destruct Hr as [i [<- _]]. unfold vscale, unit_vec. rewrite !map_length, seq_length. reflexivity. }
  assert (R2 : Forall (fun r => length r = d) (xtx N d X)).
  { apply Forall_forall. intros r Hr. unfold xtx in Hr. apply in_map_iff in Hr. destruct Hr as [ci [<- _]].
    unfold transpose. rewrite !map_length, seq_length. reflexivity. }
  split.
  - unfold rows_len, madd. revert R1 R2. generalize (mscale N lam (identity N d)) (xtx N d X).
    induction m as [|r m IH]; intros [|q m2] Q1 Q2; simpl; try constructor.
    + inversion Q1 as [|? ? E1 T1]; inversion Q2 as [|? ? E2 T2]. unfold vadd. rewrite map2_length, E1, E2. apply Nat.min_id.
    + inversion Q1 as [|? ? E1 T1]; inversion Q2 as [|? ? E2 T2]. apply IH; assumption.
  - unfold madd. rewrite map2_length. transitivity (Nat.min d d); [f_equal; assumption | apply Nat.min_id].
Qed.

End Shapes.
