(* RowOrderLin.v — C20 (row order) for the linear policies as a statement about the whole policy object, scale=True included
   (exact arithmetic): _RidgeRegression.fit depends on its rows only through column sums, X'X and X'y, so permuting the (context,
   reward) pairs leaves its result unchanged whatever the regression held before (first fit, later partial fits, standardisation
   fitted or updated); hence fit and partial_fit on a permuted batch leave the SAME linear policy object. *)
From Coq Require Import ZArith List Bool Lia Permutation.
From MW Require Import Num NumLaws Assoc AssocFacts Rng Par CF CFAlg Matrix MatrixFacts Lin RowOrder C17Lin.
Import ListNotations.

Section RowOrderLin.
Context {R A G : Type} (N : Num R) (L : NumLaws N) (aeqb : A -> A -> bool).
Hypothesis aeqb_spec : forall x y, aeqb x y = true <-> x = y.
Notation lin := (@lin R A G).
Notation ridge := (@ridge R G).

Lemma col_permutation (x x' : mat (R:=R)) j : Permutation x x' -> Permutation (col N x j) (col N x' j).
Proof. intros P. unfold col. apply Permutation_map. exact P. Qed.

Lemma col_mean_permutation (c c' : list R) : Permutation c c' -> col_mean N c = col_mean N c'.
Proof. intros P. unfold col_mean. rewrite (nsum_permutation N L c c' P), (Permutation_length P). reflexivity. Qed.

Lemma col_var_permutation (c c' : list R) mu : Permutation c c' -> col_var N c mu = col_var N c' mu.
Proof.
  intros P. unfold col_var. rewrite (Permutation_length P).
  rewrite (nsum_permutation N L _ _ (Permutation_map (fun x => mul N (sub N x mu) (sub N x mu)) P)). reflexivity.
Qed.

Lemma map_ext_perm_cols (d : nat) (x x' : mat (R:=R)) (f : vec (R:=R) -> R) :
  (forall c c', Permutation c c' -> f c = f c') -> Permutation x x' -> map f (transpose N d x) = map f (transpose N d x').
Proof. intros Hf P. unfold transpose. rewrite !map_map. apply map_ext. intros j. apply Hf. apply col_permutation. exact P. Qed.

Lemma map2_var_permutation (d : nat) (x x' : mat (R:=R)) (mus : list R) : Permutation x x' ->
  map2 (col_var N) (transpose N d x) mus = map2 (col_var N) (transpose N d x') mus.
Proof.
  intros P. unfold transpose. generalize (seq 0 d). intros l. revert mus. induction l as [|j l IH]; intros [|mu mus]; cbn; try reflexivity.
  f_equal; [apply col_var_permutation; apply col_permutation; exact P | apply IH].
Qed.

Lemma scaler_fit_permutation d (x x' : mat (R:=R)) : Permutation x x' -> scaler_fit N d x = scaler_fit N d x'.
Proof.
  intros P. unfold scaler_fit. cbv zeta.
  rewrite (map_ext_perm_cols d x x' (col_mean N) col_mean_permutation P).
  rewrite (map2_var_permutation d x x' _ P). rewrite (Permutation_length P). reflexivity.
Qed.

Lemma scaler_partial_permutation d sc (x x' : mat (R:=R)) : Permutation x x' -> scaler_partial N d sc x = scaler_partial N d sc x'.
Proof.
  intros P. unfold scaler_partial. cbv zeta.
  rewrite (map_ext_perm_cols d x x' (col_mean N) col_mean_permutation P).
  rewrite (map2_var_permutation d x x' _ P). rewrite (Permutation_length P). reflexivity.
Qed.

Lemma scaler_transform_map sc (x : mat (R:=R)) :
  scaler_transform N sc x = map (fun row => map2 (fun xm s => div N (sub N (fst xm) (snd xm)) s) (combine row (sc_mean sc)) (sc_scale sc)) x.
Proof. reflexivity. Qed.

(* _RidgeRegression.fit on permuted (row, reward) pairs *)
Theorem ridge_fit_permutation d (m : ridge) (xy xy' : list (list R * R)) : Permutation xy xy' ->
  ridge_fit N d m (map fst xy) (map snd xy) = ridge_fit N d m (map fst xy') (map snd xy').
Proof.
  intros P. unfold ridge_fit.
  assert (Px : Permutation (map fst xy) (map fst xy')) by (apply Permutation_map; exact P).
  assert (Hgen : forall (f : list R -> list R),
            xtx N d (map f (map fst xy)) = xtx N d (map f (map fst xy')) /\
            xty N d (map f (map fst xy)) (map snd xy) = xty N d (map f (map fst xy')) (map snd xy')).
  { intros f. split.
    - apply (xtx_permutation N L). apply Permutation_map. exact Px.
    - pose proof (xty_permutation N L d (map (fun p => (f (fst p), snd p)) xy) (map (fun p => (f (fst p), snd p)) xy')
                    (Permutation_map _ P)) as H. rewrite !map_map in H. cbn [fst snd] in H. rewrite !map_map. exact H. }
  destruct (r_scaler m) as [[sc0|]|].
  - rewrite (scaler_partial_permutation d sc0 _ _ Px). rewrite !scaler_transform_map.
    destruct (Hgen (fun row => map2 (fun xm s => div N (sub N (fst xm) (snd xm)) s) (combine row (sc_mean (scaler_partial N d sc0 (map fst xy')))) (sc_scale (scaler_partial N d sc0 (map fst xy'))))) as [E1 E2].
    rewrite E1, E2. reflexivity.
  - rewrite (scaler_fit_permutation d _ _ Px). rewrite !scaler_transform_map.
    destruct (Hgen (fun row => map2 (fun xm s => div N (sub N (fst xm) (snd xm)) s) (combine row (sc_mean (scaler_fit N d (map fst xy')))) (sc_scale (scaler_fit N d (map fst xy'))))) as [E1 E2].
    rewrite E1, E2. reflexivity.
  - destruct (Hgen (fun row => row)) as [E1 E2]. rewrite !map_id in E1, E2. rewrite E1, E2. reflexivity.
Qed.

(* ---- the policy object ----------------------------------------------------------------------------------------- *)
Lemma lin_fit_arm_permutation (s : lin) g a rows rows' w : Permutation rows rows' -> uniform_width w (cx_of rows) ->
  lin_fit_arm N aeqb s g a (ds_of rows) (rs_of rows) (cx_of rows) = lin_fit_arm N aeqb s g a (ds_of rows') (rs_of rows') (cx_of rows').
Proof.
  intros P Hw. unfold lin_fit_arm. rewrite !(arm_rows_of aeqb).
  pose proof (arm_pairs_permutation aeqb a rows rows' P) as Pa.
  assert (Hw' : uniform_width w (cx_of rows')).
  { unfold uniform_width, cx_of in *. rewrite Forall_forall in *. intros r Hr. apply Hw. apply in_map_iff in Hr. destruct Hr as [t [<- Ht]].
    apply in_map_iff. exists t. split; [reflexivity|]. apply (Permutation_in _ (Permutation_sym P)). exact Ht. }
  destruct (arm_pairs aeqb a rows) as [|p ps] eqn:E1; destruct (arm_pairs aeqb a rows') as [|p' ps'] eqn:E2.
  - reflexivity.
  - apply Permutation_nil in Pa. discriminate.
  - apply Permutation_sym, Permutation_nil in Pa. discriminate.
  - cbn [map].
    assert (Hn : ncols (fst p :: map fst ps) = w).
    { apply (arm_rows_width aeqb a (ds_of rows) (rs_of rows) (cx_of rows) w (fst p) (map fst ps) Hw). rewrite (arm_rows_of aeqb), E1. reflexivity. }
    assert (Hn' : ncols (fst p' :: map fst ps') = w).
    { apply (arm_rows_width aeqb a (ds_of rows') (rs_of rows') (cx_of rows') w (fst p') (map fst ps') Hw'). rewrite (arm_rows_of aeqb), E2. reflexivity. }
    rewrite Hn, Hn'. destruct (negb _); [reflexivity|].
    pose proof (ridge_fit_permutation (match l_nf s with Some d => d | None => O end)
                  (mkRidge (r_beta (aget_d aeqb ridge_new (l_models s) a)) (r_A (aget_d aeqb ridge_new (l_models s) a))
                           (r_Ainv (aget_d aeqb ridge_new (l_models s) a)) (r_Xty (aget_d aeqb ridge_new (l_models s) a))
                           (r_scaler (aget_d aeqb ridge_new (l_models s) a))
                           (Some (match r_rng (aget_d aeqb ridge_new (l_models s) a) with Some g' => g' | None => g end)))
                  (p :: ps) (p' :: ps') Pa) as H.
    cbn [map] in H. rewrite H. reflexivity.
Qed.

Lemma lin_parallel_fit_permutation (arms : list A) : forall (s : lin) g rows rows' w, Permutation rows rows' -> uniform_width w (cx_of rows) ->
  lin_parallel_fit N aeqb s g arms (ds_of rows) (rs_of rows) (cx_of rows) = lin_parallel_fit N aeqb s g arms (ds_of rows') (rs_of rows') (cx_of rows').
Proof.
  induction arms as [|a t IH]; intros s g rows rows' w P Hw; cbn [lin_parallel_fit]; [reflexivity|].
  rewrite (lin_fit_arm_permutation s g a rows rows' w P Hw).
  destruct (lin_fit_arm N aeqb s g a (ds_of rows') (rs_of rows') (cx_of rows')) as [s'|]; [|reflexivity]. apply (IH s' g rows rows' w P Hw).
Qed.

Lemma amem_permutation (a : A) (l l' : list A) : Permutation l l' -> amem aeqb a l = amem aeqb a l'.
Proof.
  intros P. unfold amem. induction P as [|x l l' P IH|x y l|l l' l'' P1 IH1 P2 IH2]; cbn; [reflexivity | rewrite IH; reflexivity | | congruence].
  destruct (aeqb a y), (aeqb a x); reflexivity.
Qed.

Lemma lset_trained_permutation (s : lin) (ds ds' : list A) p : Permutation ds ds' -> lset_trained aeqb s ds p = lset_trained aeqb s ds' p.
Proof.
  intros P. unfold lset_trained. f_equal. generalize (l_status s). induction (l_arms s) as [|a t IH]; intros st; cbn [fold_left]; [reflexivity|].
  rewrite (amem_permutation a ds ds' P). apply IH.
Qed.

Theorem lin_partial_fit_permutation (s : lin) g rows rows' w : Permutation rows rows' -> uniform_width w (cx_of rows) ->
  lin_partial_fit N aeqb s g (ds_of rows) (rs_of rows) (cx_of rows) = lin_partial_fit N aeqb s g (ds_of rows') (rs_of rows') (cx_of rows').
Proof.
  intros P Hw. unfold lin_partial_fit. rewrite (lin_parallel_fit_permutation (l_arms s) s g rows rows' w P Hw).
  destruct (lin_parallel_fit N aeqb s g (l_arms s) (ds_of rows') (rs_of rows') (cx_of rows')) as [s4 ok]. destruct ok; [|reflexivity].
  rewrite (lset_trained_permutation s4 (ds_of rows) (ds_of rows') true (Permutation_map _ P)). reflexivity.
Qed.

Theorem lin_fit_permutation (s : lin) g rows rows' : Permutation rows rows' -> uniform_width (ncols (cx_of rows)) (cx_of rows) ->
  lin_fit N aeqb s g (ds_of rows) (rs_of rows) (cx_of rows) = lin_fit N aeqb s g (ds_of rows') (rs_of rows') (cx_of rows').
Proof.
  intros P Hw. unfold lin_fit.
  assert (Hd : ncols (cx_of rows') = ncols (cx_of rows)).
  { destruct rows' as [|t' r']; [apply Permutation_sym, Permutation_nil in P; subst; reflexivity|].
    cbn [cx_of map ncols]. unfold uniform_width, cx_of in Hw. rewrite Forall_forall in Hw. apply Hw. apply in_map_iff. exists t'. split; [reflexivity|].
    apply (Permutation_in _ (Permutation_sym P)). left. reflexivity. }
  rewrite Hd. cbv zeta.
  match goal with |- context [lin_parallel_fit N aeqb ?s3 g ?arms (ds_of rows) (rs_of rows) (cx_of rows)] =>
    rewrite (lin_parallel_fit_permutation arms s3 g rows rows' (ncols (cx_of rows)) P Hw);
    destruct (lin_parallel_fit N aeqb s3 g arms (ds_of rows') (rs_of rows') (cx_of rows')) as [s4 ok] end.
  destruct ok; [|reflexivity]. rewrite (lset_trained_permutation s4 (ds_of rows) (ds_of rows') false (Permutation_map _ P)). reflexivity.
Qed.

End RowOrderLin.
