(*  C07 — fit discards everything learned before.
   
    PROVED for the six context-free learning policies, for every reachable state (the two reachable-state
    invariants keys_ok and clean are proved to hold after every history in C08 / CFClean), every data set:
     * fit(D) on the used policy object yields exactly (Leibniz equality) the state fit(D) yields on a freshly
       constructed object with the same configuration and current arm list; for Thompson Sampling up to the
       stored copy of the last sample, which no operation reads (statistics, trained / warm status, warm-start
       copies, UCB1's N, Popularity's normalisation flag are all included in the equality);
     * at the facade: fit on the used bandit and on the fresh bandit are accepted or rejected alike, leave the
       same fitted flag, generator and cold_arms, and related implementation states.
    ..._partial: linear and neighbourhood policies are covered by the refit-versus-fresh relation executed on
    the implementation; LinTS is refuted on the code (finding D8: per-arm generator copies survive fit). *)
From Coq Require Import List ZArith Bool Arith QArith Qcanon.
From MW Require Import Num Assoc AssocFacts Rng Par CF CFInv CFClean CFForget CFSpec Matrix Lin Warm WarmInv Nbr NbrFacts NbrIndep Clu Tree Mab FacadeCF FacadeArms NumLaws QcInst.
Import ListNotations.

Theorem C07_fit_forgets_context_free :
  forall (R A : Type) (N : Num R) (aeqb : A -> A -> bool) (s : (@cf R A)) (ds : list A) (rs : list R),
  keys_ok s ->
  clean N s ->
  cf_fit N aeqb s ds rs =
  match c_kind s with
  | KThompson => set_exp (cf_fit N aeqb (cf_fresh N s) ds rs) (c_exp s)
  | _ => cf_fit N aeqb (cf_fresh N s) ds rs
  end.
Proof. exact @cf_fit_forgets. Qed.
Print Assumptions C07_fit_forgets_context_free.

Theorem C07_fit_forgets_at_the_facade_partial :
  forall (R A G : Type) (N : Num R) (aeqb : A -> A -> bool) (RG : RngOps R G),
  (forall x y : A, aeqb x y = true <-> x = y) ->
  forall (m : (@mab R A G)) (ds : list A) (rs : list R) (cx : option (@ctxs R)) (orc : (@oracle R A)),
  is_cf m ->
  mab_inv N m ->
  let r := step N aeqb RG m (Fit ds rs cx orc) in
  let r' := step N aeqb RG (mab_fresh N m) (Fit ds rs cx orc) in
  snd r = snd r' /\
  (snd r = ODone ->
   imp_rel (m_imp (fst r)) (m_imp (fst r')) /\
   m_fitted (fst r) = m_fitted (fst r') /\
   m_rng (fst r) = m_rng (fst r') /\ mab_cold_arms aeqb (fst r) = mab_cold_arms aeqb (fst r')).
Proof. exact @fit_forgets_facade. Qed.
Print Assumptions C07_fit_forgets_at_the_facade_partial.

Theorem C07_invariants_hold_after_every_history :
  forall (R A G : Type) (N : Num R) (aeqb : A -> A -> bool) (RG : RngOps R G),
  (forall x y : A, aeqb x y = true <-> x = y) ->
  forall (ops : list (@op R A)) (m : (@mab R A G)),
  rng_lengths_ok RG ->
  is_cf m ->
  mab_inv N m -> is_cf (state_after N aeqb RG m ops) /\ mab_inv N (state_after N aeqb RG m ops).
Proof. exact @run_preserves_inv. Qed.
Print Assumptions C07_invariants_hold_after_every_history.


