(* QuantileMono.v — C13: np.quantile(a, q) (linear interpolation, as modelled in Warm.v) is monotone in q, hence the
   warm-start threshold grows with distance_quantile and the set of (cold arm, donor) pairs can only grow.
   Ordered-field laws (NumLaws) plus the specification of floor:  of_Z (floor x) <= x < of_Z (floor x) + 1  for x >= 0
   (met by the rational instance: Example at the end of props/C13.v). *)
From Coq Require Import ZArith List Bool Arith Lia Ring.
From MW Require Import Num NumLaws Assoc AssocFacts Rng CF Matrix Lin Warm WarmIdem OrderFacts LshScale StatFacts EvalOrder.
Import ListNotations.

Section QuantileMono.
Context {R : Type} (N : Num R) (L : NumLaws N).
Add Ring RingQM : (L_ring N L).

Notation "0" := (zero N).
Notation "1" := (one N).
Infix "+" := (add N).
Infix "*" := (mul N).
Infix "-" := (sub N).
Notation "x <=? y" := (leb N x y).
Notation "x <? y" := (ltb N x y).
Notation ofn := (fun k : nat => of_Z N (Z.of_nat k)).

Definition floor_ok : Prop := forall x, (0 <=? x) = true ->
  (of_Z N (Z.of_nat (floor_nat N x)) <=? x) = true /\ (x <? of_Z N (Z.of_nat (floor_nat N x) + 1)) = true.
Hypothesis Hfloor : floor_ok.

(* ---- order facts ---------------------------------------------------------------------------------------------- *)
Lemma le_lt_trans a b c : (a <=? b) = true -> (b <? c) = true -> (a <? c) = true.
Proof.
  intros H1 H2. rewrite (L_ltb_leb N L). destruct (c <=? a) eqn:E; [|reflexivity]. exfalso.
  rewrite (L_ltb_leb N L) in H2. rewrite (L_leb_trans N L c a b E H1) in H2. discriminate.
Qed.

Lemma lt_le a b : (a <? b) = true -> (a <=? b) = true.
Proof. apply (ltb_true_leb N L). Qed.

Lemma of_Z_nonneg z : (0 <= z)%Z -> (0 <=? of_Z N z) = true.
Proof.
  intros Hz. destruct (Z.eq_dec z 0) as [->|Hn]; [rewrite (L_of_Z_0 N L); apply (L_leb_refl N L)|].
  replace z with (Z.of_nat (S (Z.to_nat (z - 1)))) by lia. apply lt_le. apply (of_nat_pos N L).
Qed.

Lemma of_Z_mono a b : (a <= b)%Z -> (of_Z N a <=? of_Z N b) = true.
Proof.
  intros H. replace b with (a + (b - a))%Z by lia. rewrite (L_of_Z_add N L).
  pose proof (le_add_mono N L (of_Z N a) (of_Z N a) 0 (of_Z N (b - a)) (L_leb_refl N L _) (of_Z_nonneg (b - a) ltac:(lia))) as X.
  replace (of_Z N a + 0) with (of_Z N a) in X by ring. exact X.
Qed.

Lemma of_Z_lt_reflect a b : (of_Z N a <? of_Z N b) = true -> (a < b)%Z.
Proof.
  intros H. destruct (Z_lt_le_dec a b) as [Hl|Hg]; [exact Hl|]. exfalso.
  rewrite (L_ltb_leb N L), (of_Z_mono b a Hg) in H. discriminate.
Qed.

Lemma floor_mono x y : (0 <=? x) = true -> (x <=? y) = true -> (floor_nat N x <= floor_nat N y)%nat.
Proof.
  intros Hx Hxy. assert (Hy : (0 <=? y) = true) by (eapply (L_leb_trans N L); eassumption).
  destruct (Hfloor x Hx) as [A1 _]. destruct (Hfloor y Hy) as [_ B2].
  pose proof (le_lt_trans _ _ _ (L_leb_trans N L _ _ _ A1 Hxy) B2) as H. apply of_Z_lt_reflect in H. lia.
Qed.

Lemma mul_nonneg a b : (0 <=? a) = true -> (0 <=? b) = true -> (0 <=? a * b) = true.
Proof.
  intros Ha Hb. destruct (0 <? a) eqn:E1.
  - destruct (0 <? b) eqn:E2; [apply lt_le; apply (L_mul_pos N L); assumption|].
    assert (b = 0) by (apply (L_leb_antisym N L); [apply (ltb_false_leb N L); exact E2 | exact Hb]). subst b.
    replace (a * 0) with 0 by ring. apply (L_leb_refl N L).
  - assert (a = 0) by (apply (L_leb_antisym N L); [apply (ltb_false_leb N L); exact E1 | exact Ha]). subst a.
    replace (0 * b) with 0 by ring. apply (L_leb_refl N L).
Qed.

Lemma mul_le_mono_l c a b : (0 <=? c) = true -> (a <=? b) = true -> (c * a <=? c * b) = true.
Proof.
  intros Hc Hab. apply (nonneg_sub_le N L). replace (c * b - c * a) with (c * (b - a)) by ring.
  apply mul_nonneg; [exact Hc | apply (le_sub_nonneg N L); exact Hab].
Qed.

(* ---- sorting ------------------------------------------------------------------------------------------------- *)
Fixpoint sorted (l : list R) : Prop :=
  match l with
  | x :: ((y :: _) as t) => (x <=? y) = true /\ sorted t
  | _ => True
  end.

Lemma insert_sorted_sorted x l : sorted l -> sorted (insert_sorted N x l).
Proof.
  induction l as [|y t IH]; intros H; [exact I|]. cbn [insert_sorted].
  destruct (x <=? y) eqn:E; [split; assumption|].
  assert (Hyx : (y <=? x) = true) by (destruct (L_leb_total N L x y) as [X|X]; [congruence | exact X]).
  destruct t as [|z t'].
  - cbn [insert_sorted]. split; [exact Hyx | exact I].
  - destruct H as [Hyz Ht]. specialize (IH Ht). cbn [insert_sorted] in *.
    destruct (x <=? z) eqn:E2; [split; [exact Hyx | exact IH] | split; [exact Hyz | exact IH]].
Qed.

Lemma sort_sorted l : sorted (sort N l).
Proof. induction l as [|x l IH]; [exact I|]. cbn [sort fold_right]. apply insert_sorted_sorted. exact IH. Qed.

Lemma insert_sorted_length x l : length (insert_sorted N x l) = S (length l).
Proof. induction l as [|y t IH]; [reflexivity|]. cbn [insert_sorted]. destruct (x <=? y); simpl; [reflexivity | rewrite IH; reflexivity]. Qed.
Lemma sort_length l : length (sort N l) = length l.
Proof. induction l as [|x l IH]; [reflexivity|]. cbn [sort fold_right]. rewrite insert_sorted_length. fold (sort N l). rewrite IH. reflexivity. Qed.

Lemma sorted_tail x t : sorted (x :: t) -> sorted t.
Proof. destruct t as [|y t']; [intros; exact I | intros [_ H]; exact H]. Qed.

Lemma sorted_hd_le t : forall x, sorted (x :: t) -> forall k, (k < length (x :: t))%nat -> (x <=? nth k (x :: t) 0) = true.
Proof.
  induction t as [|y t' IH]; intros x Hs k Hk.
  - simpl in Hk. replace k with O by lia. apply (L_leb_refl N L).
  - destruct k as [|k]; [apply (L_leb_refl N L)|]. destruct Hs as [Hxy Ht].
    eapply (L_leb_trans N L); [exact Hxy|]. cbn [nth]. apply (IH y Ht k). simpl in *. lia.
Qed.

Lemma sorted_nth l : sorted l -> forall i j, (i <= j)%nat -> (j < length l)%nat -> (nth i l 0 <=? nth j l 0) = true.
Proof.
  induction l as [|x t IH]; intros Hs i j Hij Hj; [simpl in Hj; lia|].
  destruct i as [|i]; [apply (sorted_hd_le t x Hs j Hj)|].
  destruct j as [|j]; [lia|]. cbn [nth].
  apply IH; [exact (sorted_tail x t Hs) | lia | simpl in Hj; lia].
Qed.

Lemma last_nth (l : list R) : l <> [] -> last l 0 = nth (length l - 1) l 0.
Proof.
  induction l as [|x t IH]; [congruence|]. intros _. destruct t as [|y t']; [reflexivity|].
  change (last (x :: y :: t') 0) with (last (y :: t') 0). rewrite IH by discriminate.
  replace (length (x :: y :: t') - 1)%nat with (S (length (y :: t') - 1)) by (simpl; lia). reflexivity.
Qed.

(* ---- the interpolation --------------------------------------------------------------------------------------- *)
Definition interp (s : list R) (vi : R) : R :=
  if of_Z N (Z.of_nat (length s) - 1) <=? vi then last s 0
  else let lo := floor_nat N vi in
       nth lo s 0 + (nth (S lo) s 0 - nth lo s 0) * (vi - of_Z N (Z.of_nat lo)).

Lemma quantile_interp a q : quantile N a q = interp (sort N a) (of_Z N (Z.of_nat (length (sort N a)) - 1) * q).
Proof.
  unfold quantile, interp. destruct (_ <=? _); [reflexivity|].
  destruct (div N 1 (of_Z N 2) <=? _); ring.
Qed.

(* inside a segment the value lies between the two knots *)
Lemma interp_segment s vi : sorted s -> (0 <=? vi) = true -> (of_Z N (Z.of_nat (length s) - 1) <=? vi) = false ->
  let lo := floor_nat N vi in
  (S lo < length s)%nat /\ (nth lo s 0 <=? interp s vi) = true /\ (interp s vi <=? nth (S lo) s 0) = true.
Proof.
  intros Hs Hv Hlt lo. unfold interp. rewrite Hlt. fold lo.
  destruct (Hfloor vi Hv) as [F1 F2]. fold lo in F1, F2.
  assert (Hvn : (vi <? of_Z N (Z.of_nat (length s) - 1)) = true) by (rewrite (L_ltb_leb N L), Hlt; reflexivity).
  assert (Hlo : (S lo < length s)%nat).
  { pose proof (le_lt_trans _ _ _ F1 Hvn) as H. apply of_Z_lt_reflect in H. lia. }
  split; [exact Hlo|].
  set (a0 := nth lo s 0). set (b0 := nth (S lo) s 0). set (t := vi - of_Z N (Z.of_nat lo)).
  assert (Hd : (0 <=? b0 - a0) = true) by (apply (le_sub_nonneg N L); apply sorted_nth; [exact Hs | lia | exact Hlo]).
  assert (Ht0 : (0 <=? t) = true) by (apply (le_sub_nonneg N L); exact F1).
  assert (Ht1 : (0 <=? 1 - t) = true).
  { apply (le_sub_nonneg N L). unfold t. apply (nonneg_sub_le N L).
    replace (1 - (vi - of_Z N (Z.of_nat lo))) with (of_Z N (Z.of_nat lo + 1) - vi) by (rewrite (L_of_Z_add N L), (L_of_Z_1 N L); ring).
    apply (le_sub_nonneg N L). apply lt_le. exact F2. }
  split.
  - apply (nonneg_sub_le N L). replace (a0 + (b0 - a0) * t - a0) with ((b0 - a0) * t) by ring. apply mul_nonneg; assumption.
  - apply (nonneg_sub_le N L). replace (b0 - (a0 + (b0 - a0) * t)) with ((b0 - a0) * (1 - t)) by ring. apply mul_nonneg; assumption.
Qed.

Theorem interp_mono s vi vi' : sorted s -> s <> [] -> (0 <=? vi) = true -> (vi <=? vi') = true -> (interp s vi <=? interp s vi') = true.
Proof.
  intros Hs Hne Hv Hvv. assert (Hv' : (0 <=? vi') = true) by (eapply (L_leb_trans N L); eassumption).
  assert (Hlen : (1 <= length s)%nat) by (destruct s; [congruence | simpl; lia]).
  destruct (of_Z N (Z.of_nat (length s) - 1) <=? vi') eqn:E'.
  - (* the larger index is at the end: the maximum *)
    assert (Hmax : interp s vi' = nth (length s - 1) s 0) by (unfold interp; rewrite E'; apply last_nth; exact Hne).
    rewrite Hmax. destruct (of_Z N (Z.of_nat (length s) - 1) <=? vi) eqn:E.
    + unfold interp. rewrite E, (last_nth s Hne). apply (L_leb_refl N L).
    + destruct (interp_segment s vi Hs Hv E) as (Hlo & _ & Hup).
      eapply (L_leb_trans N L); [exact Hup|]. apply sorted_nth; [exact Hs | lia | lia].
  - assert (E : (of_Z N (Z.of_nat (length s) - 1) <=? vi) = false).
    { destruct (of_Z N (Z.of_nat (length s) - 1) <=? vi) eqn:X; [|reflexivity]. rewrite (L_leb_trans N L _ _ _ X Hvv) in E'. discriminate. }
    destruct (interp_segment s vi Hs Hv E) as (Hlo & Hlow & Hup).
    destruct (interp_segment s vi' Hs Hv' E') as (Hlo' & Hlow' & Hup').
    pose proof (floor_mono vi vi' Hv Hvv) as Hfm.
    destruct (Nat.eq_dec (floor_nat N vi) (floor_nat N vi')) as [Eq|Ne].
    + (* same segment: linear with a non-negative slope *)
      unfold interp. rewrite E, E'. rewrite <- Eq.
      set (lo := floor_nat N vi) in *. set (a0 := nth lo s 0). set (b0 := nth (S lo) s 0).
      assert (Hd : (0 <=? b0 - a0) = true) by (apply (le_sub_nonneg N L); apply sorted_nth; [exact Hs | lia | exact Hlo]).
      apply (nonneg_sub_le N L).
      replace (a0 + (b0 - a0) * (vi' - of_Z N (Z.of_nat lo)) - (a0 + (b0 - a0) * (vi - of_Z N (Z.of_nat lo)))) with ((b0 - a0) * (vi' - vi)) by ring.
      apply mul_nonneg; [exact Hd | apply (le_sub_nonneg N L); exact Hvv].
    + (* a later segment: separated by a knot *)
      eapply (L_leb_trans N L); [exact Hup|]. eapply (L_leb_trans N L); [|exact Hlow'].
      apply sorted_nth; [exact Hs | lia | lia].
Qed.

(* np.quantile is monotone in q on [0, 1] (in fact for every 0 <= q <= q') *)
Theorem quantile_monotone a q q' : a <> [] -> (0 <=? q) = true -> (q <=? q') = true ->
  (quantile N a q <=? quantile N a q') = true.
Proof.
  intros Hne Hq Hqq. rewrite !quantile_interp.
  assert (Hs : sort N a <> []) by (intros X; apply (f_equal (@length R)) in X; rewrite sort_length in X; destruct a; [congruence | discriminate]).
  assert (Hn : (0 <=? of_Z N (Z.of_nat (length (sort N a)) - 1)) = true).
  { apply of_Z_nonneg. rewrite sort_length. destruct a as [|x0 a0]; [congruence|]. cbn [length]. rewrite Nat2Z.inj_succ. lia. }
  apply interp_mono; [apply sort_sorted | exact Hs | apply mul_nonneg; assumption | apply mul_le_mono_l; assumption].
Qed.

End QuantileMono.

(* ---- consequences for warm start, and non-vacuity of the floor hypothesis --------------------------------------- *)
Section WarmMono.
Context {R A : Type} (N : Num R) (L : NumLaws N) (aeqb : A -> A -> bool).
Hypothesis Hfloor : floor_ok N.

(* the threshold grows with distance_quantile *)
Theorem distance_threshold_monotone (dt : list (A * list (A * R))) q q' thr thr' :
  leb N (zero N) q = true -> leb N q q' = true ->
  distance_threshold N dt q = Some thr -> distance_threshold N dt q' = Some thr' -> leb N thr thr' = true.
Proof.
  intros Hq Hqq. unfold distance_threshold.
  set (closest := flat_map _ dt). destruct closest as [|c cs] eqn:E; [discriminate|].
  intros E1 E2. injection E1 as <-. injection E2 as <-.
  apply (quantile_monotone N L Hfloor); [discriminate | exact Hq | exact Hqq].
Qed.

(* C13: a larger distance_quantile can only add (cold arm, donor) pairs *)
Theorem warm_pairs_monotone_in_quantile (trained cold : list A) (dt : list (A * list (A * R))) q q' thr thr' :
  leb N (zero N) q = true -> leb N q q' = true ->
  distance_threshold N dt q = Some thr -> distance_threshold N dt q' = Some thr' ->
  incl (cold_to_warm_gen N aeqb trained cold dt thr) (cold_to_warm_gen N aeqb trained cold dt thr').
Proof.
  intros Hq Hqq E1 E2. apply (warm_pairs_monotone_in_threshold N aeqb L).
  exact (distance_threshold_monotone dt q q' thr thr' Hq Hqq E1 E2).
Qed.

End WarmMono.

From Coq Require Import QArith Qcanon Qround.
Lemma Qc_floor_ok : floor_ok QcNum.
Proof.
  intros x Hx. cbn [QcNum floor_nat of_Z leb ltb zero] in *. unfold Qc_floor_nat, Qc_of_Z, Qc_leb, Qc_ltb in *.
  apply Qle_bool_iff in Hx.
  assert (Hf : (0 <= Qfloor x)%Z).
  { assert (H0 : (Qfloor 0 <= Qfloor x)%Z) by (apply Qfloor_resp_le; exact Hx). exact H0. }
  rewrite Z2Nat.id by exact Hf. split.
  - apply Qle_bool_iff. cbn [this Q2Qc]. rewrite Qred_correct. apply Qfloor_le.
  - apply negb_true_iff. destruct (Qle_bool (Q2Qc (inject_Z (Qfloor x + 1))) x) eqn:E; [|reflexivity]. exfalso.
    apply Qle_bool_iff in E. cbn [this Q2Qc] in E. rewrite Qred_correct in E.
    pose proof (Qlt_floor x) as Hlt. apply (Qlt_not_le _ _ Hlt). exact E.
Qed.
