(* SimRunFacts.v — C15: the simulator-specific neighbourhood classes refine the library classes.
   With the distance cache computed by the bandit's own metric over its own stored contexts, one call of
   _NeighborsSimulator.predict returns the predictions of the library's predict from the same generator state
   and leaves the generator in the same state — for every history, query batch, partition and generator.
   The argument is the one of C05 (NbrIndepGen): the state in which a row leaves the worker's private copy of the
   learning policy (the simulator makes one more query on it than the library) is irrelevant for the rows after it. *)
From Coq Require Import ZArith List Bool Arith Lia.
From MW Require Import Num Assoc AssocFacts Rng Par CF CFInv CFClean CFForget Matrix Lin LinInv LinForget LinSim
                       Nbr NbrFacts NbrIndep NbrIndepGen Warm Clu Tree Mab Sim SimRun.
Import ListNotations.

Section Generic.
Context {R A G : Type} (N : Num R) (aeqb : A -> A -> bool) (RG : RngOps R G).
Notation nbr := (@nbr R A G).
Notation lp := (@lp R A G).
Notation res := (option A + list (A * option R))%type.
Notation srow := (@srow R A).

Definition own_cache (s : nbr) (row : list R) : list R := map (fun c => distance N (n_metric s) c row) (n_cx s).

(* neighbours read from the bandit's own distances are the library's neighbours *)
Lemma sim_neighborhood_own (s : nbr) row orc : sim_neighborhood N s row (own_cache s row) orc = neighborhood N s row orc.
Proof.
  unfold sim_neighborhood, neighborhood, own_cache, sim_radius_select. destruct (n_kind s); try reflexivity.
  rewrite map_length. reflexivity.
Qed.

Lemma sim_distances_own (s : nbr) cx : sim_distances N s cx = map (own_cache s) cx.
Proof. reflexivity. Qed.

(* a test row without neighbours (fix D37): the simulator class records, with the drawn arm, exactly the expectations the library's
   predict_expectations reports for that row - the stored all-NaN dictionary - and no neighbourhood statistics *)
Theorem sim_empty_neighbourhood_reports_the_library_expectations (s : nbr) (l : lp) quick raw seed row orc :
  neighborhood N s row orc = Some [] -> nnprob_len_ok s = true ->
  (exists p, simnbr_row N aeqb RG s l quick raw seed row (own_cache s row) orc = Some ((p, (n_exp s, []), O), l)) /\
  (exists r, nbr_row N aeqb RG s l seed row orc false = Some (inr (n_exp s), r)).
Proof.
  intros Hn Hok. split.
  - unfold simnbr_row. rewrite sim_neighborhood_own, Hn, Hok. cbn [negb].
    destruct (draw_z RG (create RG seed) (RqChoice (length (n_arms s)) (n_nnprob s))) as [v g']. eexists. reflexivity.
  - destruct (empty_neighbourhood N aeqb RG s l seed row orc Hn) as [H _]. exact H.
Qed.

Variable good : lp -> Prop.

Definition srow_rel (r1 : option (srow * lp)) (r2 : option (res * lp)) : Prop :=
  match r1, r2 with
  | Some ((p, _, _), l1), Some (o, l2) => o = inl p /\ good l1 /\ good l2
  | None, None => True
  | _, _ => False
  end.

Variable s : nbr.
Variable quick : bool.
Variable raw : list R.
Hypothesis row_sim : forall l1 l2 seed row orc, good l1 -> good l2 ->
  srow_rel (simnbr_row N aeqb RG s l1 quick raw seed row (own_cache s row) orc) (nbr_row N aeqb RG s l2 seed row orc true).

Definition preds_of (l : list srow) : list res := map (fun x => inl (fst (fst x))) l.

Lemma sim_rows_refine : forall rows seeds orcs l1 l2, good l1 -> good l2 ->
  option_map preds_of (simnbr_rows N aeqb RG s l1 quick raw seeds rows (map (own_cache s) rows) orcs)
  = nbr_rows N aeqb RG s l2 seeds rows orcs true.
Proof.
  induction rows as [|row rows IH]; intros seeds orcs l1 l2 G1 G2.
  - destruct seeds; reflexivity.
  - destruct seeds as [|sd seeds]; [reflexivity|]. cbn [map simnbr_rows nbr_rows hd tl].
    pose proof (row_sim l1 l2 sd row (hd [] orcs) G1 G2) as Hr. unfold srow_rel in Hr.
    destruct (simnbr_row N aeqb RG s l1 quick raw sd row (own_cache s row) (hd [] orcs)) as [[[[p e] k] l1']|];
      destruct (nbr_row N aeqb RG s l2 sd row (hd [] orcs) true) as [[o l2']|]; try contradiction; try reflexivity.
    destruct Hr as (-> & K1 & K2). rewrite <- (IH seeds (tl orcs) l1' l2' K1 K2).
    destruct (simnbr_rows N aeqb RG s l1' quick raw seeds rows (map (own_cache s) rows) (tl orcs)); reflexivity.
Qed.

Lemma chunks_map {T U} (f : T -> U) (sizes : list nat) (l : list T) : chunks sizes (map f l) = map (map f) (chunks sizes l).
Proof.
  revert l. induction sizes as [|n t IH]; intros l; simpl; [reflexivity|].
  rewrite firstn_map, skipn_map, IH. reflexivity.
Qed.

Lemma sim_chunks_refine : forall sizes seeds cx orcs, good (n_lp s) ->
  option_map preds_of
    (fold_right (fun r acc => match r, acc with Some x, Some y => Some (x ++ y) | _, _ => None end) (Some [])
       (map (fun p => let '(sd, rows, cch, orc) := (p : list Z * mat (R:=R) * mat (R:=R) * list (list nat)) in
                      simnbr_rows N aeqb RG s (n_lp s) quick raw sd rows cch orc)
            (combine (combine (combine (chunks sizes seeds) (chunks sizes cx)) (chunks sizes (map (own_cache s) cx))) (chunks sizes orcs))))
  = fold_right (fun r acc => match r, acc with Some x, Some y => Some (x ++ y) | _, _ => None end) (Some [])
       (map (fun p => let '(sd, rows, orc) := (p : list Z * mat (R:=R) * list (list nat)) in
                      nbr_rows N aeqb RG s (n_lp s) sd rows orc true)
            (combine (combine (chunks sizes seeds) (chunks sizes cx)) (chunks sizes orcs))).
Proof.
  intros sizes seeds cx orcs Gt. rewrite chunks_map.
  revert seeds cx orcs. induction sizes as [|n sizes IH]; intros seeds cx orcs; [reflexivity|].
  cbn [chunks map combine fold_right].
  rewrite <- (IH (skipn n seeds) (skipn n cx) (skipn n orcs)).
  rewrite <- (sim_rows_refine (firstn n cx) (firstn n seeds) (firstn n orcs) (n_lp s) (n_lp s) Gt Gt).
  destruct (simnbr_rows N aeqb RG s (n_lp s) quick raw (firstn n seeds) (firstn n cx) (map (own_cache s) (firstn n cx)) (firstn n orcs)) as [x|]; [|reflexivity].
  match goal with |- context [fold_right ?f ?a ?l] => destruct (fold_right f a l) as [y|] end; [|reflexivity].
  simpl. unfold preds_of. rewrite map_app. reflexivity.
Qed.

(* one predict call of the simulator class = one predict call of the library class *)
Theorem sim_predict_refines g cx orcs sizes : good (n_lp s) ->
  let (r, g1) := simnbr_predict N aeqb RG s quick raw g cx (sim_distances N s cx) orcs sizes in
  nbr_predict N aeqb RG s g cx orcs sizes true = (option_map preds_of r, g1).
Proof.
  intros Gt. unfold simnbr_predict, nbr_predict. rewrite sim_distances_own.
  destruct (draw_z RG g (RqRandint 2147483647 (length cx))) as [seeds g1].
  rewrite (sim_chunks_refine sizes seeds cx orcs Gt). reflexivity.
Qed.

End Generic.

(* ---- context-free learning policies ------------------------------------------------------------------- *)
Section ContextFree.
Context {R A G : Type} (N : Num R) (aeqb : A -> A -> bool) (RG : RngOps R G).
Hypothesis aeqb_spec : forall x y, aeqb x y = true <-> x = y.
Hypothesis Hrng : rng_lengths_ok RG.
Notation cf := (@cf R A).
Notation nbr := (@nbr R A G).
Notation lp := (@lp R A G).

Definition lp_cf_good (t : cf) (l : lp) : Prop := exists c, l = LCf c /\ cf_good N t c.

(* a further query leaves a good copy good *)
Lemma cf_query_keeps_good (t c : cf) g m : cf_good N t c ->
  let '(_, c', _) := cf_predict_exp N aeqb RG c g m in cf_good N t c'.
Proof.
  intros (Hk & Hc & Hf).
  pose proof (cf_predict_exp_ok N aeqb RG c g m Hrng Hk) as H1.
  pose proof (cf_predict_exp_clean' N aeqb RG c g m Hc) as H2.
  pose proof (cf_predict_exp_cfg N aeqb RG c g m) as H3.
  destruct (cf_predict_exp N aeqb RG c g m) as [[e c'] g'].
  destruct H1 as (_ & _ & Hk' & _). split; [exact Hk'|]. split; [exact H2|].
  rewrite (cf_fresh_cfg N _ _ H3). exact Hf.
Qed.

Lemma cf_row_sim (s : nbr) (t : cf) : keys_ok t -> clean N t ->
  forall quick raw l1 l2 seed row orc, lp_cf_good t l1 -> lp_cf_good t l2 ->
  srow_rel (lp_cf_good t) (simnbr_row N aeqb RG s l1 quick raw seed row (own_cache N s row) orc) (nbr_row N aeqb RG s l2 seed row orc true).
Proof.
  intros Hkt Hct quick raw l1 l2 seed row orc [c1 [-> G1]] [c2 [-> G2]].
  unfold simnbr_row, nbr_row, srow_rel. rewrite sim_neighborhood_own.
  destruct (neighborhood N s row orc) as [[|i idx]|]; [| |exact I].
  - destruct (negb (nnprob_len_ok s)); [exact I|]. destruct (draw_z RG (create RG seed) (RqChoice (length (n_arms s)) (n_nnprob s))) as [v g'].
    split; [reflexivity|]. split; eexists; eauto.
  - set (ds := flat_map (fun o => match o with Some a => [a] | None => [] end) (map (fun i0 => nth_error (n_ds s) i0) (i :: idx))).
    set (rs := select (n_rs s) (zero N) (i :: idx)).
    set (cx := select (n_cx s) [] (i :: idx)).
    simpl lp_fit. cbv iota. simpl negb. cbv iota.
    unfold lp_expectations1 at 1 3.
    pose proof (fit_query_indep N aeqb RG aeqb_spec Hrng t c1 (create RG seed) ds rs Hkt Hct G1) as F1.
    pose proof (fit_query_indep N aeqb RG aeqb_spec Hrng t c2 (create RG seed) ds rs Hkt Hct G2) as F2.
    destruct (cf_predict_exp N aeqb RG (cf_fit N aeqb c1 ds rs) (create RG seed) (Some 1%nat)) as [[e1 c1'] g1].
    destruct (cf_predict_exp N aeqb RG (cf_fit N aeqb c2 ds rs) (create RG seed) (Some 1%nat)) as [[e2 c2'] g2].
    destruct (cf_predict_exp N aeqb RG (cf_fit N aeqb t ds rs) (create RG seed) (Some 1%nat)) as [[e0 t'] g0].
    destruct F1 as (E1 & _ & K1). destruct F2 as (E2 & _ & K2). subst e1 e2.
    destruct (lp_is_ts (LCf c1')).
    + split; [reflexivity|]. split; eexists; eauto.
    + unfold lp_expectations1.
      pose proof (cf_query_keeps_good t c1' g1 (Some 1%nat) K1) as K1'.
      destruct (cf_predict_exp N aeqb RG c1' g1 (Some 1%nat)) as [[e3 c1''] g3].
      split; [reflexivity|]. split; eexists; eauto.
Qed.

(* C15, Radius / KNearest / LSHNearest over a context-free learning policy *)
Theorem sim_predict_refines_library_cf (s : nbr) (t : cf) quick raw g cx orcs sizes :
  n_lp s = LCf t -> keys_ok t -> clean N t ->
  let (r, g1) := simnbr_predict N aeqb RG s quick raw g cx (sim_distances N s cx) orcs sizes in
  nbr_predict N aeqb RG s g cx orcs sizes true = (option_map (@preds_of R A) r, g1).
Proof.
  intros El Hkt Hct.
  apply (sim_predict_refines N aeqb RG (lp_cf_good t) s quick raw (cf_row_sim s t Hkt Hct quick raw)).
  rewrite El. exists t. split; [reflexivity | apply cf_good_refl; assumption].
Qed.

End ContextFree.

(* ---- linear learning policies (LinGreedy / LinUCB; LinTS under a neighbourhood policy is finding D8) ---- *)
Section LinearLp.
Context {R A G : Type} (N : Num R) (aeqb : A -> A -> bool) (RG : RngOps R G).
Hypothesis aeqb_spec : forall x y, aeqb x y = true <-> x = y.
Hypothesis Hrng : rng_lengths_ok RG.
Notation lin := (@lin R A G).
Notation nbr := (@nbr R A G).
Notation lp := (@lp R A G).

Definition lp_lin_good (t : lin) (l : lp) : Prop := exists c, l = LLin c /\ lin_good t c.

Lemma lin_query_keeps_good (t c : lin) g cx : lin_good t c ->
  lin_good t (snd (fst (lin_expectations N aeqb RG c g cx))).
Proof.
  intros (Hk & Hc & Hnt).
  pose proof (lin_expectations_ok N aeqb RG aeqb_spec c g cx Hrng Hk) as Z.
  pose proof (lin_expectations_cfg N aeqb RG c g cx) as Y.
  destruct (lin_expectations N aeqb RG c g cx) as [[e c'] g']. simpl in *.
  destruct Z as (_ & _ & W & _). split; [exact W|]. split; [|exact Hnt].
  eapply lin_cfg_trans; [exact Hc | exact Y].
Qed.

Lemma lin_row_sim (s : nbr) (t : lin) : lin_keys_ok t ->
  forall quick raw l1 l2 seed row orc, lp_lin_good t l1 -> lp_lin_good t l2 ->
  srow_rel (lp_lin_good t) (simnbr_row N aeqb RG s l1 quick raw seed row (own_cache N s row) orc) (nbr_row N aeqb RG s l2 seed row orc true).
Proof.
  intros Hkt quick raw l1 l2 seed row orc [c1 [-> G1]] [c2 [-> G2]].
  unfold simnbr_row, nbr_row, srow_rel. rewrite sim_neighborhood_own.
  destruct (neighborhood N s row orc) as [[|i idx]|]; [| |exact I].
  - destruct (negb (nnprob_len_ok s)); [exact I|]. destruct (draw_z RG (create RG seed) (RqChoice (length (n_arms s)) (n_nnprob s))) as [v g'].
    split; [reflexivity|]. split; eexists; eauto.
  - set (ds := flat_map _ _). set (rs := select (n_rs s) (zero N) (i :: idx)). set (cx := select (n_cx s) [] (i :: idx)).
    unfold lp_fit.
    destruct (lin_fit_good N aeqb t c1 c2 (create RG seed) ds rs cx Hkt G1 G2) as [Eok Eer].
    pose proof (lin_fit_cfg N aeqb c1 (create RG seed) ds rs cx) as F1. pose proof (lin_fit_cfg N aeqb c2 (create RG seed) ds rs cx) as F2.
    pose proof (lin_fit_keys_ok N aeqb aeqb_spec c1 (create RG seed) ds rs cx (proj1 G1)) as Q1.
    pose proof (lin_fit_keys_ok N aeqb aeqb_spec c2 (create RG seed) ds rs cx (proj1 G2)) as Q2.
    destruct (lin_fit N aeqb c1 (create RG seed) ds rs cx) as [c1' ok1]. destruct (lin_fit N aeqb c2 (create RG seed) ds rs cx) as [c2' ok2].
    simpl in Eok, Eer, F1, F2, Q1, Q2. subst ok2. destruct ok1; simpl negb; cbv iota; [|exact I].
    unfold lp_expectations1 at 1 3.
    destruct G1 as (_ & C1 & Hnt). destruct G2 as (_ & C2 & _).
    assert (Hk1 : l_kind c1' <> RTs) by (rewrite (proj1 F1), (proj1 C1); exact Hnt).
    assert (Hk2 : l_kind c2' <> RTs) by (rewrite (proj1 F2), (proj1 C2); exact Hnt).
    destruct (lin_expectations_erase N aeqb RG c1' (create RG seed) [row] Hk1) as [X1 _].
    destruct (lin_expectations_erase N aeqb RG c2' (create RG seed) [row] Hk2) as [X2 _].
    rewrite Eer in X1. rewrite X2 in X1.
    assert (GG1 : lin_good t c1') by (split; [exact Q1|]; split; [eapply lin_cfg_trans; [exact C1 | exact F1] | exact Hnt]).
    assert (GG2 : lin_good t c2') by (split; [exact Q2|]; split; [eapply lin_cfg_trans; [exact C2 | exact F2] | exact Hnt]).
    pose proof (lin_query_keeps_good t c1' (create RG seed) [row] GG1) as W1.
    pose proof (lin_query_keeps_good t c2' (create RG seed) [row] GG2) as W2.
    destruct (lin_expectations N aeqb RG c1' (create RG seed) [row]) as [[e1 c1''] g1].
    destruct (lin_expectations N aeqb RG c2' (create RG seed) [row]) as [[e2 c2''] g2].
    simpl in X1, W1, W2. subst e2.
    cbn [lp_is_ts]. cbv iota. unfold lp_expectations1.
    pose proof (lin_query_keeps_good t c1'' g1 [row] W1) as W3.
    destruct (lin_expectations N aeqb RG c1'' g1 [row]) as [[e3 c3] g3]. simpl in W3.
    split; [reflexivity|]. split; eexists; eauto.
Qed.

(* C15, Radius / KNearest / LSHNearest over LinGreedy or LinUCB *)
Theorem sim_predict_refines_library_linear (s : nbr) (t : lin) quick raw g cx orcs sizes :
  n_lp s = LLin t -> lin_keys_ok t -> l_kind t <> RTs ->
  let (r, g1) := simnbr_predict N aeqb RG s quick raw g cx (sim_distances N s cx) orcs sizes in
  nbr_predict N aeqb RG s g cx orcs sizes true = (option_map (@preds_of R A) r, g1).
Proof.
  intros El Hkt Hnt.
  apply (sim_predict_refines N aeqb RG (lp_lin_good t) s quick raw (lin_row_sim s t Hkt quick raw)).
  rewrite El. exists t. split; [reflexivity|]. split; [exact Hkt|]. split; [apply lin_cfg_refl | exact Hnt].
Qed.

End LinearLp.
