(* C10All.v — prediction is read-only, for the contextual implementations:
   * Radius / KNearest / LSHNearest, Clusters, TreeBandit: predict and predict_expectations return the
     implementation state itself (the per-worker copies of the learning policies are discarded); only the
     generator of the bandit moves;
   * LinGreedy / LinUCB: the state is returned unchanged; LinTS: only the private generators of the per-arm
     regressions move (every matrix, vector and scaler is the same). *)
From Coq Require Import ZArith List Bool Lia.
From MW Require Import Num Assoc AssocFacts Rng Par CF CFInv Matrix Lin LinInv Warm Nbr Clu Tree Mab FacadeCF.
Import ListNotations.

Section C10All.
Context {R A G : Type} (N : Num R) (aeqb : A -> A -> bool) (RG : RngOps R G).
Hypothesis aeqb_spec : forall x y, aeqb x y = true <-> x = y.

Notation mab := (@mab R A G).
Notation imp := (@imp R A G).

Definition is_nbhd (i : imp) : Prop := match i with INbr _ | IClu _ | ITree _ => True | _ => False end.

Theorem query_keeps_neighbourhood_state (m : mab) cx orc (is_p : bool) :
  is_nbhd (m_imp m) ->
  let o := if is_p then Predict cx orc else PredictExp cx orc in
  m_imp (fst (step N aeqb RG m o)) = m_imp m /\ m_fitted (fst (step N aeqb RG m o)) = m_fitted m.
Proof.
  intros Hn o. subst o. destruct is_p; unfold step;
  (destruct (negb (m_fitted m)); [auto|]; destruct (negb (predict_args_ok m cx)); [auto|]);
  unfold imp_query; destruct (m_imp m) as [s|s|s|s|s]; simpl in Hn; try contradiction.
  all: try (destruct (nbr_predict N aeqb RG s (m_rng m) (octx cx) (o_knn orc) (o_sizes orc) _) as [r g']; destruct r; simpl; auto).
  all: try (destruct (clu_predict N aeqb RG s (m_rng m) (octx cx) (o_assign orc) (o_sizes orc) _) as [r g']; simpl; auto).
  all: try (destruct (tree_predict N aeqb RG s (m_rng m) (o_leaf orc) (octx cx) _) as [r g']; simpl; auto).
Qed.

(* ---- linear policies ------------------------------------------------------------------------------------ *)
Definition ridge_eq_mod_rng (m m' : @ridge R G) : Prop :=
  r_beta m' = r_beta m /\ r_A m' = r_A m /\ r_Ainv m' = r_Ainv m /\ r_Xty m' = r_Xty m /\ r_scaler m' = r_scaler m.

Definition models_eq_mod_rng (ms ms' : list (A * @ridge R G)) : Prop :=
  Forall2 (fun x y => fst y = fst x /\ ridge_eq_mod_rng (snd x) (snd y)) ms ms'.

Lemma ridge_eq_refl m : ridge_eq_mod_rng m m. Proof. unfold ridge_eq_mod_rng; auto. Qed.
Lemma models_eq_refl ms : models_eq_mod_rng ms ms.
Proof. induction ms; constructor; auto. split; [reflexivity | apply ridge_eq_refl]. Qed.
Lemma models_eq_trans a b c : models_eq_mod_rng a b -> models_eq_mod_rng b c -> models_eq_mod_rng a c.
Proof.
  unfold models_eq_mod_rng. intros H. revert c. induction H as [|x y ta tb [Hk Hr] Ht IH]; intros c Hc; inversion Hc as [|y' z tb' tc [Hk2 Hr2] Htc]; subst; constructor.
  - split; [congruence|]. unfold ridge_eq_mod_rng in *. intuition congruence.
  - apply IH; assumption.
Qed.

Lemma ridge_predict_eq (s : @lin R A G) (m : @ridge R G) g x :
  ridge_eq_mod_rng m (snd (fst (ridge_predict N RG s m g x))) /\ (l_kind s <> RTs -> snd (fst (ridge_predict N RG s m g x)) = m).
Proof.
  unfold ridge_predict. destruct (l_kind s); simpl; try (split; [apply ridge_eq_refl | reflexivity]).
  destruct (draw_r RG _ _) as [smp gm']. destruct (r_rng m); simpl; (split; [unfold ridge_eq_mod_rng; simpl; auto | congruence]).
Qed.

Lemma aset_models_eq (ms : list (A * @ridge R G)) a m' :
  ridge_eq_mod_rng (aget_d aeqb ridge_new ms a) m' -> In a (akeys ms) -> models_eq_mod_rng ms (aset aeqb ms a m').
Proof.
  intros Hr Hin. induction ms as [|[k v] t IH]; simpl in *; [contradiction|].
  unfold aget_d in Hr. simpl in Hr. destruct (aeqb a k) eqn:E.
  - constructor; [split; [reflexivity | exact Hr] | apply models_eq_refl].
  - constructor; [split; [reflexivity | apply ridge_eq_refl]|]. apply IH.
    + exact Hr.
    + destruct Hin as [Hin|Hin]; [|exact Hin]. subst k. rewrite (proj2 (aeqb_spec a a) eq_refl) in E. discriminate.
Qed.

Lemma predict_arms_eq (s : @lin R A G) (arms : list A) ms g x :
  (forall a, In a arms -> In a (akeys ms)) ->
  let '(_, ms', _) := predict_arms N aeqb RG s ms arms g x in
  models_eq_mod_rng ms ms' /\ (l_kind s <> RTs -> NoDup (akeys ms) -> ms' = ms).
Proof.
  revert ms g. induction arms as [|a t IH]; intros ms g H; simpl; [split; [apply models_eq_refl | reflexivity]|].
  pose proof (ridge_predict_eq s (aget_d aeqb ridge_new ms a) g x) as [E1 E2].
  destruct (ridge_predict N RG s (aget_d aeqb ridge_new ms a) g x) as [[v m'] g1]. simpl in E1, E2.
  assert (Hin : In a (akeys ms)) by (apply H; left; reflexivity).
  assert (Hk : akeys (aset aeqb ms a m') = akeys ms) by (apply (akeys_aset_in aeqb aeqb_spec); exact Hin).
  specialize (IH (aset aeqb ms a m') g1).
  destruct (predict_arms N aeqb RG s (aset aeqb ms a m') t g1 x) as [[rest ms'] g2].
  destruct IH as [I1 I2]; [intros b Hb; rewrite Hk; apply H; right; exact Hb|].
  split.
  - eapply models_eq_trans; [apply aset_models_eq; [exact E1 | exact Hin] | exact I1].
  - intros Hn Hnd. rewrite (E2 Hn) in *.
    assert (Hsame : aset aeqb ms a (aget_d aeqb ridge_new ms a) = ms).
    { clear -aeqb_spec Hin. induction ms as [|[k v] t' IHm]; simpl in *; [contradiction|].
      unfold aget_d; simpl. destruct (aeqb a k) eqn:E.
      - apply aeqb_spec in E. subst k. reflexivity.
      - f_equal. destruct Hin as [Hin|Hin]; [subst k; rewrite (proj2 (aeqb_spec a a) eq_refl) in E; discriminate|].
        specialize (IHm Hin). unfold aget_d in IHm. exact IHm. }
    rewrite Hsame in *. apply I2; assumption.
Qed.

Theorem query_keeps_linear_model (m : mab) (s : @lin R A G) cx orc (is_p : bool) :
  m_imp m = ILin s -> lin_keys_ok s ->
  let o := if is_p then Predict cx orc else PredictExp cx orc in
  exists s', m_imp (fst (step N aeqb RG m o)) = ILin s' /\
    l_kind s' = l_kind s /\ l_alpha s' = l_alpha s /\ l_eps s' = l_eps s /\ l_l2 s' = l_l2 s /\ l_scale s' = l_scale s /\
    l_nf s' = l_nf s /\ l_arms s' = l_arms s /\ l_exp s' = l_exp s /\ l_status s' = l_status s /\
    models_eq_mod_rng (l_models s) (l_models s') /\ (l_kind s <> RTs -> s' = s) /\
    m_fitted (fst (step N aeqb RG m o)) = m_fitted m.
Proof.
  intros Es (Hn & He & Hst & Hm) o.
  assert (Hsame : exists s', ILin s = ILin s' /\
    l_kind s' = l_kind s /\ l_alpha s' = l_alpha s /\ l_eps s' = l_eps s /\ l_l2 s' = l_l2 s /\ l_scale s' = l_scale s /\
    l_nf s' = l_nf s /\ l_arms s' = l_arms s /\ l_exp s' = l_exp s /\ l_status s' = l_status s /\
    models_eq_mod_rng (l_models s) (l_models s') /\ (l_kind s <> RTs -> s' = s) /\ m_fitted m = m_fitted m).
  { exists s. repeat split; auto. apply models_eq_refl. }
  assert (Hmain : forall p, exists s', m_imp (fst (let '(r, i', g') := imp_query N aeqb RG (ILin s) (m_rng m) cx orc p in
                     match r with Some l => (mkMab i' (m_fitted m) g', if p then shape_arms (lefts l) else shape_exps (rights l))
                                | None => (mkMab i' (m_fitted m) g', ORejected) end)) = ILin s' /\
    l_kind s' = l_kind s /\ l_alpha s' = l_alpha s /\ l_eps s' = l_eps s /\ l_l2 s' = l_l2 s /\ l_scale s' = l_scale s /\
    l_nf s' = l_nf s /\ l_arms s' = l_arms s /\ l_exp s' = l_exp s /\ l_status s' = l_status s /\
    models_eq_mod_rng (l_models s) (l_models s') /\ (l_kind s <> RTs -> s' = s)).
  { intros p. unfold imp_query, lin_expectations.
    destruct (draw_r RG (m_rng m) (RqRand [length (octx cx)])) as [rv g1].
    destruct (draw_r RG g1 _) as [rnd g2].
    match goal with |- context [predict_arms N aeqb RG s (l_models s) (l_arms s) g2 ?X] =>
      pose proof (predict_arms_eq s (l_arms s) (l_models s) g2 X) as Hp;
      destruct (predict_arms N aeqb RG s (l_models s) (l_arms s) g2 X) as [[percol ms'] g3] end.
    destruct Hp as [P1 P2]; [intros a Ha; rewrite Hm; exact Ha|].
    simpl. eexists; split; [reflexivity|]. simpl. repeat split; auto.
    intros Hk. rewrite (P2 Hk) by (rewrite Hm; exact Hn). destruct s; reflexivity. }
  subst o. destruct is_p; unfold step;
    (destruct (negb (m_fitted m)); [simpl; rewrite Es; exact Hsame|]; destruct (negb (predict_args_ok m cx)); [simpl; rewrite Es; exact Hsame|]); rewrite Es.
  - destruct (Hmain true) as [s' H]. exists s'.
    destruct (imp_query N aeqb RG (ILin s) (m_rng m) cx orc true) as [[r i'] g']. destruct r; simpl in *; intuition.
  - destruct (Hmain false) as [s' H]. exists s'.
    destruct (imp_query N aeqb RG (ILin s) (m_rng m) cx orc false) as [[r i'] g']. destruct r; simpl in *; intuition.
Qed.

End C10All.
