# simcorr.py — correspondence between the real Simulator (offline / online drivers, the simulator-specific
# neighbourhood classes with their shared distance cache) and the extracted model SimRun.v.
# The Simulator is run on /repo's code with every generator request recorded; the same train / test rows, the
# same recorded random answers and the argpartition answers are handed to the model, and the reported predictions and
# expectations of every bandit are compared (bit-exact; rtol 1e-7 when a linear policy is involved).
import os, math, copy, random
import numpy as np
import mwh, gen
import relations as REL

SIM_METRICS = gen.METRICS   # the four metrics whose distance the model computes itself

def gen_simcase(rng, tier):
    n = rng.randint(16, 60)
    n_arms = rng.randint(2, 4)
    arms = rng.sample(range(0, 9), n_arms)
    present = list(arms)
    if n_arms > 2 and rng.random() < 0.25:
        present = arms[:-1]
    d = rng.randint(1, 3)
    style = rng.choice(["smallint", "binary", "dyadic", "smallint"])
    draw = gen.reward_stream(rng, style)
    ds = [rng.choice(present) for _ in range(n)]
    if rng.random() < 0.3 and len(present) > 1:
        # an arm that occurs only in the first rows (on one side of an ordered split only)
        a0 = present[0]
        ds = [a0 if i < 3 else rng.choice(present[1:]) for i in range(n)]
    rs = [draw() for _ in range(n)]
    cx = gen.gen_ctx(rng, n, d, 0, 4)
    nb = rng.randint(1, 3)
    bandits = []
    shared_metric = rng.choice(SIM_METRICS)
    for b in range(nb):
        z = rng.random()
        if z < 0.2:
            kind = rng.choice(gen.CF_KINDS)
            lp = (kind, gen.gen_hp(rng, kind)) if kind in ("greedy", "ucb", "softmax") else ((kind, gen.gen_binz(rng, arms) if rng.random() < 0.5 else None) if kind == "thompson" else (kind,))
            npol = None
        else:
            npk = rng.choice(["radius", "knearest", "radius", "knearest", "lsh", "none"])
            # LinTS under a neighbourhood policy is finding D8 (its regressions keep private generator copies): not generated here
            kinds = ["greedy", "ucb", "thompson", "softmax", "popularity", "random", "linucb", "lingreedy"]
            if npk == "none":
                kinds = ["linucb", "lingreedy", "lints"]
            kind = rng.choice(kinds)
            if kind in gen.LIN_KINDS:
                lp = gen.gen_lin_lp(rng, kind, scale_ok=False)
            elif kind == "thompson":
                # a binarizer (threshold / flip / greater-than / constant; flip is not idempotent on {0,1}) in half of the cases
                lp = (kind, gen.gen_binz(rng, arms) if rng.random() < 0.5 else None)
            elif kind in ("greedy", "ucb", "softmax"):
                lp = (kind, 0.0 if (kind == "greedy" and rng.random() < 0.6) else gen.gen_hp(rng, kind))
            else:
                lp = (kind,)
            # neighbourhood bandits of one simulation often share a metric (shared distance cache) and sometimes do not
            m = shared_metric if rng.random() < 0.6 else rng.choice(SIM_METRICS)
            if npk == "radius":
                q = cx[rng.randrange(n)]
                dd = sorted(set(gen.grid_dist(m, q, r) for r in cx))
                r = dd[min(len(dd) - 1, rng.randint(0, max(1, len(dd) // 2)))] if len(dd) > 1 else 1.0
                if rng.random() < 0.15:
                    r = 0.25                                   # mostly empty neighbourhoods
                probs = None
                if rng.random() < 0.2:
                    w = [rng.randint(1, 4) for _ in arms]; probs = [x / float(sum(w)) for x in w]
                    probs[-1] = 1.0 - sum(probs[:-1])
                npol = ("radius", float(r) if r > 0 else 0.5, m, probs)
            elif npk == "knearest":
                npol = ("knearest", rng.randint(1, 4), m)
            elif npk == "lsh":
                npol = ("lsh", rng.randint(1, 4), rng.randint(1, 3), None)
            else:
                npol = None
        bandits.append({"name": "b%d" % b, "lp": lp, "np": npol, "seed": 1000 * rng.randint(1, 10**5) + b})
    test_size = rng.choice([0.2, 0.3, 0.5, 0.25])
    n_test = n - int(n * (1 - test_size))
    bs = rng.choice([0, 0, 1, rng.randint(1, max(1, n_test)), n_test, max(1, n_test // 2), 2, 3])
    if rng.random() < 0.3:
        # rewards all above (or all below) zero: an arm that occurs on one side of the split only must not pick up the 0 of the
        # placeholder statistics of the other side
        sh = rng.choice([10.0, -10.0, 3.5])
        rs = [r + sh if sh > 0 else -abs(r) + sh for r in rs]
    if any(b["lp"][0] == "thompson" and b["lp"][1] is None for b in bandits):
        rs = [float(int(abs(r)) % 2) for r in rs]
    if any(b["lp"][0] == "popularity" for b in bandits):
        rs = [abs(r) for r in rs]
    t = {"arms": arms, "ds": ds, "rs": rs, "cx": cx, "bandits": bandits, "test_size": test_size, "is_ordered": rng.random() < 0.5,
         "batch_size": min(bs, n_test), "is_quick": rng.random() < 0.5, "seed": rng.randint(0, 10**6),
         "container": rng.choice([0, 0, 0, 1, 2, 3, 4]), "int_rs": rng.random() < 0.4}
    if rng.random() < 0.25:
        t["force_chunk"] = rng.choice([1, 2, 3, 5])      # chunked drivers (model: sim_offline_chunked / sim_online_chunked)
    return t

def is_lin(t):
    return any(b["lp"][0] in gen.LIN_KINDS for b in t["bandits"])

def canon_exp(d):
    return [(int(a), mwh.canon_val(v)) for a, v in d.items()]

def run_sim_impl(t):
    """runs the real Simulator with recording; returns per bandit (predictions, expectations) and the split"""
    from mabwiser.simulator import Simulator
    REL.quiet_logging()
    with mwh.recording() as tape:
        bandits = REL.build_sim_bandits(t)
        any_ctx = any(not REL.is_context_free(b) for b in t["bandits"])
        in_ds, in_rs, in_cx = REL.sim_inputs(t, any_ctx)
        sim = Simulator(bandits, in_ds, in_rs, in_cx,
                        test_size=t["test_size"], is_ordered=t["is_ordered"], batch_size=t["batch_size"], seed=t["seed"], is_quick=t["is_quick"])
        if t.get("force_chunk"):
            # the chunked branches, on small data: the chunk size computed by _run_train_test_split is lowered from outside
            import types
            orig = sim._run_train_test_split
            def lowered(self):
                r = orig()
                self._chunk_size = max(1, min(self._chunk_size, t["force_chunk"]))
                return r
            sim._run_train_test_split = types.MethodType(lowered, sim)
        try:
            sim.run()
        except Exception as e:
            return None, None, tape, repr(e)
    n = len(t["ds"])
    ti = [int(i) for i in sim.test_indices]
    if t["is_ordered"]:
        tr = [i for i in range(n) if i not in set(ti)]
    else:
        from sklearn.model_selection import train_test_split
        tr, _ = train_test_split(list(range(n)), test_size=t["test_size"], random_state=t["seed"])
        tr = [int(i) for i in tr]
    out = []
    def canon_stats(d):
        """{arm: {'count',...}} -> [(arm, None | (count, sum, min, max, mean, std) as bits)]; an all-NaN record is None"""
        res = []
        for a in t["arms"]:
            st = d[a]
            if st["count"] == 0 and st["sum"] != st["sum"]:
                res.append((int(a), None))
            else:
                res.append((int(a), (int(st["count"]),) + tuple(mwh.canon_val(st[k]) for k in ("sum", "min", "max", "mean", "std"))))
        return res
    for b in t["bandits"]:
        name = b["name"]
        preds = [int(p) for p in sim.bandit_to_predictions[name]]
        e = sim.bandit_to_expectations[name]
        if isinstance(e, dict):
            e = [e]
        ev = {}
        for sname, table in (("min", sim.bandit_to_arm_to_stats_min), ("mean", sim.bandit_to_arm_to_stats_avg), ("max", sim.bandit_to_arm_to_stats_max)):
            tb = table[name]
            if t["batch_size"] == 0:
                ev["total_" + sname] = canon_stats(tb)
            else:
                for key, val in tb.items():
                    ev["%s_%s" % (key, sname)] = canon_stats(val)
        out.append((preds, [canon_exp(d) for d in e], ev))
    armstats = {"total": canon_stats(sim.arm_to_stats_total), "train": canon_stats(sim.arm_to_stats_train), "test": canon_stats(sim.arm_to_stats_test)}
    t["_armstats"] = armstats
    return out, (tr, ti), tape, None

def knn_oracle(hist_cx, rows, k, metric):
    from scipy.spatial.distance import cdist
    res = []
    H = np.asarray(hist_cx, dtype=float)
    for row in rows:
        dd = cdist(H, np.asarray(row, dtype=float)[np.newaxis, :], metric=metric).reshape(-1)
        try:
            res.append([int(i) for i in np.argpartition(dd, k - 1)[:k]])
        except Exception:
            res.append([])
    return res

def batch_tokens(ds, rs, cx):
    return [str(len(ds))] + [str(int(d)) for d in ds] + [str(len(rs))] + [str(mwh.fbits(r)) for r in rs] + mwh.ctx_tokens(cx)

def simcase_text(cid, t, split, tape):
    tr, ti = split
    ds, rs, cx = t["ds"], t["rs"], t["cx"]
    lines = ["SIMCASE %s %s" % (cid, "tol" if is_lin(t) else "exact")]
    lines.append("ARMS %d %s" % (len(t["arms"]), " ".join(str(a) for a in t["arms"])))
    lines.append("NB %d" % len(t["bandits"]))
    for b in t["bandits"]:
        lines.append("SEED %d LP %s NP %s" % (b["seed"], " ".join(mwh.lp_tokens(b["lp"])), " ".join(mwh.np_tokens(b["np"]))))
    any_ctx = any(not REL.is_context_free(b) for b in t["bandits"])
    def rows(idx):
        return [ds[i] for i in idx], [rs[i] for i in idx], ([cx[i] for i in idx] if any_ctx else None)
    lines.append("QUICK %d" % (1 if t["is_quick"] else 0))
    lines.append("TOTAL " + " ".join(batch_tokens(ds, rs, cx if any_ctx else None)))
    lines.append("TRAIN " + " ".join(batch_tokens(*rows(tr))))
    for b in t["bandits"]:
        lines.append(" ".join(mwh.orc_tokens(None)))
    bs = t["batch_size"]
    batches = [ti] if bs == 0 else [ti[s:s + bs] for s in range(0, len(ti), bs)]
    lines.append("%s %d" % ("offline" if bs == 0 else "online", len(batches)))
    chunk = t.get("force_chunk") or max(1, len(ti))
    lines.append("CHUNK %d" % chunk)
    hist = list(tr)
    for idx in batches:
        lines.append(" ".join(batch_tokens(*rows(idx))))
        chunks = [idx[s:s + chunk] for s in range(0, len(idx), chunk)]
        lines.append(str(len(chunks)))
        for ch in chunks:
            for b in t["bandits"]:
                orc = {k: list(v) for k, v in mwh.EMPTY_ORC.items()}
                orc["sizes"] = [len(ch)]
                if b["np"] is not None and b["np"][0] == "knearest":
                    orc["knn"] = knn_oracle([cx[i] for i in hist], [cx[i] for i in ch], b["np"][1], b["np"][2])
                lines.append(" ".join(mwh.orc_tokens(orc)))      # predict
                o2 = {k: list(v) for k, v in mwh.EMPTY_ORC.items()}; o2["sizes"] = [len(ch)]
                lines.append(" ".join(mwh.orc_tokens(o2)))       # predict_expectations
                lines.append(" ".join(mwh.orc_tokens(None)))     # partial_fit
        hist += idx
    flat = [(key, e) for key, lst in tape.entries.items() for e in lst]
    lines.append("TAPE %d" % len(flat))
    for key, (params, kind, answers) in flat:
        a = " ".join(str(mwh.fbits(v)) for v in answers) if kind == "r" else " ".join(str(int(v)) for v in answers)
        lines.append("%s %d %s %s %d %s" % (key, len(params), " ".join(str(mwh.fbits(p)) for p in params), kind, len(answers), a))
    lines.append("END")
    return "\n".join(lines) + "\n"

def compare_sim(t, impl, mres):
    dis = []
    mode = "tol" if is_lin(t) else "exact"
    if mres is None:
        return ["model produced no output for the simulation"]
    if mres["E"]:
        return ["model error: " + mres["E"]]
    def cmp_stats(implst, tokens):
        if len(tokens) != len(implst):
            return False
        for (a, st), tok in zip(implst, tokens):
            p = tok.split(":")
            if int(p[0]) != a:
                return False
            if st is None:
                if p[1:] != ["nan"]:
                    return False
                continue
            if p[1:] == ["nan"] or int(p[1]) != st[0]:
                return False
            # sums / minima / maxima / means bit-exact; the standard deviation up to 4 ulp-ish (sqrt of a mean of squares)
            for j, (x, y) in enumerate(zip(st[1:], p[2:])):
                if not mwh.close_bits(x, y, "exact" if j < 4 else "tol", rtol=1e-12, atol=1e-300):
                    return False
        return True
    for scope, implst in (t.get("_armstats") or {}).items():
        tok = mres["S"].get(1000, {}).get("armstats_" + scope)
        if tok is None or not cmp_stats(implst, tok):
            dis.append("arm_to_stats_%s differs: simulator=%s model=%s" % (scope, implst, tok))
    for i, (b, (preds, exps, ev)) in enumerate(zip(t["bandits"], impl)):
        r = mres["R"].get(i)
        if r is None or r[0] != "preds":
            dis.append("bandit %s: model reports %s, the Simulator completed" % (b["name"], r))
            continue
        mp = r[1:]
        if mp != [str(p) for p in preds]:
            lin = b["lp"][0] in gen.LIN_KINDS
            k = next((j for j, (x, y) in enumerate(zip(mp, [str(p) for p in preds])) if x != y), -1)
            if not (lin and len(mp) == len(preds)):    # linear policies: ties up to rounding are not decided here (margins are checked by C02 / C09)
                dis.append("bandit %s: predictions differ at test row %d: simulator=%s model=%s" % (b["name"], k, preds[:12], mp[:12]))
                continue
        rows = " ".join(mres["S"].get(i, {}).get("exps", [])).split("|")
        rows = [x.split() for x in rows]
        if len(exps) == 0 and rows == [[]]:
            rows = []
        if len(rows) != len(exps):
            dis.append("bandit %s: %d expectation records reported, model has %d" % (b["name"], len(exps), len(rows)))
            continue
        for j, (d, row) in enumerate(zip(exps, rows)):
            if not mwh.cmp_exp(d, row, mode):
                dis.append("bandit %s: reported expectations differ at record %d: simulator=%s model=%s" % (b["name"], j, d, row))
                break
        # the evaluation (default_evaluator): min / mean / max analyses, per batch and in total
        if mp == [str(p) for p in preds]:
            for key, implst in ev.items():
                tok = mres["S"].get(i, {}).get("ev_" + key)
                if tok is None or not cmp_stats(implst, tok):
                    dis.append("bandit %s: evaluation %s differs: simulator=%s model=%s" % (b["name"], key, implst, tok))
                    break
    return dis

def run_simcorr(n, seed, tier, stats, dist, distinct, samples, prop="C15"):
    rng = random.Random("%s-simcorr-%d" % (prop, seed))
    cases, texts, impls = [], [], []
    skipped = 0; raised = []
    for i in range(n):
        t = gen_simcase(rng, tier)
        impl, split, tape, err = run_sim_impl(t)
        if impl is None:
            skipped += 1
            dist["simcorr_simulator_raised"] = dist.get("simcorr_simulator_raised", 0) + 1
            # the model has no rejection for a generated simulation: a run() that raises on data the public API handles is a disagreement
            if REL.api_replay_completes(t):
                raised.append({"why": ["the Simulator raised %s where the model completes and fit + predict through the public API complete" % err[:200]],
                               "simulation": {k: v for k, v in t.items() if not k.startswith("_")}, "theorem_pinning_the_model_value": "coq/props/%s.v" % prop})
            continue
        cases.append(t); impls.append(impl)
        texts.append(("s%d" % len(texts), simcase_text("s%d" % len(texts), t, split, tape)))
    res = mwh.run_model(texts, os.path.join(mwh.ROOT, "build", "work_%s_sim_%s" % (prop, tier)), shard=60)
    bad = list(raised)
    stats["corr_cases"] += len(raised); stats["corr_disagree"] += len(raised)
    if res.get("__driver__") and res["__driver__"]["E"]:
        bad.append({"why": res["__driver__"]["E"], "case": None})
    for i, (t, impl) in enumerate(zip(cases, impls)):
        stats["corr_cases"] += 1
        dist["simcorr_%s" % ("offline" if t["batch_size"] == 0 else "online")] = dist.get("simcorr_%s" % ("offline" if t["batch_size"] == 0 else "online"), 0) + 1
        for b in t["bandits"]:
            key = "simcorr:%s/%s" % (b["lp"][0], b["np"][0] if b["np"] else "none")
            dist[key] = dist.get(key, 0) + 1
        distinct.add("s" + REL_hash(t))
        d = compare_sim(t, impl, res.get("s%d" % i))
        if d:
            stats["corr_disagree"] += 1
            bad.append({"why": d[:4], "simulation": {k: v for k, v in t.items() if not k.startswith("_")}, "theorem_pinning_the_model_value": "coq/props/%s.v" % prop})
        if len(samples) < 3 and i == 0:
            samples.append({"simulator_correspondence": {"bandits": t["bandits"], "rows": len(t["ds"]), "batch_size": t["batch_size"], "is_ordered": t["is_ordered"]},
                            "predictions_head": [x[0][:8] for x in impl]})
    return bad

def REL_hash(t):
    import hashlib, json
    return hashlib.sha1(json.dumps(t, sort_keys=True, default=str).encode()).hexdigest()[:16]

if __name__ == "__main__":
    import sys
    stats = {"corr_cases": 0, "corr_disagree": 0}; dist = {}
    bad = run_simcorr(int(sys.argv[1]) if len(sys.argv) > 1 else 20, int(sys.argv[2]) if len(sys.argv) > 2 else 0, "quick", stats, dist, set(), [])
    print(stats, dist)
    for b in bad[:5]:
        print(b["why"], {k: b.get("simulation", {}).get(k) for k in ("bandits", "batch_size", "is_ordered", "is_quick")} if b.get("simulation") else None)
