(* WarmDonor.v — C13, the positive half: every (cold arm, donor) pair chosen by warm_start ends with the cold arm holding an exact
   copy of the donor's learned state as it was BEFORE the call (whatever the order in which the pairs are processed), marked as
   warm-started with the donor recorded; the donor itself is untouched.  "Learned state" is what _copy_arms of the policy copies:
     EpsilonGreedy / Popularity  sum, count, expectation          UCB1     sum, count, mean, expectation
     Softmax                     sum, count, mean                 Thompson successes, failures
   Linear policies: the regression object of the cold arm is the donor's (matrices, vectors, scaler; a private generator copy). *)
From Coq Require Import ZArith List Bool Arith Lia.
From MW Require Import Num Assoc AssocFacts Rng Par CF CFInv CFSpec SoftmaxSpec Matrix Lin Warm WarmInv Nbr Clu Tree Mab MoreFacts LinWarm.
Import ListNotations.

Section WarmDonor.
Context {R A G : Type} (N : Num R) (aeqb : A -> A -> bool) (RG : RngOps R G).
Hypothesis aeqb_spec : forall x y, aeqb x y = true <-> x = y.
Notation cf := (@cf R A).
Notation lin := (@lin R A G).

(* the pairs: one per cold arm at most, so no cold arm appears twice *)
Lemma cold_to_warm_gen_nodup (trained cold : list A) dt thr :
  NoDup cold -> NoDup (map fst (cold_to_warm_gen N aeqb trained cold dt thr)).
Proof.
  unfold cold_to_warm_gen. induction cold as [|c t IH]; intros Hnd; simpl; [constructor|].
  inversion Hnd as [|? ? Hn Ht]; subst. rewrite map_app. specialize (IH Ht).
  destruct (argmin_first N _) as [w|]; [|exact IH].
  destruct (leb N _ thr); [|exact IH]. simpl. constructor; [|exact IH].
  intros Hin. apply in_map_iff in Hin. destruct Hin as [[c' w'] [E Hin]]. simpl in E. subst c'.
  apply in_flat_map in Hin. destruct Hin as [c2 [Hc2 Hin]].
  destruct (argmin_first N _) as [w2|]; [|contradiction]. destruct (leb N _ thr); [|contradiction].
  destruct Hin as [Hin|[]]. injection Hin as -> ->. contradiction.
Qed.

Lemma NoDup_filter {T} (f : T -> bool) (l : list T) : NoDup l -> NoDup (filter f l).
Proof.
  induction 1 as [|x t Hn Ht IH]; simpl; [constructor|]. destruct (f x); [|exact IH].
  constructor; [|exact IH]. intros H. apply filter_In in H. apply Hn, H.
Qed.

Lemma trained_not_cold (s : cf) w : In w (trained_arms aeqb s) -> ~ In w (cold_arms aeqb s).
Proof.
  unfold trained_arms, cold_arms. intros H1 H2. apply filter_In in H1. apply filter_In in H2.
  destruct H1 as [_ H1]. destruct H2 as [_ H2]. rewrite H1 in H2. discriminate.
Qed.

(* what _copy_arms leaves in the cold arm's record, from the donor's (sw) and its own (sc) *)
Definition copied_stat (k : cfkind) (sw sc : @armst R) : @armst R :=
  match k with
  | KGreedy | KPopularity => mkArmst (s_sum sw) (s_count sw) (s_mean sc) (s_expo sc) (s_succ sc) (s_fail sc)
  | KUcb | KSoftmax => mkArmst (s_sum sw) (s_count sw) (s_mean sw) (s_expo sc) (s_succ sc) (s_fail sc)
  | KThompson => mkArmst (s_sum sc) (s_count sc) (s_mean sc) (s_expo sc) (s_succ sw) (s_fail sw)
  | KRandom => sc
  end.
Definition copies_exp (k : cfkind) : bool := match k with KGreedy | KPopularity | KUcb => true | _ => false end.

Lemma copy_arm_at (s : cf) c w : c_kind s <> KRandom ->
  aget aeqb (c_stats (copy_arm N aeqb s (c, w))) c
  = Some (copied_stat (c_kind s) (aget_d aeqb (armst0 N) (c_stats s) w) (aget_d aeqb (armst0 N) (c_stats s) c)) /\
  (copies_exp (c_kind s) = true -> aget aeqb (c_exp (copy_arm N aeqb s (c, w))) c = Some (aget_d aeqb (zero N) (c_exp s) w)).
Proof.
  intros Hk. unfold copy_arm, copied_stat, copies_exp.
  destruct (c_kind s); try congruence; simpl; rewrite ?(aget_aset_same aeqb aeqb_spec); split; try reflexivity; try discriminate.
Qed.

Lemma aget_d_eq {V} (d d' : list (A * V)) dflt a : aget aeqb d a = aget aeqb d' a -> aget_d aeqb dflt d a = aget_d aeqb dflt d' a.
Proof. unfold aget_d. intros ->. reflexivity. Qed.

Lemma fold_copy_kind' (m : list (A * A)) (s : cf) : c_kind (fold_left (copy_arm N aeqb) m s) = c_kind s.
Proof. revert s. induction m as [|cw t IH]; intros s; simpl; [reflexivity|]. rewrite IH. apply copy_arm_kind. Qed.

(* the order of the pairs does not matter: the donor is read as it was before the call *)
Lemma fold_copy_at (m : list (A * A)) (s : cf) c w :
  c_kind s <> KRandom -> NoDup (map fst m) -> In (c, w) m -> ~ In w (map fst m) ->
  aget aeqb (c_stats (fold_left (copy_arm N aeqb) m s)) c
  = Some (copied_stat (c_kind s) (aget_d aeqb (armst0 N) (c_stats s) w) (aget_d aeqb (armst0 N) (c_stats s) c)) /\
  (copies_exp (c_kind s) = true -> aget aeqb (c_exp (fold_left (copy_arm N aeqb) m s)) c = Some (aget_d aeqb (zero N) (c_exp s) w)).
Proof.
  revert s. induction m as [|[c1 w1] t IH]; intros s Hk Hnd Hin Hw; [contradiction|].
  cbn [map fst] in Hnd, Hw. inversion Hnd as [|? ? Hn1 Hnt]; subst. cbn [fold_left].
  destruct Hin as [Hin|Hin].
  - injection Hin as -> ->.
    destruct (fold_copy_other N aeqb aeqb_spec t (copy_arm N aeqb s (c, w)) c Hn1) as (F1 & F2 & _).
    rewrite F1, F2. apply copy_arm_at; exact Hk.
  - assert (Hc1 : c <> c1).
    { intros ->. apply Hn1. apply in_map_iff. exists (c1, w). split; [reflexivity | exact Hin]. }
    assert (Hw1 : w <> c1) by (intros ->; apply Hw; left; reflexivity).
    destruct (copy_arm_other N aeqb aeqb_spec s (c1, w1) c Hc1) as (C1 & C2 & _).
    destruct (copy_arm_other N aeqb aeqb_spec s (c1, w1) w Hw1) as (W1 & W2 & _).
    destruct (IH (copy_arm N aeqb s (c1, w1))) as [I1 I2];
      [rewrite copy_arm_kind; exact Hk | exact Hnt | exact Hin | intros H; apply Hw; right; exact H|].
    rewrite copy_arm_kind in I1, I2.
    rewrite (aget_d_eq _ _ (armst0 N) w W1), (aget_d_eq _ _ (armst0 N) c C1) in I1.
    rewrite (aget_d_eq _ _ (zero N) w W2) in I2. split; assumption.
Qed.

Lemma mark_warm_at (s : cf) c w :
  aget aeqb (c_status (mark_warm aeqb s (c, w))) c = Some (mkStatus (st_trained (aget_d aeqb status0 (c_status s) c)) true (Some w)).
Proof. unfold mark_warm. simpl. apply (aget_aset_same aeqb aeqb_spec). Qed.

Lemma fold_mark_at (m : list (A * A)) (s : cf) c w :
  NoDup (map fst m) -> In (c, w) m ->
  aget aeqb (c_status (fold_left (mark_warm aeqb) m s)) c = Some (mkStatus (st_trained (aget_d aeqb status0 (c_status s) c)) true (Some w)).
Proof.
  revert s. induction m as [|[c1 w1] t IH]; intros s Hnd Hin; [contradiction|].
  cbn [map fst] in Hnd. inversion Hnd as [|? ? Hn1 Hnt]; subst. cbn [fold_left].
  destruct Hin as [Hin|Hin].
  - injection Hin as -> ->.
    destruct (fold_mark_other aeqb aeqb_spec t (mark_warm aeqb s (c, w)) c Hn1) as (F1 & _). rewrite F1. apply mark_warm_at.
  - assert (Hc1 : c <> c1).
    { intros ->. apply Hn1. apply in_map_iff. exists (c1, w). split; [reflexivity | exact Hin]. }
    rewrite (IH (mark_warm aeqb s (c1, w1)) Hnt Hin).
    destruct (mark_warm_other aeqb aeqb_spec s (c1, w1) c Hc1) as (M1 & _).
    rewrite (aget_d_eq _ _ status0 c M1). reflexivity.
Qed.

(* the learned fields of the policy kind agree *)
Definition learned_eq (k : cfkind) (x y : @armst R) : Prop :=
  match k with
  | KGreedy | KPopularity => s_sum x = s_sum y /\ s_count x = s_count y
  | KUcb | KSoftmax => s_sum x = s_sum y /\ s_count x = s_count y /\ s_mean x = s_mean y
  | KThompson => s_succ x = s_succ y /\ s_fail x = s_fail y
  | KRandom => True
  end.

Lemma copied_stat_learned k sw sc : learned_eq k (copied_stat k sw sc) sw.
Proof. destruct k; simpl; auto. Qed.

Lemma fold_mark_stats (m : list (A * A)) (s : cf) :
  c_stats (fold_left (mark_warm aeqb) m s) = c_stats s /\ c_exp (fold_left (mark_warm aeqb) m s) = c_exp s.
Proof.
  revert s. induction m as [|[c w] t IH]; intros s; cbn [fold_left]; [auto|].
  destruct (IH (mark_warm aeqb s (c, w))) as [H1 H2]. rewrite H1, H2. split; reflexivity.
Qed.

(* sums, counts, means, successes and failures agree (the Softmax exponent is derived and recomputed) *)
Definition kept (x y : @armst R) : Prop :=
  s_sum x = s_sum y /\ s_count x = s_count y /\ s_mean x = s_mean y /\ s_succ x = s_succ y /\ s_fail x = s_fail y.

Theorem warm_started_arm_holds_the_donor_state (s s' : cf) keys raw q thr c w :
  NoDup (c_arms s) ->
  cf_warm_start N aeqb s keys raw q = Some s' -> c_kind s <> KRandom ->
  distance_threshold N (distance_table N aeqb keys raw) q = Some thr ->
  In (c, w) (cold_to_warm N aeqb s (distance_table N aeqb keys raw) thr) ->
  (* the cold arm holds the donor's learned state as it was before the call *)
  (exists st, aget aeqb (c_stats s') c = Some st /\ learned_eq (c_kind s) st (aget_d aeqb (armst0 N) (c_stats s) w)) /\
  (copies_exp (c_kind s) = true -> aget aeqb (c_exp s') c = Some (aget_d aeqb (zero N) (c_exp s) w)) /\
  (* it is marked as warm-started by that donor, and its trained flag is kept *)
  aget aeqb (c_status s') c = Some (mkStatus (st_trained (aget_d aeqb status0 (c_status s) c)) true (Some w)) /\
  (* the donor keeps its sums, counts, means, successes and failures, and its status *)
  (forall sw, aget aeqb (c_stats s) w = Some sw -> exists sw', aget aeqb (c_stats s') w = Some sw' /\ kept sw' sw) /\
  aget aeqb (c_status s') w = aget aeqb (c_status s) w.
Proof.
  intros Hnd H Hk Ht Hin. unfold cf_warm_start in H. rewrite Ht in H.
  set (dt := distance_table N aeqb keys raw) in *.
  set (m := cold_to_warm N aeqb s dt thr) in *.
  assert (Hm : NoDup (map fst m)) by (apply cold_to_warm_gen_nodup, NoDup_filter, Hnd).
  destruct (cold_to_warm_gen_fst N aeqb _ _ _ _ _ _ Hin) as [Hc Hwt].
  assert (Hw : ~ In w (map fst m)).
  { intros Hx. apply (trained_not_cold s w Hwt). eapply cold_to_warm_keys_cold; exact Hx. }
  destruct (fold_copy_at m s c w Hk Hm Hin Hw) as [C1 C2].
  destruct (fold_copy_other N aeqb aeqb_spec m s w Hw) as (W1 & W2 & W3).
  set (s1 := fold_left (copy_arm N aeqb) m s) in *.
  (* the state the marks are applied to *)
  assert (Hgen : forall s2, s' = fold_left (mark_warm aeqb) m s2 -> c_status s2 = c_status s1 ->
            (exists st, aget aeqb (c_stats s2) c = Some st /\ learned_eq (c_kind s) st (aget_d aeqb (armst0 N) (c_stats s) w)) ->
            (copies_exp (c_kind s) = true -> aget aeqb (c_exp s2) c = Some (aget_d aeqb (zero N) (c_exp s) w)) ->
            (forall sw, aget aeqb (c_stats s) w = Some sw -> exists sw', aget aeqb (c_stats s2) w = Some sw' /\ kept sw' sw) ->
            (exists st, aget aeqb (c_stats s') c = Some st /\ learned_eq (c_kind s) st (aget_d aeqb (armst0 N) (c_stats s) w)) /\
            (copies_exp (c_kind s) = true -> aget aeqb (c_exp s') c = Some (aget_d aeqb (zero N) (c_exp s) w)) /\
            aget aeqb (c_status s') c = Some (mkStatus (st_trained (aget_d aeqb status0 (c_status s) c)) true (Some w)) /\
            (forall sw, aget aeqb (c_stats s) w = Some sw -> exists sw', aget aeqb (c_stats s') w = Some sw' /\ kept sw' sw) /\
            aget aeqb (c_status s') w = aget aeqb (c_status s) w).
  { intros s2 -> Est G1 G2 G3. destruct (fold_mark_stats m s2) as [F1 F2]. rewrite F1, F2.
    split; [exact G1|]. split; [exact G2|]. split; [|split; [exact G3|]].
    - rewrite (fold_mark_at m s2 c w Hm Hin). unfold aget_d. rewrite Est, W3. reflexivity.
    - destruct (fold_mark_other aeqb aeqb_spec m s2 w Hw) as (M1 & _). rewrite M1, Est, W3. reflexivity. }
  assert (Hplain : c_kind s <> KSoftmax -> s' = fold_left (mark_warm aeqb) m s1 ->
            (exists st, aget aeqb (c_stats s') c = Some st /\ learned_eq (c_kind s) st (aget_d aeqb (armst0 N) (c_stats s) w)) /\
            (copies_exp (c_kind s) = true -> aget aeqb (c_exp s') c = Some (aget_d aeqb (zero N) (c_exp s) w)) /\
            aget aeqb (c_status s') c = Some (mkStatus (st_trained (aget_d aeqb status0 (c_status s) c)) true (Some w)) /\
            (forall sw, aget aeqb (c_stats s) w = Some sw -> exists sw', aget aeqb (c_stats s') w = Some sw' /\ kept sw' sw) /\
            aget aeqb (c_status s') w = aget aeqb (c_status s) w).
  { intros _ E. apply (Hgen s1 E eq_refl).
    - eexists. split; [exact C1 | apply copied_stat_learned].
    - exact C2.
    - intros sw Hsw. exists sw. rewrite W1. split; [exact Hsw | unfold kept; auto]. }
  destruct (c_kind s) eqn:Ek; try congruence; injection H as H; symmetry in H.
  - apply Hplain; [discriminate | exact H].
  - apply Hplain; [discriminate | exact H].
  - (* Softmax: the recomputation keeps sum, count and mean *)
    apply (Hgen _ H); [reflexivity | | intros X; discriminate X |].
    + rewrite (softmax_expectation_stats N aeqb aeqb_spec), C1. eexists. split; [reflexivity|]. simpl. auto.
    + intros sw Hsw. rewrite (softmax_expectation_stats N aeqb aeqb_spec), W1, Hsw. eexists. split; [reflexivity|]. unfold kept; simpl; auto.
  - apply Hplain; [discriminate | exact H].
  - apply Hplain; [discriminate | exact H].
Qed.


(* ---- linear policies: the cold arm's regression object is the donor's ----------------------------------------- *)
Definition donor_copy (g : G) (mw : @ridge R G) : @ridge R G :=
  mkRidge (r_beta mw) (r_A mw) (r_Ainv mw) (r_Xty mw) (r_scaler mw) (Some (match r_rng mw with Some g' => g' | None => g end)).

Lemma lin_fold_copy_at g (m : list (A * A)) (s : lin) c w :
  NoDup (map fst m) -> In (c, w) m -> ~ In w (map fst m) ->
  aget aeqb (l_models (fold_left (lin_copy_arm aeqb g) m s)) c = Some (donor_copy g (aget_d aeqb ridge_new (l_models s) w)).
Proof.
  revert s. induction m as [|[c1 w1] t IH]; intros s Hnd Hin Hw; [contradiction|].
  cbn [map fst] in Hnd, Hw. inversion Hnd as [|? ? Hn1 Hnt]; subst. cbn [fold_left].
  destruct Hin as [Hin|Hin].
  - injection Hin as -> ->.
    destruct (lin_fold_copy_other aeqb aeqb_spec g t (lin_copy_arm aeqb g s (c, w)) c Hn1) as (F1 & _).
    rewrite F1. unfold lin_copy_arm. cbn [l_models set_models]. apply (aget_aset_same aeqb aeqb_spec).
  - assert (Hw1 : w <> c1) by (intros ->; apply Hw; left; reflexivity).
    destruct (lin_copy_other aeqb aeqb_spec g s (c1, w1) w Hw1) as (W1 & _).
    rewrite (IH (lin_copy_arm aeqb g s (c1, w1)) Hnt Hin (fun H => Hw (or_intror H))).
    rewrite (aget_d_eq _ _ ridge_new w W1). reflexivity.
Qed.

Lemma lin_fold_mark_at (m : list (A * A)) (s : lin) c w :
  NoDup (map fst m) -> In (c, w) m ->
  aget aeqb (l_status (fold_left (lin_mark_warm aeqb) m s)) c = Some (mkStatus (st_trained (aget_d aeqb status0 (l_status s) c)) true (Some w)).
Proof.
  revert s. induction m as [|[c1 w1] t IH]; intros s Hnd Hin; [contradiction|].
  cbn [map fst] in Hnd. inversion Hnd as [|? ? Hn1 Hnt]; subst. cbn [fold_left].
  destruct Hin as [Hin|Hin].
  - injection Hin as -> ->.
    destruct (lin_fold_mark_other aeqb aeqb_spec t (lin_mark_warm aeqb s (c, w)) c Hn1) as (F1 & _). rewrite F1.
    unfold lin_mark_warm. cbn [l_status set_lstatus]. apply (aget_aset_same aeqb aeqb_spec).
  - assert (Hc1 : c <> c1).
    { intros ->. apply Hn1. apply in_map_iff. exists (c1, w). split; [reflexivity | exact Hin]. }
    rewrite (IH (lin_mark_warm aeqb s (c1, w1)) Hnt Hin).
    destruct (lin_mark_other aeqb aeqb_spec s (c1, w1) c Hc1) as (M1 & _).
    rewrite (aget_d_eq _ _ status0 c M1). reflexivity.
Qed.

Theorem lin_warm_started_arm_holds_the_donor_regression (s s' : lin) g keys raw q thr c w :
  NoDup (l_arms s) ->
  lin_warm_start N aeqb s g keys raw q = Some s' ->
  distance_threshold N (distance_table N aeqb keys raw) q = Some thr ->
  In (c, w) (cold_to_warm_gen N aeqb (lin_trained_arms aeqb s) (lin_cold_arms aeqb s) (distance_table N aeqb keys raw) thr) ->
  (* beta, A, A_inv, X'y and the scaler of the donor as they were before the call; a private generator *)
  aget aeqb (l_models s') c = Some (donor_copy g (aget_d aeqb ridge_new (l_models s) w)) /\
  aget aeqb (l_status s') c = Some (mkStatus (st_trained (aget_d aeqb status0 (l_status s) c)) true (Some w)) /\
  (* the donor is untouched *)
  aget aeqb (l_models s') w = aget aeqb (l_models s) w /\ aget aeqb (l_status s') w = aget aeqb (l_status s) w.
Proof.
  intros Hnd H Ht Hin. unfold lin_warm_start in H. rewrite Ht in H. injection H as <-.
  set (m := cold_to_warm_gen N aeqb (lin_trained_arms aeqb s) (lin_cold_arms aeqb s) (distance_table N aeqb keys raw) thr) in *.
  assert (Hm : NoDup (map fst m)) by (apply cold_to_warm_gen_nodup, NoDup_filter, Hnd).
  destruct (cold_to_warm_gen_fst N aeqb _ _ _ _ _ _ Hin) as [Hc Hwt].
  assert (Hw : ~ In w (map fst m)).
  { intros Hx. apply in_map_iff in Hx. destruct Hx as [[c2 w2] [E Hx]]. simpl in E. subst c2.
    apply (cold_to_warm_gen_fst N aeqb) in Hx. destruct Hx as [Hx _].
    unfold lin_trained_arms, lin_cold_arms in *. apply filter_In in Hwt. apply filter_In in Hx.
    destruct Hwt as [_ H1]. destruct Hx as [_ H2]. rewrite H1 in H2. discriminate. }
  destruct (lin_fold_copy_other aeqb aeqb_spec g m s w Hw) as [W1 W2].
  set (s1 := fold_left (lin_copy_arm aeqb g) m s) in *.
  destruct (lin_fold_mark_other aeqb aeqb_spec m s1 w Hw) as [M1 M2].
  split. { rewrite M2. apply lin_fold_copy_at; assumption. }
  split.
  { rewrite (lin_fold_mark_at m s1 c w Hm Hin).
    assert (Est : l_status s1 = l_status s).
    { unfold s1. clear. generalize s. induction m as [|[c1 w1] t IH]; intros s0; cbn [fold_left]; [reflexivity|]. rewrite IH. reflexivity. }
    unfold aget_d. rewrite Est. reflexivity. }
  split; [rewrite M2; exact W1 | rewrite M1, W2; reflexivity].
Qed.

End WarmDonor.
