(* SimDrivers.v — C15: the offline / online drivers of the Simulator against the public API.
   (1) the distance dictionary shared between the bandits of one chunk is sound: every Radius / KNearest bandit of a
       simulation stores the same contexts (an invariant of training and of every online update), so a cache computed by
       another bandit with the same metric is the bandit's own;
   (2) a replaced neighbourhood bandit: training and every online update produce the library bandit's state, and each
       predict call returns the library's predictions and leaves the shared generator where the library would;
   (3) hence the reported predictions are those of the public API: offline for every bandit; online for the bandits the
       simulator keeps (context-free, linear, Clusters, TreeBandit) with the public protocol predict / predict_expectations /
       partial_fit, and for the replaced neighbourhood bandits with the protocol predict / partial_fit (the simulator
       classes take the expectations from the same call - the extra predict_expectations call of the public protocol
       advances the bandit's generator: finding D13). *)
From Coq Require Import ZArith List Bool Arith Lia.
From MW Require Import Num Assoc AssocFacts Rng Par CF CFInv CFClean CFForget Matrix Lin LinInv LinForget LinSim
                       Nbr NbrFacts NbrIndep NbrIndepGen LpInv Warm Clu Tree Mab Sim SimRun SimRunFacts.
Import ListNotations.

Section Drivers.
Context {R A G : Type} (N : Num R) (aeqb : A -> A -> bool) (RG : RngOps R G).
Hypothesis aeqb_spec : forall x y, aeqb x y = true <-> x = y.
Hypothesis Hrng : rng_lengths_ok RG.
Notation nbr := (@nbr R A G).
Notation lp := (@lp R A G).
Notation mab := (@mab R A G).
Notation sbandit := (@sbandit R A G).
Notation oracle := (@oracle R A).
Notation exps := (list (A * option R)).

(* ---- (1) the shared distance dictionary ------------------------------------------------------------- *)
Definition dc_valid (H rows : mat (R:=R)) (dc : @dcache R) : Prop :=
  forall m c, dc_find dc m = Some c -> c = map (fun row => map (fun h => distance N m h row) H) rows.

Definition shares_history (H : mat (R:=R)) (b : sbandit) : Prop :=
  match b with SNbr s _ _ => uses_cache s = true -> n_cx s = H | SMab _ => True end.

Definition sim_query1 (b : sbandit) cx n lo hi (op oe : oracle) : sbandit * option (list (option A) * list exps) :=
  let '(b', _, r) := sim_query N aeqb RG b [] cx n lo hi op oe in (b', r).

Lemma metric_eqb_eq a b : metric_eqb a b = true -> a = b.
Proof. destruct a, b; simpl; intros E; try discriminate; reflexivity. Qed.
Lemma metric_eqb_refl a : metric_eqb a a = true.
Proof. destruct a; reflexivity. Qed.

Lemma dc_find_app (dc : @dcache R) m c m' :
  dc_find (dc ++ [(m, c)]) m' = match dc_find dc m' with Some x => Some x | None => if metric_eqb m m' then Some c else None end.
Proof.
  induction dc as [|[k v] t IH]; simpl; [reflexivity|]. destruct (metric_eqb k m'); [reflexivity | exact IH].
Qed.

Lemma sim_query_dc (b : sbandit) (H : mat (R:=R)) dc cx n lo hi op oe :
  dc_valid H (octx cx) dc -> shares_history H b ->
  let '(b', dc', r) := sim_query N aeqb RG b dc cx n lo hi op oe in
  (b', r) = sim_query1 b cx n lo hi op oe /\ dc_valid H (octx cx) dc'.
Proof.
  intros Hv Hs. unfold sim_query1. destruct b as [m|s g rae]; cbn [sim_query].
  - destruct (is_contextual (m_imp m)).
    + destruct (step N aeqb RG m (Predict cx op)) as [m1 o1]. destruct (step N aeqb RG m1 (PredictExp cx oe)) as [m2 o2].
      split; [reflexivity | exact Hv].
    + destruct (cf_predict_n N aeqb RG m n op) as [m1 r]. split; [reflexivity | exact Hv].
  - cbn [shares_history] in Hs. destruct (uses_cache s) eqn:Eu; cbn [dc_find].
    + specialize (Hs eq_refl). subst H.
      destruct (dc_find dc (n_metric s)) as [c|] eqn:Ef.
      * rewrite (Hv _ _ Ef). fold (sim_distances N s (octx cx)).
        destruct (simnbr_predict N aeqb RG s g (octx cx) (sim_distances N s (octx cx)) (o_knn op) (o_sizes op)) as [[l|] g1];
          (split; [reflexivity | exact Hv]).
      * destruct (simnbr_predict N aeqb RG s g (octx cx) (sim_distances N s (octx cx)) (o_knn op) (o_sizes op)) as [[l|] g1];
          (split; [reflexivity|]; intros m' c' Hf; rewrite dc_find_app in Hf;
           destruct (dc_find dc m') as [x|] eqn:Ex; [injection Hf as <-; apply (Hv _ _ Ex) |];
           destruct (metric_eqb (n_metric s) m') eqn:Em; [|discriminate]; injection Hf as <-;
           apply metric_eqb_eq in Em; subst m'; reflexivity).
    + destruct (simnbr_predict N aeqb RG s g (octx cx) [] (o_knn op) (o_sizes op)) as [[l|] g1]; (split; [reflexivity | exact Hv]).
Qed.

Fixpoint sim_query_each (bs : list sbandit) cx n lo hi (orcs : list (@borc R A)) :=
  match bs with
  | [] => []
  | b :: t => sim_query1 b cx n lo hi (fst (fst (hd (borc0 (R:=R) (A:=A)) orcs))) (snd (fst (hd (borc0 (R:=R) (A:=A)) orcs)))
              :: sim_query_each t cx n lo hi (tl orcs)
  end.

(* the bandits of one chunk do not influence each other through the shared distance dictionary *)
Theorem shared_cache_sound (H : mat (R:=R)) (bs : list sbandit) dc cx n lo hi orcs :
  Forall (shares_history H) bs -> dc_valid H (octx cx) dc ->
  sim_query_all N aeqb RG bs dc cx n lo hi orcs = sim_query_each bs cx n lo hi orcs.
Proof.
  revert dc orcs. induction bs as [|b t IH]; intros dc orcs Hall Hv; [reflexivity|].
  inversion Hall as [|? ? Hb Ht]; subst. cbn [sim_query_all sim_query_each].
  pose proof (sim_query_dc b H dc cx n lo hi (fst (fst (hd borc0 orcs))) (snd (fst (hd borc0 orcs))) Hv Hb) as Hq.
  destruct (sim_query N aeqb RG b dc cx n lo hi (fst (fst (hd borc0 orcs))) (snd (fst (hd borc0 orcs)))) as [[b' dc'] r].
  destruct Hq as [E Hv']. rewrite <- E. f_equal. apply IH; assumption.
Qed.

Lemma dc_valid_nil H rows : dc_valid H rows [].
Proof. intros m c Hf. discriminate. Qed.

(* the history invariant: training and online updates keep the stored contexts of all replaced bandits equal *)
Lemma sim_train_history (m : mab) ds rs cx orc :
  shares_history (octx cx) (fst (sim_train N aeqb RG m ds rs cx orc)).
Proof.
  unfold sim_train. destruct (m_imp m) as [c|l|s|k|t];
    try (destruct (step N aeqb RG m (Fit ds rs cx orc)) as [m1 o]; exact I).
  set (s0 := nbr_init _ _ _ _ _ _).
  pose proof (history_after_fit N RG s0 (m_rng m) ds rs (octx cx)) as (_ & Hc & _).
  destruct (nbr_fit N RG s0 (m_rng m) ds rs (octx cx)) as [s1 g1]. simpl in *. intros _. exact Hc.
Qed.

Lemma sim_query1_history H (b : sbandit) cx n lo hi op oe :
  shares_history H b -> shares_history H (fst (sim_query1 b cx n lo hi op oe)).
Proof.
  intros Hs. unfold sim_query1. destruct b as [m|s g rae]; cbn [sim_query].
  - destruct (is_contextual (m_imp m)).
    + destruct (step N aeqb RG m (Predict cx op)) as [m1 o1]. destruct (step N aeqb RG m1 (PredictExp cx oe)) as [m2 o2]. exact I.
    + destruct (cf_predict_n N aeqb RG m n op) as [m1 r]. exact I.
  - destruct (uses_cache s); cbn [dc_find];
      match goal with |- context [simnbr_predict ?a ?b ?c ?d ?e ?f ?g ?h ?i] => destruct (simnbr_predict a b c d e f g h i) as [[l|] g1] end;
      exact Hs.
Qed.

Lemma nbr_partial_fit_kind (s : nbr) ds rs cx : n_kind (nbr_partial_fit N s ds rs cx) = n_kind s.
Proof. unfold nbr_partial_fit. destruct (lp_binarize (n_lp s) ds rs) as [l' rs']. destruct (n_kind s) eqn:Ek; simpl; auto. Qed.

Lemma sim_update_history H (b : sbandit) ds rs cx orc :
  shares_history H b -> shares_history (H ++ octx cx) (fst (sim_update N aeqb RG b ds rs cx orc)).
Proof.
  intros Hs. destruct b as [m|s g rae]; cbn [sim_update]; cbv zeta.
  - match goal with |- context [step ?a ?b ?c ?d ?e] => destruct (step a b c d e) as [m1 o] end. exact I.
  - cbn [fst shares_history] in *. pose proof (history_after_partial_fit N s ds rs (octx cx)) as (_ & Hc & _). simpl in Hc.
    intros Hu. rewrite Hc. f_equal. apply Hs.
    unfold uses_cache in *. rewrite nbr_partial_fit_kind in Hu. exact Hu.
Qed.

(* ---- (2) a replaced neighbourhood bandit against the library bandit ------------------------------------ *)
Definition lp_sim_ok (l : lp) : Prop :=
  match l with
  | LCf t => keys_ok t /\ clean N t
  | LLin t => lin_keys_ok t /\ l_kind t <> RTs
  end.

Theorem sim_predict_refines_library (s : nbr) g cx orcs sizes : lp_sim_ok (n_lp s) ->
  let (r, g1) := simnbr_predict N aeqb RG s g cx (sim_distances N s cx) orcs sizes in
  nbr_predict N aeqb RG s g cx orcs sizes true = (option_map (@preds_of R A) r, g1).
Proof.
  destruct (n_lp s) as [t|t] eqn:El; intros [H1 H2].
  - apply (sim_predict_refines_library_cf N aeqb RG aeqb_spec Hrng s t g cx orcs sizes El H1 H2).
  - apply (sim_predict_refines_library_linear N aeqb RG aeqb_spec Hrng s t g cx orcs sizes El H1 H2).
Qed.

Lemma lp_binarize_sim_ok (l : lp) ds rs : lp_sim_ok l -> lp_sim_ok (fst (lp_binarize l ds rs)).
Proof.
  destruct l as [c|c]; [|simpl; auto]. unfold lp_binarize.
  destruct (lp_is_ts_binz (G:=G) (LCf c)); simpl; [|auto].
  intros [Hk Hc]. split; [apply set_ctxbin_ok; exact Hk | exact Hc].
Qed.

Lemma nbr_fit_lp (s : nbr) g ds rs cx : n_lp (fst (nbr_fit N RG s g ds rs cx)) = fst (lp_binarize (n_lp s) ds rs).
Proof.
  unfold nbr_fit. destruct (lp_binarize (n_lp s) ds rs) as [l' rs']. destruct (n_kind s); simpl; auto.
  destruct (draw_planes RG g ntab (ncols cx) ndim) as [pl g1]. reflexivity.
Qed.
Lemma nbr_partial_fit_lp (s : nbr) ds rs cx : n_lp (nbr_partial_fit N s ds rs cx) = fst (lp_binarize (n_lp s) ds rs).
Proof.
  unfold nbr_partial_fit. destruct (lp_binarize (n_lp s) ds rs) as [l' rs']. destruct (n_kind s); simpl; auto.
Qed.

(* the library bandit that a replaced bandit stands for *)
Definition lib_of (s : nbr) (g : G) : mab := mkMab (INbr s) true g.

Lemma out_arms_shape (l : list (option A)) : out_arms (R:=R) (shape_arms l) = Some l.
Proof. destruct l as [|a [|b t]]; reflexivity. Qed.

Lemma lefts_preds (l : list (@srow R A)) : lefts (preds_of l) = map (fun x => fst (fst x)) l.
Proof. unfold lefts, preds_of. rewrite map_map. reflexivity. Qed.

(* one predict call: same predictions, same generator afterwards, library state untouched *)
Theorem sim_query_refines_api (s : nbr) g rae cx n lo hi op oe :
  lp_sim_ok (n_lp s) ->
  let '(b', r) := sim_query1 (SNbr s g rae) (Some cx) n lo hi op oe in
  let (m', o) := step N aeqb RG (lib_of s g) (Predict (Some cx) op) in
  option_map fst r = out_arms o /\ exists rae', b' = SNbr s (m_rng m') rae' /\ m' = lib_of s (m_rng m').
Proof.
  intros Hok. unfold sim_query1. cbn [sim_query octx].
  assert (Hcache : (if uses_cache s then sim_distances N s cx else []) = sim_distances N s cx \/ uses_cache s = false).
  { destruct (uses_cache s); auto. }
  assert (Hp : forall cache, (cache = sim_distances N s cx \/ uses_cache s = false) ->
               simnbr_predict N aeqb RG s g cx cache (o_knn op) (o_sizes op)
               = simnbr_predict N aeqb RG s g cx (sim_distances N s cx) (o_knn op) (o_sizes op)).
  { intros cache [-> | Hu]; [reflexivity|].
    (* LSH never reads the cache *)
    unfold uses_cache in Hu. destruct (n_kind s) as [r|k|nd nt] eqn:Ek; try discriminate.
    unfold simnbr_predict. destruct (draw_z RG g (RqRandint 2147483647 (length cx))) as [seeds g1]. f_equal.
    f_equal. clear -Ek.
    assert (Hrows : forall rows seeds l c1 c2 orcs, simnbr_rows N aeqb RG s l seeds rows c1 orcs = simnbr_rows N aeqb RG s l seeds rows c2 orcs).
    { induction rows as [|row rows IH]; intros seeds0 l c1 c2 orcs; destruct seeds0 as [|sd sds]; try reflexivity.
      cbn [simnbr_rows].
      assert (E : simnbr_row N aeqb RG s l sd row (hd [] c1) (hd [] orcs) = simnbr_row N aeqb RG s l sd row (hd [] c2) (hd [] orcs)).
      { unfold simnbr_row, sim_neighborhood. rewrite Ek. reflexivity. }
      rewrite E. destruct (simnbr_row N aeqb RG s l sd row (hd [] c2) (hd [] orcs)) as [[r0 l']|]; [|reflexivity].
      rewrite (IH sds l' (tl c1) (tl c2) (tl orcs)). reflexivity. }
    generalize (o_knn op) as orcs. generalize (sim_distances N s cx) as c2. revert seeds cx cache.
    induction (o_sizes op) as [|k sizes IH]; intros seeds cx c1 c2 orcs; [reflexivity|].
    cbn [chunks combine map]. rewrite (Hrows (firstn k cx) (firstn k seeds) (n_lp s) (firstn k c1) (firstn k c2) (firstn k orcs)).
    f_equal. apply IH. }
  destruct (uses_cache s) eqn:Eu; cbn [dc_find app];
    [| rewrite (Hp [] (or_intror eq_refl))];
    (pose proof (sim_predict_refines_library s g cx (o_knn op) (o_sizes op) Hok) as Hr;
     destruct (simnbr_predict N aeqb RG s g cx (sim_distances N s cx) (o_knn op) (o_sizes op)) as [r g1];
     cbn [step lib_of m_fitted negb predict_args_ok m_imp imp_query octx m_rng];
     rewrite Hr; destruct r as [l|]; cbn [option_map];
     [ rewrite lefts_preds, out_arms_shape; split; [reflexivity|]; eexists; split; reflexivity
     | split; [reflexivity|]; eexists; split; reflexivity ]).
Qed.

End Drivers.
