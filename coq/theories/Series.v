(* Series.v — mab.py: contexts given as a pandas Series (MAB.__convert_context, the only container whose reading depends on
   the state of the bandit).  A Series holds a flat list of values; whether it is ONE ROW of several features or SEVERAL ROWS
   of one feature is decided
     - in fit / partial_fit by the number of decisions (more than one: a column),
     - in predict / predict_expectations by the number of features the bandit remembers: the size of the first arm's
       coefficient vector (linear policy alone), the width of the stored contexts (neighbourhood policies, Clusters), the
       width the fitted tree of a CURRENT arm was trained on (TreeBandit; none of the current arms may have one); a context-free
       bandit has none and the call raises.
   [sstep] is the facade with such calls; everything else is [step] of Mab.v on the converted contexts. *)
From Coq Require Import ZArith List Bool.
From MW Require Import Num Assoc Rng CF Warm Matrix Lin Nbr Clu Tree Mab.
Import ListNotations.

Section Series.
Context {R A G : Type} (N : Num R) (aeqb : A -> A -> bool) (RG : RngOps R G).

Definition as_column (vals : list R) : list (list R) := map (fun v => [v]) vals.
Definition as_row (vals : list R) : list (list R) := [vals].

(* the feature count __convert_context reads from the bandit; None = the look-up raises *)
Definition mab_num_features (m : @mab R A G) : option nat :=
  match m_imp m with
  | ICf _ => None                                            (* no attribute `contexts` *)
  | ILin s => match l_arms s with
              | a :: _ => Some (length (r_beta (aget_d aeqb ridge_new (l_models s) a)))   (* arm_to_model[first_arm].beta.size *)
              | [] => None
              end
  | INbr s => Some (ncols (n_cx s))                          (* _imp.contexts.shape[1] *)
  | IClu s => Some (ncols (k_cx s))
  | ITree s =>                                               (* a fitted tree of one of the CURRENT arms; none: the call raises *)
      if existsb (fun a => match aget_d aeqb [] (t_leaves s) a with [] => false | _ => true end) (t_arms s) then t_nf s else None
  end.

Inductive sop : Type :=
| SPlain (o : @op R A)
| SFitS (ds : list A) (rs : list R) (vals : list R) (orc : @oracle R A)
| SPartialFitS (ds : list A) (rs : list R) (vals : list R) (orc : @oracle R A)
| SPredictS (vals : list R) (orc : @oracle R A)
| SPredictExpS (vals : list R) (orc : @oracle R A).

(* _validate_fit_args on the raw Series: as many values as decisions, or a single decision *)
Definition series_fit_ok (ds : list A) (vals : list R) : bool :=
  Nat.eqb (length ds) (length vals) || Nat.eqb (length ds) 1.

Definition convert_fit_series (ds : list A) (vals : list R) : list (list R) :=
  if Nat.ltb 1 (length ds) then as_column vals else as_row vals.

Definition convert_query_series (nf : nat) (vals : list R) : list (list R) :=
  if Nat.eqb nf 1 then as_column vals else as_row vals.

(* MAB._validate_context_width (fix D26): predict / predict_expectations reject contexts of another width than the bandit was trained
   on BEFORE the policy - and its random generator - is touched.  [vstep] is [step] behind that validation. *)
Definition query_shape_ok (i : @imp R A G) (cx : option (@ctxs R)) : bool :=
  match octx cx with
  | [] => true
  | _ :: _ =>
      match i with
      | ICf _ => true
      | ILin s => match l_nf s with Some d => Nat.eqb d (ncols (octx cx)) | None => true end
      | INbr s => width_ok (n_cx s) (octx cx)
      | IClu s => width_ok (k_cx s) (octx cx)
      | ITree s => match t_nf s with Some d => Nat.eqb d (ncols (octx cx)) | None => true end
      end
  end.

Definition vstep (m : @mab R A G) (o : @op R A) : @mab R A G * @out R A :=
  match o with
  | Predict cx _ | PredictExp cx _ => if query_shape_ok (m_imp m) cx then step N aeqb RG m o else (m, ORejected)
  | _ => step N aeqb RG m o
  end.

Definition sstep (m : @mab R A G) (o : sop) : @mab R A G * @out R A :=
  match o with
  | SPlain o => vstep m o
  | SFitS ds rs vals orc =>
      if series_fit_ok ds vals then step N aeqb RG m (Fit ds rs (Some (convert_fit_series ds vals)) orc) else (m, ORejected)
  | SPartialFitS ds rs vals orc =>
      if series_fit_ok ds vals then step N aeqb RG m (PartialFit ds rs (Some (convert_fit_series ds vals)) orc) else (m, ORejected)
  | SPredictS vals orc =>
      if negb (m_fitted m) then (m, ORejected) else
      match mab_num_features m with
      | None => (m, ORejected)
      | Some nf => vstep m (Predict (Some (convert_query_series nf vals)) orc)
      end
  | SPredictExpS vals orc =>
      if negb (m_fitted m) then (m, ORejected) else
      match mab_num_features m with
      | None => (m, ORejected)
      | Some nf => vstep m (PredictExp (Some (convert_query_series nf vals)) orc)
      end
  end.

Fixpoint srun (m : @mab R A G) (ops : list sop) : @mab R A G * list (@out R A) :=
  match ops with
  | [] => (m, [])
  | o :: t => let (m1, r) := sstep m o in let (m2, rs) := srun m1 t in (m2, r :: rs)
  end.

(* ---- what the layer guarantees -------------------------------------------------------------------------------- *)
(* every call with a Series either changes nothing or is the same call with a 2-D array *)
(* the validation either lets the call through unchanged or rejects it without touching anything *)
Theorem vstep_is_step_or_rejects_unchanged (m : @mab R A G) (o : @op R A) :
  vstep m o = step N aeqb RG m o \/ vstep m o = (m, ORejected).
Proof. destruct o; cbn [vstep]; try (left; reflexivity); destruct (query_shape_ok (m_imp m) cx); [left | right | left | right]; reflexivity. Qed.

(* C17: a query of another width is rejected and leaves the bandit - generator included - as it was *)
Theorem query_of_another_width_is_rejected_unchanged (m : @mab R A G) cx orc :
  query_shape_ok (m_imp m) cx = false ->
  vstep m (Predict cx orc) = (m, ORejected) /\ vstep m (PredictExp cx orc) = (m, ORejected).
Proof. intros H. cbn [vstep]. rewrite H. split; reflexivity. Qed.

Theorem series_call_is_an_array_call (m : @mab R A G) (o : sop) :
  (exists o', sstep m o = step N aeqb RG m o') \/ sstep m o = (m, ORejected).
Proof.
  assert (V : forall o', (exists o'', vstep m o' = step N aeqb RG m o'') \/ vstep m o' = (m, ORejected)).
  { intros o'. destruct (vstep_is_step_or_rejects_unchanged m o') as [E|E]; [left; eexists; exact E | right; exact E]. }
  destruct o as [o|ds rs vals orc|ds rs vals orc|vals orc|vals orc]; cbn [sstep].
  - apply V.
  - destruct (series_fit_ok ds vals); [left; eexists; reflexivity | right; reflexivity].
  - destruct (series_fit_ok ds vals); [left; eexists; reflexivity | right; reflexivity].
  - destruct (negb (m_fitted m)); [right; reflexivity|]. destruct (mab_num_features m); [apply V | right; reflexivity].
  - destruct (negb (m_fitted m)); [right; reflexivity|]. destruct (mab_num_features m); [apply V | right; reflexivity].
Qed.

(* a Series query is answered exactly as the array the remembered feature count dictates: several rows of one feature
   when the bandit was trained on ONE feature, one row otherwise *)
Theorem series_query_is_read_by_the_trained_width (m : @mab R A G) vals orc nf :
  m_fitted m = true -> mab_num_features m = Some nf ->
  sstep m (SPredictExpS vals orc) = vstep m (PredictExp (Some (if Nat.eqb nf 1 then as_column vals else as_row vals)) orc) /\
  sstep m (SPredictS vals orc) = vstep m (Predict (Some (if Nat.eqb nf 1 then as_column vals else as_row vals)) orc).
Proof. intros Hf Hn. cbn [sstep]. rewrite Hf, Hn. split; reflexivity. Qed.

(* training: a column when there are several decisions, one row for a single decision; anything else is rejected unchanged *)
Theorem series_training_is_read_by_the_number_of_decisions (m : @mab R A G) ds rs vals orc :
  (1 < length ds -> length vals = length ds -> sstep m (SFitS ds rs vals orc) = step N aeqb RG m (Fit ds rs (Some (as_column vals)) orc)) /\
  (length ds = 1 -> sstep m (SFitS ds rs vals orc) = step N aeqb RG m (Fit ds rs (Some (as_row vals)) orc)) /\
  (length ds <> 1 -> length vals <> length ds -> sstep m (SFitS ds rs vals orc) = (m, ORejected)).
Proof.
  cbn [sstep]. unfold series_fit_ok, convert_fit_series. repeat split.
  - intros H1 H2. rewrite H2, Nat.eqb_refl. cbn [orb]. destruct (Nat.ltb_spec 1 (length ds)); [reflexivity | exfalso; apply (Nat.lt_irrefl 1); eapply Nat.lt_le_trans; eassumption].
  - intros H1. rewrite H1. cbn [Nat.eqb Nat.ltb Nat.leb]. rewrite Bool.orb_true_r. reflexivity.
  - intros H1 H2. destruct (Nat.eqb_spec (length ds) (length vals)) as [E|_]; [exfalso; apply H2; symmetry; exact E|].
    destruct (Nat.eqb_spec (length ds) 1) as [E|_]; [contradiction | reflexivity].
Qed.

End Series.
