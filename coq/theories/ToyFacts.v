(* ToyFacts.v — the toy generator of QcInst meets the generator hypotheses used by the theorems
   (non-vacuity of those hypotheses). *)
From Coq Require Import ZArith List Bool QArith Qcanon Lia.
From MW Require Import Num Assoc Rng CF CFInv QcInst NbrInv.
Import ListNotations.

Lemma toy_rng_index_ok : rng_index_ok ToyRng.
Proof.
  intros g n Hn. split.
  - intros p. simpl. apply Z.mod_pos_bound. lia.
  - simpl. rewrite Z.sub_0_r. pose proof (Z.mod_pos_bound (Z.of_nat (g + 0)) (Z.of_nat n)). lia.
Qed.

Lemma toy_rng_z_lengths_ok : forall g high size, length (fst (draw_z ToyRng g (RqRandint high size))) = size.
Proof. intros. simpl. rewrite map_length, seq_length. reflexivity. Qed.
