(* Forget.v — C07 for the policies that hold a history, hash tables, trees or per-cluster policies: the state after fit(D) is
   the state fit(D) yields on the object with everything learned removed (empty history, no planes / hash tables, no leaves, no
   fitted width, per-cluster policies as constructed).  Radius / KNearest / LSHNearest and TreeBandit: Leibniz equality of the
   objects and of the whole facade results.  Clusters: equality for every reachable state (the per-cluster policies satisfy
   the reachable-state invariants keys_ok and clean, preserved by every operation); Thompson Sampling keeps only the stored
   copy of its last sample, which no operation reads (CFForget). *)
From Coq Require Import ZArith List Bool Arith Lia.
From MW Require Import Num NumLaws Assoc AssocFacts Rng Par CF CFInv CFClean CFForget Matrix Lin LinForget Nbr Warm Clu Tree Mab LpInv.
Import ListNotations.

Section Forget.
Context {R A G : Type} (N : Num R) (aeqb : A -> A -> bool) (RG : RngOps R G).
Hypothesis aeqb_spec : forall x y, aeqb x y = true <-> x = y.
Notation nbr := (@nbr R A G).
Notation clu := (@clu R A G).
Notation tree := (@tree R A).
Notation lp := (@lp R A G).
Notation mab := (@mab R A G).

(* ---- neighbourhood policies --------------------------------------------------------------------------------- *)
Definition nbr_forget (s : nbr) : nbr :=
  mkNbr (n_kind s) (n_metric s) (n_nnprob s) (n_kf_newarm0 s) (n_arms s) (n_lp s) (n_exp s) [] [] []
        (match n_kind s with NLsh _ nt => repeat [] nt | _ => n_planes s end)
        (match n_kind s with NLsh _ nt => repeat [] nt | _ => n_tables s end).

Theorem nbr_fit_forgets (s : nbr) g ds rs cx : nbr_fit N RG s g ds rs cx = nbr_fit N RG (nbr_forget s) g ds rs cx.
Proof.
  unfold nbr_fit. cbn [nbr_forget n_lp n_kind]. destruct (lp_binarize (n_lp s) ds rs) as [l' rs'].
  unfold set_hist, set_lsh. cbn [nbr_forget n_kind n_metric n_nnprob n_kf_newarm0 n_arms n_lp n_exp n_ds n_rs n_cx n_planes n_tables].
  destruct (n_kind s); reflexivity.
Qed.

(* the forgotten object is the constructed one (same configuration, arms and learning policy object) as soon as the
   dictionary of expectations holds NaN for every arm - which it does in every reachable state (NbrFacts) *)
Lemma nbr_forget_is_constructed (s : nbr) :
  n_exp s = afromkeys (n_arms s) None ->
  match n_kind s with NLsh _ _ => True | _ => n_planes s = [] /\ n_tables s = [] end ->
  nbr_forget s = nbr_init (n_kind s) (n_metric s) (n_nnprob s) (n_kf_newarm0 s) (n_arms s) (n_lp s).
Proof. intros H H2. unfold nbr_forget, nbr_init. rewrite H. destruct (n_kind s); try reflexivity; destruct H2 as [-> ->]; reflexivity. Qed.

(* ---- TreeBandit -------------------------------------------------------------------------------------------- *)
Definition tree_forget (s : tree) : tree :=
  mkTree (t_kf_rebin s) (t_kf_sharedrng s) (t_arms s) (t_lp s) (t_exp s) (afromkeys (t_arms s) []) None.

Theorem tree_fit_forgets (s : tree) leaf ds rs cx : tree_fit aeqb s leaf ds rs cx = tree_fit aeqb (tree_forget s) leaf ds rs cx.
Proof. reflexivity. Qed.

(* ---- learning policies held by Clusters ----------------------------------------------------------------------- *)
Definition cf_forget (c : @cf R A) : @cf R A :=
  match c_kind c with KThompson => set_exp (cf_fresh N c) (c_exp c) | _ => cf_fresh N c end.

Lemma cf_fit_forget (c : @cf R A) ds rs : keys_ok c -> clean N c -> cf_fit N aeqb c ds rs = cf_fit N aeqb (cf_forget c) ds rs.
Proof.
  intros Hk Hc. rewrite (cf_fit_forgets N aeqb c ds rs Hk Hc). unfold cf_forget.
  destruct (c_kind c) eqn:Ek; try reflexivity.
  (* Thompson: training neither reads nor writes the dictionary *)
  unfold cf_fit. replace (c_kind (set_exp (cf_fresh N c) (c_exp c))) with KThompson by (cbn; auto).
  replace (c_kind (cf_fresh N c)) with KThompson by (cbn; auto).
  replace (binarize (set_exp (cf_fresh N c) (c_exp c)) ds rs) with (binarize (cf_fresh N c) ds rs) by reflexivity.
  replace (reset_status (reset_counts_ts N (set_exp (cf_fresh N c) (c_exp c))))
    with (set_exp (reset_status (reset_counts_ts N (cf_fresh N c))) (c_exp c)) by reflexivity.
  rewrite (ts_parallel_fit_exp N aeqb) by (left; cbn; exact Ek). reflexivity.
Qed.

Definition lp_forget (l : lp) : lp := match l with LCf c => LCf (cf_forget c) | LLin s => LLin (lin_strip s) end.
Definition lp_inv (l : lp) : Prop := match l with LCf c => keys_ok c /\ clean N c | LLin _ => True end.

Lemma lp_fit_forget (l : lp) g ds rs cx : lp_inv l -> lp_fit N aeqb l g ds rs cx = lp_fit N aeqb (lp_forget l) g ds rs cx.
Proof.
  destruct l as [c|s]; cbn [lp_inv lp_fit lp_forget].
  - intros [Hk Hc]. rewrite (cf_fit_forget c ds rs Hk Hc). reflexivity.
  - intros _. rewrite (lin_fit_forgets N aeqb s g ds rs cx). reflexivity.
Qed.


Lemma lp_forget_ts_binz (l : lp) : lp_is_ts_binz (lp_forget l) = lp_is_ts_binz l.
Proof. destruct l as [c|c]; [|reflexivity]. cbn [lp_forget lp_is_ts_binz]. unfold cf_forget. destruct (c_kind c) eqn:E; cbn; rewrite ?E; reflexivity. Qed.

Lemma lp_binarize_forget (l : lp) ds rs :
  lp_binarize (lp_forget l) ds rs = (lp_forget (fst (lp_binarize l ds rs)), snd (lp_binarize l ds rs)).
Proof.
  destruct l as [c|c]; [|reflexivity].
  pose proof (lp_forget_ts_binz (LCf c)) as H. cbn [lp_forget] in H |- *. unfold lp_binarize. rewrite H.
  destruct (lp_is_ts_binz (LCf c)) eqn:T; [|reflexivity]. cbn [fst snd lp_forget].
  cbn [lp_is_ts_binz] in T. destruct (c_kind c) eqn:E; try discriminate. unfold cf_forget. cbn [set_ctxbin c_kind]. rewrite E. reflexivity.
Qed.

Lemma lp_binarize_inv (l : lp) ds rs : lp_inv l -> lp_inv (fst (lp_binarize l ds rs)).
Proof.
  destruct l as [c|c]; [|intros; exact I]. unfold lp_binarize. destruct (lp_is_ts_binz (LCf c)); [|intros H; exact H].
  cbn [fst lp_inv]. intros [Hk Hc]. split; [apply set_ctxbin_ok; exact Hk | exact Hc].
Qed.

(* ---- Clusters -------------------------------------------------------------------------------------------------- *)
Definition clu_forget (s : clu) : clu := mkClu (k_n s) (k_arms s) (map lp_forget (k_lps s)) (k_exp s) [] [] [].
Definition clu_lps_inv (s : clu) : Prop := Forall lp_inv (k_lps s).

Lemma clu_binarize_forget (s : clu) ds rs :
  clu_binarize (clu_forget s) ds rs = (map lp_forget (fst (clu_binarize s ds rs)), snd (clu_binarize s ds rs)).
Proof.
  unfold clu_binarize. cbn [clu_forget k_lps]. destruct (k_lps s) as [|l0 t]; [reflexivity|]. cbn [map].
  rewrite lp_forget_ts_binz. destruct (lp_is_ts_binz l0); [|reflexivity]. cbn [fst snd].
  rewrite !lp_binarize_forget. cbn [fst snd map]. f_equal. f_equal. rewrite !map_map. apply map_ext. intros l. rewrite lp_binarize_forget. reflexivity.
Qed.

Lemma clu_binarize_inv (s : clu) ds rs : clu_lps_inv s -> Forall lp_inv (fst (clu_binarize s ds rs)).
Proof.
  unfold clu_lps_inv, clu_binarize. destruct (k_lps s) as [|l0 t]; [intros; constructor|]. intros H.
  destruct (lp_is_ts_binz l0); [|exact H]. cbn [fst]. apply Forall_forall. intros x Hx. apply in_map_iff in Hx.
  destruct Hx as [l [<- Hl]]. apply lp_binarize_inv. rewrite Forall_forall in H. exact (H l Hl).
Qed.

Lemma clu_refit_forget n arms lps e ds rs cx g labels : Forall lp_inv lps ->
  clu_refit N aeqb (mkClu n arms lps e ds rs cx) g labels = clu_refit N aeqb (mkClu n arms (map lp_forget lps) e ds rs cx) g labels.
Proof.
  intros H. unfold clu_refit. cbn [k_n k_arms k_lps k_exp k_ds k_rs k_cx].
  match goal with |- (mkClu _ _ (map fst ?a) _ _ _ _, _) = (mkClu _ _ (map fst ?b) _ _ _ _, _) => assert (E : a = b) end; [|rewrite E; reflexivity].
  generalize (seq 0 n). revert H. induction lps as [|l lps IH]; intros H sq; [destruct sq; reflexivity|].
  destruct sq as [|c sq]; [reflexivity|]. cbn [map combine]. inversion H as [|? ? Hl Hr]; subst.
  f_equal; [apply lp_fit_forget; exact Hl | apply IH; exact Hr].
Qed.

Theorem clu_fit_forgets (s : clu) g ds rs cx labels :
  clu_lps_inv s -> clu_fit N aeqb s g ds rs cx labels = clu_fit N aeqb (clu_forget s) g ds rs cx labels.
Proof.
  intros H. unfold clu_fit. rewrite clu_binarize_forget. pose proof (clu_binarize_inv s ds rs H) as Hb.
  destruct (clu_binarize s ds rs) as [lps rs']. cbn [fst snd clu_forget k_n k_arms k_exp] in *.
  apply clu_refit_forget. exact Hb.
Qed.


(* ---- the reachable-state invariant of Clusters' per-cluster policies ------------------------------------------ *)
Lemma lp_fit_inv (l : lp) g ds rs cx : lp_inv l -> lp_inv (fst (lp_fit N aeqb l g ds rs cx)).
Proof.
  destruct l as [c|c]; cbn [lp_fit lp_inv fst].
  - intros [Hk Hc]. split; [apply cf_fit_keys_ok; [exact aeqb_spec | exact Hk] | apply cf_fit_clean; exact Hc].
  - destruct (lin_fit N aeqb c g ds rs cx). intros _. exact I.
Qed.

Lemma clu_refit_lps_inv (s : clu) g labels : clu_lps_inv s -> clu_lps_inv (fst (clu_refit N aeqb s g labels)).
Proof.
  unfold clu_lps_inv, clu_refit. cbn [fst k_lps]. intros H. apply Forall_forall. intros x Hx.
  apply in_map_iff in Hx. destruct Hx as [[l1 ok] [<- Hx]]. apply in_map_iff in Hx. destruct Hx as [[c l0] [E Hin]].
  apply in_combine_r in Hin. rewrite Forall_forall in H. pose proof (lp_fit_inv l0 g (rows_with_label labels c (k_ds s)) (rows_with_label labels c (k_rs s)) (rows_with_label labels c (k_cx s)) (H l0 Hin)) as F.
  rewrite E in F. exact F.
Qed.

Lemma clu_init_lps_inv n arms (l : lp) : lp_inv l -> clu_lps_inv (clu_init n arms l).
Proof. intros H. unfold clu_lps_inv, clu_init. cbn [k_lps]. apply Forall_forall. intros x Hx. apply repeat_spec in Hx. subst x. exact H. Qed.

Lemma clu_fit_lps_inv (s : clu) g ds rs cx labels : clu_lps_inv s -> clu_lps_inv (fst (clu_fit N aeqb s g ds rs cx labels)).
Proof.
  intros H. unfold clu_fit. pose proof (clu_binarize_inv s ds rs H) as Hb. destruct (clu_binarize s ds rs) as [lps rs'].
  apply clu_refit_lps_inv. exact Hb.
Qed.

Lemma clu_partial_fit_lps_inv (s : clu) g ds rs cx labels : clu_lps_inv s -> clu_lps_inv (fst (clu_partial_fit N aeqb s g ds rs cx labels)).
Proof.
  intros H. unfold clu_partial_fit. pose proof (clu_binarize_inv s ds rs H) as Hb. destruct (clu_binarize s ds rs) as [lps rs'].
  apply clu_refit_lps_inv. exact Hb.
Qed.

Lemma clu_add_arm_lps_inv (s : clu) a bz : clu_lps_inv s -> Forall (fun l => ~ In a (lp_arms l)) (k_lps s) -> clu_lps_inv (clu_add_arm N aeqb s a bz).
Proof.
  unfold clu_lps_inv, clu_add_arm. cbn [k_lps]. intros H Hn. apply Forall_forall. intros x Hx. apply in_map_iff in Hx.
  destruct Hx as [l [<- Hl]]. rewrite Forall_forall in H, Hn. specialize (H l Hl). specialize (Hn l Hl).
  destruct l as [c|c]; cbn [lp_add_arm lp_inv lp_arms] in *; [|exact I]. destruct H as [Hk Hc].
  split; [apply cf_add_arm_keys_ok; assumption | apply cf_add_arm_clean; exact Hc].
Qed.

Lemma clu_remove_arm_lps_inv (s : clu) a : clu_lps_inv s -> clu_lps_inv (clu_remove_arm N aeqb s a).
Proof.
  unfold clu_lps_inv, clu_remove_arm. cbn [k_lps]. intros H. apply Forall_forall. intros x Hx. apply in_map_iff in Hx.
  destruct Hx as [l [<- Hl]]. rewrite Forall_forall in H. specialize (H l Hl).
  destruct l as [c|c]; cbn [lp_remove_arm lp_inv] in *; [|exact I]. destruct H as [Hk Hc].
  split; [apply cf_remove_arm_keys_ok; assumption | apply cf_remove_arm_clean; exact Hc].
Qed.

(* ---- the facade ----------------------------------------------------------------------------------------------- *)
Definition imp_forget (i : @imp R A G) : @imp R A G :=
  match i with
  | INbr s => INbr (nbr_forget s)
  | IClu s => IClu (clu_forget s)
  | ITree s => ITree (tree_forget s)
  | _ => i
  end.
Definition imp_forget_inv (i : @imp R A G) : Prop := match i with IClu s => clu_lps_inv s | _ => True end.
Definition mab_forget (m : mab) : mab := mkMab (imp_forget (m_imp m)) false (m_rng m).

Lemma lp_forget_nobinz (l : lp) : lp_ts_nobinz (lp_forget l) = lp_ts_nobinz l.
Proof. destruct l as [c|c]; [|reflexivity]. cbn [lp_forget lp_ts_nobinz]. unfold cf_forget, cf_ts_nobinz. destruct (c_kind c) eqn:E; cbn; rewrite ?E; reflexivity. Qed.

Theorem fit_forgets_history_tables_trees_clusters (m : mab) ds rs cx orc :
  match m_imp m with INbr _ | IClu _ | ITree _ => True | _ => False end -> imp_forget_inv (m_imp m) ->
  let r := step N aeqb RG m (Fit ds rs cx orc) in
  let r' := step N aeqb RG (mab_forget m) (Fit ds rs cx orc) in
  snd r = snd r' /\ (snd r = ODone -> fst r = fst r').
Proof.
  intros Hk Hi. cbn [step].
  assert (Ha : fit_args_ok N (mab_forget m) ds rs cx = fit_args_ok N m ds rs cx).
  { unfold fit_args_ok, mab_forget. cbn [m_imp]. destruct (m_imp m) as [c|l|s|s|s]; try reflexivity.
    - cbn [imp_forget is_contextual ts_needs_binary clu_forget k_lps]. destruct (k_lps s) as [|l t]; [reflexivity|]. cbn [map]. rewrite lp_forget_nobinz. reflexivity. }
  rewrite Ha. destruct (fit_args_ok N m ds rs cx); [|split; [reflexivity | discriminate]].
  unfold mab_forget. cbn [m_imp m_rng m_fitted].
  destruct (m_imp m) as [c|l|s|s|s]; try contradiction; cbn [imp_forget train_shape_ok negb imp_fit].
  - rewrite <- (nbr_fit_forgets s (m_rng m) ds rs (octx cx)). destruct (nbr_fit N RG s (m_rng m) ds rs (octx cx)) as [s' g']. split; [reflexivity | intros _; reflexivity].
  - cbn [clu_forget k_n]. destruct (negb (Nat.leb (k_n s) (length ds))); [split; [reflexivity | discriminate]|].
    rewrite <- (clu_fit_forgets s (m_rng m) ds rs (octx cx) (o_labels orc) Hi). destruct (clu_fit N aeqb s (m_rng m) ds rs (octx cx) (o_labels orc)) as [s' ok].
    destruct ok; [split; [reflexivity | intros _; reflexivity] | split; [reflexivity | discriminate]].
  - rewrite <- (tree_fit_forgets s (o_leaf orc) ds rs (octx cx)). split; [reflexivity | intros _; reflexivity].
Qed.

End Forget.
