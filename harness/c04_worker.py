# c04_worker.py <cases.json> <mode: alone|interleaved> : prints {"digests": [...]} for a list of scenarios.
# Run in a fresh interpreter (with a chosen PYTHONHASHSEED) by relations.run_c04_batch.
import sys, json, hashlib, os
sys.path.insert(0, os.path.dirname(os.path.abspath(__file__)))
import mwh, props
import numpy as np
from mabwiser.mab import MAB, LearningPolicy, NeighborhoodPolicy

def noise(k):
    """construct / train / query other bandits with other seeds (also default-constructed policy tuples)"""
    rng = np.random.default_rng(1000 + k)
    X = rng.integers(0, 5, size=(12, 2)).astype(float)
    ds = [1, 2, 3] * 4
    rs = [float(v) for v in rng.integers(0, 2, size=12)]
    out = []
    for lp, npol in [(LearningPolicy.UCB1(), NeighborhoodPolicy.TreeBandit()),
                     (LearningPolicy.ThompsonSampling(), NeighborhoodPolicy.Clusters()),
                     (LearningPolicy.EpsilonGreedy(), None),
                     (LearningPolicy.LinTS(), NeighborhoodPolicy.KNearest(2)),
                     (LearningPolicy.Softmax(), NeighborhoodPolicy.LSHNearest())]:
        m = MAB([1, 2, 3], lp, npol, seed=77 + k)
        if npol is None:
            m.fit(ds, rs); out.append(m.predict())
        else:
            m.fit(ds, rs, X); out.append(m.predict(X[:3]))
    return out

def main():
    cases = json.load(open(sys.argv[1]))
    mode = sys.argv[2]
    digests = []
    for k, c in enumerate(cases):
        c = props.fix_case(c)
        h = hashlib.sha256()
        try:
            if mode == "interleaved":
                noise(k)
            mab, label, inv = mwh.build_mab(c)
            for j, o in enumerate(c["ops"]):
                if mode == "interleaved" and j % 2 == 0:
                    noise(k * 31 + j)
                out = mwh.apply_op(mab, o, label, inv, c)
                if out[0] == "rejected":
                    out = ("rejected", out[1])
                if o[0] in ("pred", "pexp"):
                    h.update(repr(out).encode())
        except Exception as e:
            h.update(("EXC " + repr(e)).encode())
        digests.append(h.hexdigest()[:20])
    print(json.dumps({"digests": digests}))

main()
