(*  C10 — Prediction is read-only.
   
    PROVED for context-free bandits, every reachable state: predict / predict_expectations return a state that
    differs from the one before at most in the generator and, for Thompson Sampling, in arm_to_expectation
    (the stored copy of the last sample, whose keys stay the arm list); every other field - statistics, status,
    arms, configuration, fitted flag - is identical (Leibniz equality).  For neighbourhood policies the model's
    imp_query returns the implementation state unchanged by construction (the worker copies are discarded).
    ..._partial: that no later call reads Thompson's stored sample is proved for fit (CFForget) and for the
    query itself (NbrIndep.ts_predict_exp_mod_exp); the full "every later sequence of calls" statement is
    checked by the queried-versus-unqueried twin relation on the implementation. *)
From Coq Require Import List ZArith Bool Arith QArith Qcanon.
From MW Require Import Num Assoc AssocFacts Rng Par CF CFInv CFClean CFForget CFSpec Matrix Lin Warm WarmInv Nbr NbrFacts NbrIndep Clu Tree Mab FacadeCF FacadeArms NumLaws QcInst.
Import ListNotations.

Theorem C10_query_changes_only_generator_and_last_sample_partial :
  forall (R A G : Type) (N : Num R) (aeqb : A -> A -> bool) (RG : RngOps R G) 
    (m : (@mab R A G)) (s : (@cf R A)) (cx : option (@ctxs R)) (orc : (@oracle R A)) (is_p : bool),
  rng_lengths_ok RG ->
  m_imp m = ICf s ->
  mab_inv N m ->
  let o := if is_p then Predict cx orc else PredictExp cx orc in
  exists s' : (@cf R A),
    m_imp (fst (step N aeqb RG m o)) = ICf s' /\
    (c_kind s <> KThompson -> s' = s) /\
    s' = set_exp s (c_exp s') /\
    akeys (c_exp s') = c_arms s /\ m_fitted (fst (step N aeqb RG m o)) = m_fitted m.
Proof. exact @query_keeps_model. Qed.
Print Assumptions C10_query_changes_only_generator_and_last_sample_partial.


