(*  C19 — Copies and pickles of a bandit behave identically to the original.
   
    What a model of VALUES can carry (thin, by design): a copy of a bandit is the same value.
    PROVED for every policy combination: in a process that holds the original and its copy, for EVERY interleaving of calls
    on the two, the copy answers its calls exactly as the original would have answered them, and the original answers its
    calls exactly as if the copy had never been used; the two final states are those of the separate runs
    (a corollary of the isolation theorem of C04 applied to the world [m; m]).
    ..._partial: what copy.deepcopy and pickle (protocols 2..5, same or fresh interpreter) do to the Python object graph -
    the arm list shared by MAB, _imp and the policies, the shared and the per-arm generators, defaultdict factories,
    scikit-learn estimators - is runtime behaviour no model of values exhibits.  It is OBSERVED on every run by the
    copy-and-pickle relation: two identical originals A and B, a copy C of A taken at a random point of a random history,
    the continuation run on C first, then on A, then on B, compared call by call (C = B: the copy behaves like the original;
    A = B: using the copy did not affect the original). *)
From Coq Require Import List ZArith Bool Arith QArith Qcanon Permutation.
From MW Require Import Num Assoc AssocFacts Rng Par CF CFInv CFClean CFForget CFSpec Matrix Lin Warm WarmInv Nbr NbrFacts NbrIndep LshFacts Clu Tree CellFacts Mab FacadeCF FacadeArms MoreFacts NumLaws CFAlg Sim Extra QcInst OrderFacts ExpIrrel LinInv FacadeLin LpInv NbrInv CluTreeInv FacadeAll ToyFacts C09All C10All LinForget LinSim MatrixFacts GaussJordan LinSpec NbrIndepGen CluIndep C17Lin WarmIdem C14More LshScale TreeLeaf Rename PopSpec CopyFacts StatFacts CluBatch LinWarm.
Import ListNotations.

Theorem C19_copy_behaves_like_the_original_and_never_affects_it_partial :
  forall (R A G : Type) (N : Num R) (aeqb : A -> A -> bool) (RG : RngOps R G) 
    (m : (@mab R A G)) (calls : list (nat * (@op R A))),
  only 1 (snd (wrun N aeqb RG [m; m] calls)) = snd (run N aeqb RG m (only 1 calls)) /\
  only 0 (snd (wrun N aeqb RG [m; m] calls)) = snd (run N aeqb RG m (only 0 calls)) /\
  nth_error (fst (wrun N aeqb RG [m; m] calls)) 0 = Some (fst (run N aeqb RG m (only 0 calls))) /\
  nth_error (fst (wrun N aeqb RG [m; m] calls)) 1 = Some (fst (run N aeqb RG m (only 1 calls))).
Proof. exact @copy_and_original. Qed.
Print Assumptions C19_copy_behaves_like_the_original_and_never_affects_it_partial.

Theorem C19_isolation_under_every_interleaving :
  forall (R A G : Type) (N : Num R) (aeqb : A -> A -> bool) (RG : RngOps R G) 
    (calls : list (nat * (@op R A))) (w : list (@mab R A G)) (i : nat) (m : (@mab R A G)),
  nth_error w i = Some m ->
  only i (snd (wrun N aeqb RG w calls)) = snd (run N aeqb RG m (only i calls)) /\
  nth_error (fst (wrun N aeqb RG w calls)) i = Some (fst (run N aeqb RG m (only i calls))).
Proof. exact @isolation. Qed.
Print Assumptions C19_isolation_under_every_interleaving.


