(* NbrFacts.v — theorems about Radius / KNearest / LSHNearest: which observations form the
   neighbourhood, the stored history, the empty neighbourhood, and independence of the partition
   of the query rows among workers. *)
From Coq Require Import ZArith List Bool Arith Lia.
From MW Require Import Num Assoc AssocFacts Rng Par CF CFInv CFClean CFForget Matrix Lin Nbr.
Import ListNotations.

Section NbrFacts.
Context {R A G : Type} (N : Num R) (aeqb : A -> A -> bool) (RG : RngOps R G).
Hypothesis aeqb_spec : forall x y, aeqb x y = true <-> x = y.

Notation nbr := (@nbr R A G).
Notation lp := (@lp R A G).

(* ---- Radius: exactly the stored observations within the radius, boundary included ---------- *)
Lemma filter_seq_spec {T} (f : T -> bool) (l : list T) (i : nat) (d : T) :
  In i (map fst (filter (fun id => f (snd id)) (combine (seq 0 (length l)) l))) <->
  i < length l /\ f (nth i l d) = true.
Proof.
  assert (Hgen : forall (l : list T) (a i : nat),
            In i (map fst (filter (fun id => f (snd id)) (combine (seq a (length l)) l))) <->
            a <= i < a + length l /\ f (nth (i - a) l d) = true).
  { clear l i. induction l as [|x t IH]; intros a i; simpl.
    - split; [tauto | intros [H _]; lia].
    - destruct (f x) eqn:Ef; simpl; rewrite IH.
      + split.
        * intros [H|[H1 H2]]; [subst; rewrite Nat.sub_diag; split; [lia | exact Ef]|].
          split; [lia|]. replace (i - a) with (S (i - S a)) by lia. exact H2.
        * intros [H1 H2]. destruct (Nat.eq_dec a i) as [E|E]; [left; exact E | right].
          split; [lia|]. replace (i - a) with (S (i - S a)) in H2 by lia. exact H2.
      + split.
        * intros [H1 H2]. split; [lia|]. replace (i - a) with (S (i - S a)) by lia. exact H2.
        * intros [H1 H2]. destruct (Nat.eq_dec a i) as [E|E].
          -- subst. rewrite Nat.sub_diag in H2. simpl in H2. congruence.
          -- split; [lia|]. replace (i - a) with (S (i - S a)) in H2 by lia. exact H2. }
  rewrite (Hgen l 0 i). rewrite Nat.sub_0_r. simpl. split; intros [H1 H2]; split; auto; lia.
Qed.

Theorem radius_membership (s : nbr) r row orc l i :
  n_kind s = NRadius r -> neighborhood N s row orc = Some l ->
  (In i l <-> i < length (n_cx s) /\ leb N (distance N (n_metric s) (nth i (n_cx s) []) row) r = true).
Proof.
  intros Ek. unfold neighborhood. rewrite Ek. intros E. injection E as <-.
  set (dl := map (fun c => distance N (n_metric s) c row) (n_cx s)).
  replace (length (n_cx s)) with (length dl) by (unfold dl; apply map_length).
  rewrite (filter_seq_spec (fun v => leb N v r) dl i (zero N)).
  unfold dl. rewrite map_length.
  split; intros [H1 H2]; split; auto.
  - rewrite (nth_indep _ _ (distance N (n_metric s) [] row)) in H2 by (rewrite map_length; exact H1).
    rewrite (map_nth (fun c => distance N (n_metric s) c row)) in H2. exact H2.
  - rewrite (nth_indep _ _ (distance N (n_metric s) [] row)) by (rewrite map_length; exact H1).
    rewrite (map_nth (fun c => distance N (n_metric s) c row)). exact H2.
Qed.

(* ---- KNearest: any answer the model accepts is a valid set of k nearest observations -------- *)
Lemma nodup_nat_spec l : nodup_nat l = true -> NoDup l.
Proof.
  induction l as [|x t IH]; simpl; intros H; [constructor|].
  apply andb_prop in H. destruct H as [H1 H2]. constructor; [|apply IH; exact H2].
  intros Hin. apply negb_true_iff in H1. assert (existsb (Nat.eqb x) t = true); [|congruence].
  apply existsb_exists. exists x. split; [exact Hin | apply Nat.eqb_refl].
Qed.

Theorem knearest_valid (s : nbr) k row orc sel :
  n_kind s = NKNearest k -> neighborhood N s row orc = Some sel ->
  let dists := map (fun c => distance N (n_metric s) c row) (n_cx s) in
  length sel = k /\ NoDup sel /\ (forall i, In i sel -> i < length (n_cx s)) /\
  (forall i j, In i sel -> j < length (n_cx s) -> ~ In j sel ->
               leb N (nth i dists (zero N)) (nth j dists (zero N)) = true).
Proof.
  intros Ek E dists. unfold neighborhood in E. rewrite Ek in E. fold dists in E.
  destruct (knn_valid N dists k orc) eqn:Ev; [|discriminate]. injection E as <-.
  unfold knn_valid in Ev. repeat (apply andb_prop in Ev; destruct Ev as [Ev ?]).
  repeat split.
  - apply Nat.eqb_eq; exact Ev.
  - apply nodup_nat_spec; assumption.
  - intros i Hi. rewrite forallb_forall in H0. specialize (H0 i Hi). apply Nat.ltb_lt in H0.
    unfold dists in H0. rewrite map_length in H0. exact H0.
  - intros i j Hi Hj Hnj. rewrite forallb_forall in H. specialize (H i Hi).
    rewrite forallb_forall in H. specialize (H j).
    assert (Hjs : In j (seq 0 (length dists))) by (apply in_seq; unfold dists; rewrite map_length; lia).
    specialize (H Hjs). apply orb_prop in H. destruct H as [H|H]; [|exact H].
    exfalso. apply Hnj. apply existsb_exists in H. destruct H as [x [Hx Ex]]. apply Nat.eqb_eq in Ex. subst. exact Hx.
Qed.

(* ---- the stored history is the concatenation of everything passed to fit / partial_fit ------- *)
Theorem history_after_fit (s : nbr) g ds rs cx :
  let s' := fst (nbr_fit N RG s g ds rs cx) in
  n_ds s' = ds /\ n_cx s' = cx /\ n_rs s' = snd (lp_binarize (n_lp s) ds rs).
Proof.
  unfold nbr_fit. destruct (lp_binarize (n_lp s) ds rs) as [l' rs'] eqn:Eb.
  destruct (n_kind s) as [r|k|nd nt]; simpl; auto.
  destruct (draw_planes RG g nt (ncols cx) nd) as [pl g1]. simpl. auto.
Qed.

Theorem history_after_partial_fit (s : nbr) ds rs cx :
  let s' := nbr_partial_fit N s ds rs cx in
  n_ds s' = n_ds s ++ ds /\ n_cx s' = n_cx s ++ cx /\ n_rs s' = n_rs s ++ snd (lp_binarize (n_lp s) ds rs).
Proof.
  unfold nbr_partial_fit. destruct (lp_binarize (n_lp s) ds rs) as [l' rs'] eqn:Eb.
  destruct (n_kind s); simpl; auto.
Qed.

(* ---- empty neighbourhood: the stored NaN dictionary, or one choice() on the row generator ----- *)
Theorem empty_neighbourhood (s : nbr) l seed row orc :
  neighborhood N s row orc = Some [] ->
  (exists r, nbr_row N aeqb RG s l seed row orc false = Some (inr (n_exp s), r)) /\
  (nnprob_len_ok s = true ->
   exists a r, nbr_row N aeqb RG s l seed row orc true = Some (inl a, r) /\
     a = nth_error (n_arms s)
           (Z.to_nat (match fst (draw_z RG (create RG seed) (RqChoice (length (n_arms s)) (n_nnprob s))) with x :: _ => x | [] => 0%Z end))) /\
  (* finding D24: a probability list that no longer has one entry per arm makes predict raise *)
  (nnprob_len_ok s = false -> nbr_row N aeqb RG s l seed row orc true = None).
Proof.
  intros H. unfold nbr_row. rewrite H. split; [|split].
  - eexists; reflexivity.
  - intros Hok. rewrite Hok. cbn [negb]. destruct (draw_z RG (create RG seed) (RqChoice (length (n_arms s)) (n_nnprob s))) as [v g']. simpl.
    eexists; eexists; split; reflexivity.
  - intros Hok. rewrite Hok. reflexivity.
Qed.

End NbrFacts.
