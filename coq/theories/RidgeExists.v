(* RidgeExists.v — C02: the ridge solution EXISTS.  The model's inverse (Gauss-Jordan with partial pivoting, Matrix.v)
   never reports "singular" on a matrix whose kernel is trivial, and lambda*I + X'X with lambda > 0 has a trivial
   kernel over any ordered field (v.(lambda*I + X'X).v = lambda*|v|^2 + |Xv|^2).  Together with GaussJordan.v (the result
   is a left inverse) this closes the clause "coefficients (X'X + lambda*I)^-1 X'y" of C02 without the proviso
   "whenever a solution exists". *)
From Coq Require Import ZArith List Bool Arith Lia Ring.
From MW Require Import Num NumLaws Matrix MatrixFacts GaussJordan OrderFacts LshScale.
Import ListNotations.

Section Complete.
Context {R : Type} (N : Num R) (L : NumLaws N).
Add Ring RingRE : (L_ring N L).

Notation "0" := (zero N).
Notation "1" := (one N).
Infix "+" := (add N).
Infix "*" := (mul N).
Infix "-" := (sub N).

(* ---- order facts -------------------------------------------------------------------------------------------- *)
Lemma one_neq_zero : 1 <> 0.
Proof. rewrite <- (L_of_Z_1 N L). apply (L_of_Z_pos N L). lia. Qed.

Lemma rabs_zero : rabs N 0 = 0.
Proof. unfold rabs. rewrite (ltb_irrefl N L). reflexivity. Qed.

Lemma rabs_le_zero x : leb N (rabs N x) 0 = true -> x = 0.
Proof.
  unfold rabs. destruct (ltb N x 0) eqn:E; intros H.
  - pose proof (neg_pos N L x E) as P. rewrite (L_ltb_leb N L) in P. rewrite H in P. discriminate.
  - apply (L_leb_antisym N L); [exact H | apply (ltb_false_leb N L); exact E].
Qed.

(* ---- the pivot search returns a row with the largest |entry| ------------------------------------------------ *)
Lemma best_pivot_max (rows : list (nat * vec (R:=R))) c : forall best p v,
  best_pivot N rows c best = Some (p, v) ->
  (forall bi bv, best = Some (bi, bv) -> leb N bv v = true) /\
  (forall i r, In (i, r) rows -> leb N (rabs N (nth c r 0)) v = true) /\
  (best = Some (p, v) \/ exists r, In (p, r) rows /\ v = rabs N (nth c r 0)).
Proof.
  induction rows as [|[i r] t IH]; intros best p v H; simpl in H.
  - subst best. split; [intros bi bv E; injection E as _ <-; apply (L_leb_refl N L)|]. split; [intros i r []|]. left; reflexivity.
  - destruct best as [[bi bv]|].
    + destruct (ltb N bv (rabs N (nth c r 0))) eqn:El.
      * destruct (IH _ _ _ H) as (A1 & A2 & A3).
        pose proof (A1 _ _ eq_refl) as Hle.
        split; [intros bi' bv' E; injection E as _ <-; eapply (L_leb_trans N L); [apply (ltb_true_leb N L); exact El | exact Hle]|].
        split.
        -- intros i' r' [E|Hin]; [injection E as <- <-; exact Hle | apply (A2 _ _ Hin)].
        -- destruct A3 as [E|[r' [Hin Ev]]]; [injection E as <- <-; right; exists r; split; [left; reflexivity | reflexivity] | right; exists r'; split; [right; exact Hin | exact Ev]].
      * destruct (IH _ _ _ H) as (A1 & A2 & A3).
        pose proof (A1 _ _ eq_refl) as Hle.
        split; [intros bi' bv' E; injection E as _ <-; exact Hle|].
        split.
        -- intros i' r' [E|Hin]; [injection E as <- <-; eapply (L_leb_trans N L); [apply (ltb_false_leb N L); exact El | exact Hle] | apply (A2 _ _ Hin)].
        -- destruct A3 as [E|[r' [Hin Ev]]]; [left; exact E | right; exists r'; split; [right; exact Hin | exact Ev]].
    + destruct (IH _ _ _ H) as (A1 & A2 & A3).
      pose proof (A1 _ _ eq_refl) as Hle.
      split; [intros bi' bv' E; discriminate|].
      split.
      * intros i' r' [E|Hin]; [injection E as <- <-; exact Hle | apply (A2 _ _ Hin)].
      * destruct A3 as [E|[r' [Hin Ev]]]; [injection E as <- <-; right; exists r; split; [left; reflexivity | reflexivity] | right; exists r'; split; [right; exact Hin | exact Ev]].
Qed.

Lemma best_pivot_some (rows : list (nat * vec (R:=R))) c : forall b, exists q, best_pivot N rows c (Some b) = Some q.
Proof.
  induction rows as [|[i r] t IH]; intros [bi bv]; simpl; [eexists; reflexivity|].
  destruct (ltb N bv (rabs N (nth c r 0))); apply IH.
Qed.

Lemma best_pivot_nonempty (rows : list (nat * vec (R:=R))) c : rows <> [] -> exists q, best_pivot N rows c None = Some q.
Proof. destruct rows as [|[i r] t]; [congruence|]. intros _. simpl. apply best_pivot_some. Qed.

(* ---- indexed rows --------------------------------------------------------------------------------------------- *)
Lemma in_indexed {X} (l : list X) (dflt : X) : forall s i x, In (i, x) (combine (seq s (length l)) l) -> (s <= i < s + length l)%nat /\ x = nth (i - s) l dflt.
Proof.
  induction l as [|y l IH]; intros s i x H; simpl in H; [contradiction|].
  destruct H as [E|H].
  - injection E as <- <-. split; [simpl; lia|]. rewrite Nat.sub_diag. reflexivity.
  - destruct (IH _ _ _ H) as [Hr Hx]. split; [simpl; lia|]. replace (i - s)%nat with (S (i - S s)) by lia. exact Hx.
Qed.

Lemma indexed_in {X} (l : list X) (dflt : X) : forall s i, (i < length l)%nat -> In ((s + i)%nat, nth i l dflt) (combine (seq s (length l)) l).
Proof.
  induction l as [|y l IH]; intros s i H; simpl in *; [lia|].
  destruct i as [|i]; [left; rewrite Nat.add_0_r; reflexivity|]. right.
  replace (s + S i)%nat with (S s + i)%nat by lia. apply IH. lia.
Qed.

Lemma in_skipn_indexed {X} (l : list X) (dflt : X) c i : (c <= i < length l)%nat ->
  In (i, nth i l dflt) (skipn c (combine (seq 0 (length l)) l)).
Proof.
  intros Hi. pose proof (indexed_in l dflt 0 i ltac:(lia)) as H. simpl in H.
  rewrite <- (firstn_skipn c (combine (seq 0 (length l)) l)) in H. apply in_app_or in H. destruct H as [H|H]; [|exact H].
  exfalso. assert (Hf : In i (map fst (firstn c (combine (seq 0 (length l)) l)))) by (apply in_map_iff; exists (i, nth i l dflt); auto).
  rewrite <- firstn_map, map_fst_indexed in Hf.
  assert (Hs : forall n s k, In k (firstn n (seq s (length l))) -> (k < s + n)%nat).
  { clear. generalize (length l). intros len n. revert len. induction n as [|n IH]; intros len s k H; [destruct H|].
    destruct len as [|len]; [destruct H|]. simpl in H. destruct H as [<-|H]; [lia|]. apply IH in H. lia. }
  apply Hs in Hf. lia.
Qed.


(* ---- the kernel invariant of the elimination: the left block annihilates only what A0 annihilates ----------- *)
Definition annih (rows : mat (R:=R)) (v : vec (R:=R)) : Prop := forall i, (i < length rows)%nat -> dot N (nth i rows []) v = 0.
Definition lblock (d : nat) (m : mat (R:=R)) : mat (R:=R) := map (firstn d) m.
Definition kinv (d : nat) (A0 m : mat (R:=R)) : Prop := forall v, length v = d -> annih (lblock d m) v -> annih A0 v.
Definition trivial_kernel (d : nat) (A0 : mat (R:=R)) : Prop := forall v, length v = d -> annih A0 v -> v = zeros N d.

Lemma dot_vsub (u w b : vec (R:=R)) : length u = length b -> length w = length b ->
  dot N (vsub N u w) b = dot N u b - dot N w b.
Proof.
  revert u w. induction b as [|z b IH]; intros [|x u] [|y w] Hu Hw; simpl in *; try discriminate.
  - unfold dot, pysum; simpl. ring.
  - unfold vsub. simpl map2. rewrite !(dot_cons N L). fold (vsub N u w). rewrite IH by lia. ring.
Qed.

Lemma dot_zeros_r (u : vec (R:=R)) k : dot N u (zeros N k) = 0.
Proof.
  revert k. induction u as [|x u IH]; intros k; [unfold dot, pysum; reflexivity|].
  destruct k as [|k]; [apply (dot_nil_r N)|]. unfold zeros in *. simpl repeat. rewrite (dot_cons N L), IH. ring.
Qed.

Lemma lblock_nth d (m : mat (R:=R)) i : (i < length m)%nat -> nth i (lblock d m) [] = firstn d (nth i m []).
Proof. intros H. unfold lblock. apply (nth_map_lt (firstn d) m i [] [] H). Qed.

Lemma firstn_split3 (r : list R) c d : (c < d)%nat -> (d <= length r)%nat ->
  firstn d r = firstn c r ++ nth c r 0 :: firstn (d - S c) (skipn (S c) r).
Proof.
  revert c d. induction r as [|x r IH]; intros c d Hc Hd; simpl in Hd; [lia|].
  destruct d as [|d]; [lia|]. destruct c as [|c]; simpl.
  - rewrite Nat.sub_0_r. reflexivity.
  - f_equal. apply IH; lia.
Qed.

Theorem gj_step_kinv d A0 (m m' : mat (R:=R)) c :
  wfA d A0 -> (c < d)%nat -> aug_ok N d A0 m -> gj_step N m c = Some m' -> kinv d A0 m -> kinv d A0 m'.
Proof.
  intros HA Hc [Hlen Hrows] Hstep Hk. unfold gj_step in Hstep.
  destruct (best_pivot N (skipn c (combine (seq 0 (length m)) m)) c None) as [[p pv]|] eqn:Ep; [|discriminate].
  pose proof (pivot_range N m c p pv Ep) as Hp. rewrite Hlen in Hp.
  set (m1 := swap_rows m c p) in *.
  assert (Hlen1 : length m1 = d) by (unfold m1; rewrite swap_length; exact Hlen).
  assert (Hrows1 : Forall (row_ok N d A0) m1) by (apply swap_forall; [lia | lia | exact Hrows]).
  set (prow := nth c m1 []) in *.
  assert (Hprow : row_ok N d A0 prow) by (rewrite Forall_forall in Hrows1; apply Hrows1, nth_In; lia).
  destruct (eqb N (nth c prow 0) 0) eqn:Ez; [discriminate|].
  assert (Hpiv : nth c prow 0 <> 0) by (intros E; apply (L_eqb_eq N L) in E; congruence).
  set (piv := nth c prow 0) in *. set (prow' := map (fun x => div N x piv) prow) in *.
  injection Hstep as <-.
  intros v Hv Han. apply Hk; [exact Hv|].
  match type of Han with annih (lblock d ?mm) v => set (m' := mm) in * end.
  assert (Hlen' : length m' = d) by (unfold m'; rewrite indexed_length; exact Hlen1).
  assert (Han' : forall i, (i < d)%nat -> dot N (firstn d (nth i m' [])) v = 0).
  { intros i Hi. pose proof (Han i) as X. unfold lblock in X. rewrite map_length, Hlen' in X. specialize (X Hi).
    rewrite (nth_map_lt (firstn d) m' i [] []) in X by lia. exact X. }
  assert (Hnth' : forall i, (i < d)%nat -> nth i m' [] = if Nat.eqb i c then prow' else vsub N (nth i m1 []) (vscale N (nth c (nth i m1 []) 0) prow')).
  { intros i Hi. unfold m'. rewrite (nth_indexed _ m1 0 i [] []) by lia. reflexivity. }
  (* every row of the swapped matrix annihilates v *)
  assert (Hpr : dot N (firstn d prow) v = 0).
  { pose proof (Han' c Hc) as Hc'. rewrite (Hnth' c Hc), Nat.eqb_refl in Hc'.
    unfold prow' in Hc'. rewrite (map_div_as_scale N L _ piv Hpiv) in Hc'. unfold vscale in Hc'. rewrite firstn_map in Hc'.
    change (map (mul N (div N 1 piv)) (firstn d prow)) with (vscale N (div N 1 piv) (firstn d prow)) in Hc'.
    rewrite (dot_vscale N L) in Hc'.
    transitivity ((div N 1 piv * piv) * dot N (firstn d prow) v); [rewrite (L_div N L 1 piv Hpiv); ring|].
    transitivity (piv * (div N 1 piv * dot N (firstn d prow) v)); [ring|]. rewrite Hc'. ring. }
  assert (Hp' : dot N (firstn d prow') v = 0).
  { unfold prow'. rewrite (map_div_as_scale N L _ piv Hpiv). unfold vscale. rewrite firstn_map.
    change (map (mul N (div N 1 piv)) (firstn d prow)) with (vscale N (div N 1 piv) (firstn d prow)).
    rewrite (dot_vscale N L), Hpr. ring. }
  assert (H1 : forall i, (i < d)%nat -> dot N (firstn d (nth i m1 [])) v = 0).
  { intros i Hi. destruct (Nat.eq_dec i c) as [->|Nic]; [exact Hpr|].
    pose proof (Han' i Hi) as Hi'. rewrite (Hnth' i Hi) in Hi'.
    destruct (Nat.eqb_spec i c) as [|_]; [contradiction|].
    set (r := nth i m1 []) in *.
    assert (Hr : row_ok N d A0 r) by (rewrite Forall_forall in Hrows1; apply Hrows1, nth_In; lia).
    unfold vsub, vscale in Hi'. rewrite firstn_map2, firstn_map in Hi'.
    change (map2 (sub N) (firstn d r) (map (mul N (nth c r 0)) (firstn d prow')))
      with (vsub N (firstn d r) (vscale N (nth c r 0) (firstn d prow'))) in Hi'.
    assert (Hl1 : length (firstn d r) = d) by (rewrite firstn_length, (proj1 Hr); lia).
    assert (Hl2 : length (firstn d prow') = d) by (unfold prow'; rewrite firstn_length, map_length, (proj1 Hprow); lia).
    rewrite dot_vsub in Hi' by (rewrite ?(vscale_length N); congruence).
    rewrite (dot_vscale N L) in Hi'. rewrite Hp' in Hi'.
    transitivity (dot N (firstn d r) v - nth c r 0 * 0); [ring | exact Hi']. }
  (* the rows of m are rows of the swapped matrix *)
  intros k Hkl. unfold lblock in Hkl. rewrite map_length, Hlen in Hkl. rewrite lblock_nth by lia.
  assert (Hsw : forall j, (j < d)%nat -> nth j m1 [] = if Nat.eqb j c then nth p m [] else if Nat.eqb j p then nth c m [] else nth j m [])
    by (intros j Hj; unfold m1; apply swap_nth; lia).
  destruct (Nat.eq_dec k c) as [->|Nkc].
  - pose proof (H1 p ltac:(lia)) as X. rewrite Hsw in X by lia.
    destruct (Nat.eqb_spec p c) as [->|_]; [exact X|]. rewrite Nat.eqb_refl in X. exact X.
  - destruct (Nat.eq_dec k p) as [->|Nkp].
    + pose proof (H1 c Hc) as X. rewrite Hsw in X by lia. rewrite Nat.eqb_refl in X. exact X.
    + pose proof (H1 k Hkl) as X. rewrite Hsw in X by lia.
      destruct (Nat.eqb_spec k c); [contradiction|]. destruct (Nat.eqb_spec k p); [contradiction|]. exact X.
Qed.


(* ---- a step cannot fail on a matrix with trivial kernel ------------------------------------------------------- *)
Theorem gj_step_complete d A0 (m : mat (R:=R)) c :
  wfA d A0 -> (c < d)%nat -> aug_ok N d A0 m -> ucol N d m c -> kinv d A0 m -> trivial_kernel d A0 ->
  exists m', gj_step N m c = Some m'.
Proof.
  intros HA Hc [Hlen Hrows] Hu Hk Htriv. unfold gj_step.
  destruct (best_pivot_nonempty (skipn c (combine (seq 0 (length m)) m)) c) as [[p pv] Ep].
  { intros E. apply (f_equal (@length _)) in E. rewrite skipn_length, combine_length, seq_length in E. simpl in E. lia. }
  rewrite Ep.
  pose proof (pivot_range N m c p pv Ep) as Hp. rewrite Hlen in Hp.
  destruct (eqb N (nth c (nth c (swap_rows m c p) []) 0) 0) eqn:Ez; [|eexists; reflexivity].
  exfalso. apply (L_eqb_eq N L) in Ez.
  rewrite swap_nth in Ez by lia. rewrite Nat.eqb_refl in Ez.
  destruct (best_pivot_max _ c None p pv Ep) as (_ & A2 & A3).
  destruct A3 as [E|[r [Hin Ev]]]; [discriminate|].
  assert (Hr : r = nth p m []).
  { assert (Hin' : In (p, r) (combine (seq 0 (length m)) m)) by (rewrite <- (firstn_skipn c (combine _ _)); apply in_or_app; right; exact Hin).
    destruct (in_indexed m [] 0 p r Hin') as [_ E]. rewrite Nat.sub_0_r in E. exact E. }
  subst r. rewrite Ez, rabs_zero in Ev. subst pv.
  (* column c vanishes from row c on *)
  assert (Hz : forall i, (c <= i < d)%nat -> nth c (nth i m []) 0 = 0).
  { intros i Hi. apply rabs_le_zero. apply (A2 i (nth i m [])). apply (in_skipn_indexed m [] c i). rewrite Hlen. exact Hi. }
  (* a non-zero vector annihilated by the left block *)
  set (v0 := map (fun j => 0 - nth c (nth j m []) 0) (seq 0 c) ++ 1 :: zeros N (d - S c)).
  assert (Hv0 : length v0 = d) by (unfold v0; rewrite app_length, map_length, seq_length; simpl; rewrite (zeros_length N); lia).
  assert (Han : annih (lblock d m) v0).
  { intros i Hi. unfold lblock in Hi. rewrite map_length, Hlen in Hi. rewrite lblock_nth by lia.
    set (r := nth i m []).
    assert (Hrow : row_ok N d A0 r) by (rewrite Forall_forall in Hrows; apply Hrows, nth_In; lia).
    rewrite (firstn_split3 r c d Hc) by (rewrite (proj1 Hrow); lia).
    unfold v0.
    rewrite (dot_app N L) by (rewrite firstn_length, map_length, seq_length, (proj1 Hrow); lia).
    rewrite (dot_cons N L), dot_zeros_r.
    assert (Hf : firstn c r = map (fun j => if Nat.eqb i j then 1 else 0) (seq 0 c)).
    { apply (nth_ext_R N).
      - rewrite firstn_length, map_length, seq_length, (proj1 Hrow). lia.
      - intros j Hj. rewrite firstn_length, (proj1 Hrow) in Hj. assert (Hjc : (j < c)%nat) by lia.
        rewrite nth_firstn_lt by exact Hjc. rewrite (nth_map_lt _ _ j O 0) by (rewrite seq_length; exact Hjc).
        rewrite seq_nth by exact Hjc. apply (Hu i j Hi Hjc). }
    rewrite Hf.
    destruct (Nat.lt_ge_cases i c) as [Hic|Hic].
    - pose proof (dot_unit_gen N L (map (fun j => 0 - nth c (nth j m []) 0) (seq 0 c)) i 0) as Hd.
      rewrite map_length, seq_length in Hd. rewrite Hd by lia. rewrite Nat.sub_0_r.
      rewrite (nth_map_lt _ _ i O 0) by (rewrite seq_length; exact Hic). rewrite seq_nth by exact Hic. simpl Nat.add. fold r. ring.
    - rewrite (dot_all_zero N L).
      + unfold r. rewrite (Hz i) by lia. ring.
      + apply Forall_forall. intros x Hx. apply in_map_iff in Hx. destruct Hx as [j [<- Hj]]. apply in_seq in Hj.
        destruct (Nat.eqb_spec i j); [lia | reflexivity]. }
  pose proof (Htriv v0 Hv0 (Hk v0 Hv0 Han)) as E.
  apply (f_equal (fun l => nth c l 0)) in E. unfold v0 in E.
  rewrite app_nth2 in E by (rewrite map_length, seq_length; lia). rewrite map_length, seq_length, Nat.sub_diag in E. simpl in E.
  assert (Hzn : nth c (zeros N d) 0 = 0) by (unfold zeros; apply nth_repeat).
  rewrite Hzn in E. exact (one_neq_zero E).
Qed.

Lemma gj_loop_complete d A0 : wfA d A0 -> trivial_kernel d A0 -> forall k c (m : mat (R:=R)), (c + k = d)%nat ->
  aug_ok N d A0 m -> ucol N d m c -> kinv d A0 m -> exists m', gj_loop N m (seq c k) = Some m'.
Proof.
  intros HA Ht. induction k as [|k IH]; intros c m Hck Hm Hu Hk; simpl.
  - eexists; reflexivity.
  - destruct (gj_step_complete d A0 m c HA ltac:(lia) Hm Hu Hk Ht) as [m1 E1]. rewrite E1.
    destruct (gj_step_ok N L d A0 m m1 c HA ltac:(lia) Hm Hu E1) as [Hm1 Hu1].
    apply (IH (S c) m1); auto; [lia|]. apply (gj_step_kinv d A0 m m1 c HA ltac:(lia) Hm E1 Hk).
Qed.

Lemma kinv_start d (a : mat (R:=R)) : wfA d a -> kinv d a (map2 (fun r e => r ++ e) a (identity N d)).
Proof.
  intros [Hr Hl] v Hv Han i Hi.
  assert (Hlen : length (map2 (fun r e => r ++ e) a (identity N d)) = d).
  { rewrite map2_length. unfold identity. rewrite map_length, seq_length, Hl. apply Nat.min_id. }
  pose proof (Han i) as X. unfold lblock in X. rewrite map_length, Hlen in X. rewrite Hl in Hi. specialize (X Hi).
  rewrite (nth_map_lt (firstn d) _ i [] []) in X by lia.
  rewrite (nth_map2 _ a (identity N d) i [] [] []) in X by (unfold identity; rewrite ?map_length, ?seq_length; lia).
  assert (Hri : length (nth i a []) = d) by (unfold rows_len in Hr; rewrite Forall_forall in Hr; apply Hr, nth_In; lia).
  rewrite firstn_app, <- Hri, firstn_all, Nat.sub_diag in X. simpl in X. rewrite app_nil_r in X. exact X.
Qed.

(* np.linalg.inv does not raise on a matrix with trivial kernel *)
Theorem inverse_exists d (a : mat (R:=R)) : wfA d a -> trivial_kernel d a -> exists E, inverse N d a = Some E.
Proof.
  intros HA Ht. unfold inverse.
  destruct (gj_loop_complete d a HA Ht d 0 _ eq_refl (aug0_ok N L d a HA) ltac:(intros i j _ Hj; lia) (kinv_start d a HA)) as [m E].
  rewrite E. eexists; reflexivity.
Qed.


(* ---- ordered-field facts -------------------------------------------------------------------------------------- *)
Lemma leb_0_add a b : leb N 0 a = true -> leb N 0 b = true -> leb N 0 (a + b) = true.
Proof.
  intros Ha Hb. apply (L_leb_trans N L 0 b); [exact Hb|].
  pose proof (L_add_leb N L 0 a b Ha) as H. replace (0 + b) with b in H by ring. exact H.
Qed.

Lemma sq_nonneg x : leb N 0 (x * x) = true.
Proof.
  destruct (ltb N 0 x) eqn:E1.
  - apply (ltb_true_leb N L). apply (L_mul_pos N L); exact E1.
  - destruct (ltb N x 0) eqn:E2.
    + pose proof (neg_pos N L x E2) as P. pose proof (L_mul_pos N L _ _ P P) as Q.
      replace ((0 - x) * (0 - x)) with (x * x) in Q by ring. apply (ltb_true_leb N L). exact Q.
    + assert (x = 0) by (apply (L_leb_antisym N L); apply (ltb_false_leb N L); assumption). subst x.
      replace (0 * 0) with 0 by ring. apply (L_leb_refl N L).
Qed.

Lemma sq_zero x : x * x = 0 -> x = 0.
Proof.
  intros H. destruct (eqb N x 0) eqn:E; [apply (L_eqb_eq N L); exact E|].
  assert (Hx : x <> 0) by (intros X; apply (L_eqb_eq N L) in X; congruence).
  apply (L_mul_cancel N L x 0 x Hx). rewrite H. ring.
Qed.

Lemma nonneg_sum_zero a b : leb N 0 a = true -> leb N 0 b = true -> a + b = 0 -> a = 0.
Proof.
  intros Ha Hb H. apply (L_leb_antisym N L); [|exact Ha].
  pose proof (L_add_leb N L 0 b a Hb) as X. replace (0 + a) with a in X by ring. replace (b + a) with (a + b) in X by ring.
  rewrite H in X. exact X.
Qed.

Lemma dot_self_nonneg (u : vec (R:=R)) : leb N 0 (dot N u u) = true.
Proof.
  induction u as [|x u IH]; [unfold dot, pysum; simpl; apply (L_leb_refl N L)|].
  rewrite (dot_cons N L). apply leb_0_add; [apply sq_nonneg | exact IH].
Qed.

Lemma dot_self_zero (u : vec (R:=R)) : dot N u u = 0 -> u = zeros N (length u).
Proof.
  induction u as [|x u IH]; intros H; [reflexivity|].
  rewrite (dot_cons N L) in H.
  pose proof (nonneg_sum_zero _ _ (sq_nonneg x) (dot_self_nonneg u) H) as Hx.
  assert (Hu : dot N u u = 0) by (rewrite Hx in H; rewrite <- H; ring).
  simpl. unfold zeros in *. simpl. f_equal; [apply sq_zero; exact Hx | apply IH; exact Hu].
Qed.

Lemma pos_mul_zero lam a : ltb N 0 lam = true -> leb N 0 a = true -> leb N 0 (lam * a) = true /\ (lam * a = 0 -> a = 0).
Proof.
  intros Hl Ha. destruct (ltb N 0 a) eqn:E.
  - pose proof (L_mul_pos N L _ _ Hl E) as P. split; [apply (ltb_true_leb N L); exact P|].
    intros Z. rewrite Z, (ltb_irrefl N L) in P. discriminate.
  - assert (a = 0) by (apply (L_leb_antisym N L); [apply (ltb_false_leb N L); exact E | exact Ha]). subst a.
    split; [replace (lam * 0) with 0 by ring; apply (L_leb_refl N L) | reflexivity].
Qed.

(* ---- v.(lambda*I + X'X).v = lambda*|v|^2 + |Xv|^2 ------------------------------------------------------------ *)
Lemma dot_comm (u v : vec (R:=R)) : dot N u v = dot N v u.
Proof.
  revert v. induction u as [|x u IH]; intros [|y v]; try reflexivity.
  rewrite !(dot_cons N L), IH. ring.
Qed.

Lemma dot_vadd_r (b u v : vec (R:=R)) : length u = length b -> length v = length b ->
  dot N b (vadd N u v) = dot N b u + dot N b v.
Proof. intros Hu Hv. rewrite dot_comm, (dot_vadd N L) by assumption. rewrite (dot_comm u b), (dot_comm v b). reflexivity. Qed.

Lemma mat_vec_length (A : mat (R:=R)) v : length (mat_vec N A v) = length A.
Proof. unfold mat_vec. apply map_length. Qed.

Lemma col_as_nth (X : mat (R:=R)) j k : (k < length X)%nat -> nth k (col N X j) 0 = nth j (nth k X []) 0.
Proof. intros H. unfold col. apply (nth_map_lt (fun row => nth j row 0) X k [] 0 H). Qed.

Lemma transpose_rows d (X : mat (R:=R)) : rows_len (length X) (transpose N d X).
Proof.
  unfold rows_len, transpose. apply Forall_forall. intros r Hr. apply in_map_iff in Hr. destruct Hr as [j [<- _]].
  apply (col_length N).
Qed.

Lemma nth_vadd (u w : vec (R:=R)) k : (k < length u)%nat -> (k < length w)%nat -> nth k (vadd N u w) 0 = nth k u 0 + nth k w 0.
Proof. intros. unfold vadd. apply nth_map2; assumption. Qed.
Lemma nth_vscale x (u : vec (R:=R)) k : (k < length u)%nat -> nth k (vscale N x u) 0 = x * nth k u 0.
Proof. intros. unfold vscale. apply (nth_map_lt (mul N x) u k 0 0); assumption. Qed.

(* entry k of a linear combination of rows *)
Lemma nth_lc n (A : mat (R:=R)) : rows_len n A -> forall e k, (k < n)%nat -> nth k (lc N n e A) 0 = dot N e (col N A k).
Proof.
  intros H. induction H as [|r A Hr HA IH]; intros e k Hk.
  - destruct e; simpl; unfold zeros; rewrite nth_repeat; [unfold dot, pysum; reflexivity | rewrite (dot_nil_r N); reflexivity].
  - destruct e as [|x e]; simpl lc.
    + unfold zeros. rewrite nth_repeat. unfold dot, pysum. reflexivity.
    + rewrite nth_vadd by (rewrite ?(vscale_length N), ?(lc_length N); auto; lia). rewrite nth_vscale by lia.
      rewrite IH by exact Hk. unfold col. simpl map. rewrite (dot_cons N L). reflexivity.
Qed.

(* the combination of the columns of X with coefficients v is X v *)
Lemma lc_transpose d (X : mat (R:=R)) v : rows_len d X -> length v = d ->
  lc N (length X) v (transpose N d X) = mat_vec N X v.
Proof.
  intros HX Hv. apply (nth_ext_R N).
  - rewrite (lc_length N) by apply transpose_rows. rewrite mat_vec_length. reflexivity.
  - intros k Hk. rewrite (lc_length N) in Hk by apply transpose_rows.
    rewrite nth_lc by (apply transpose_rows || exact Hk).
    unfold mat_vec. rewrite (nth_map_lt (fun row => dot N row v) X k [] 0 Hk).
    rewrite dot_comm. f_equal.
    (* column k of the transpose is row k of X *)
    assert (Hrk : length (nth k X []) = d) by (unfold rows_len in HX; rewrite Forall_forall in HX; apply HX, nth_In; exact Hk).
    apply (nth_ext_R N).
    + unfold col, transpose. rewrite !map_length, seq_length. symmetry. exact Hrk.
    + intros j Hj. unfold col at 1 in Hj. unfold transpose in Hj. rewrite !map_length, seq_length in Hj.
      unfold col at 1. unfold transpose. rewrite (nth_map_lt (fun row => nth k row 0) _ j [] 0) by (rewrite map_length, seq_length; exact Hj).
      assert (E : nth j (map (col N X) (seq 0 d)) [] = col N X j).
      { rewrite (nth_map_lt _ _ j O []) by (rewrite seq_length; exact Hj). rewrite seq_nth by exact Hj. reflexivity. }
      transitivity (nth k (col N X j) 0); [f_equal; exact E | apply col_as_nth; exact Hk].
Qed.

Lemma mat_vec_xtx d (X : mat (R:=R)) v : rows_len d X -> length v = d ->
  mat_vec N (xtx N d X) v = mat_vec N (transpose N d X) (mat_vec N X v).
Proof.
  intros HX Hv. unfold xtx. unfold mat_vec at 1 2. rewrite map_map. apply map_ext_in. intros ci Hci.
  assert (Hlc : length ci = length X).
  { unfold transpose in Hci. apply in_map_iff in Hci. destruct Hci as [j [<- _]]. apply (col_length N). }
  rewrite (dot_comm (map (fun cj => dot N ci cj) (transpose N d X)) v).
  replace (map (fun cj => dot N ci cj) (transpose N d X)) with (mat_vec N (transpose N d X) ci)
    by (unfold mat_vec; apply map_ext; intros cj; apply dot_comm).
  rewrite (dot_lc N L (length X) (transpose N d X) ci (transpose_rows d X) Hlc v).
  rewrite (lc_transpose d X v HX Hv). apply dot_comm.
Qed.

Lemma mat_vec_madd (B C : mat (R:=R)) d v : rows_len d B -> rows_len d C -> length B = length C -> length v = d ->
  mat_vec N (madd N B C) v = vadd N (mat_vec N B v) (mat_vec N C v).
Proof.
  intros HB. revert C. induction HB as [|b B Hb HB IH]; intros [|c C] HC Hl Hv; simpl in *; try discriminate; [reflexivity|].
  inversion HC as [|? ? Hc HC']; subst. unfold madd, mat_vec, vadd in *. simpl. f_equal.
  - apply (dot_vadd N L); congruence.
  - apply IH; auto.
Qed.

Lemma mat_vec_scaled_identity d lam v : length v = d -> mat_vec N (mscale N lam (identity N d)) v = vscale N lam v.
Proof.
  intros Hv. apply (nth_ext_R N).
  - rewrite mat_vec_length. unfold mscale, identity. rewrite !map_length, seq_length, (vscale_length N). symmetry; exact Hv.
  - intros k Hk. rewrite mat_vec_length in Hk. unfold mscale, identity in Hk. rewrite !map_length, seq_length in Hk.
    unfold mat_vec, mscale, identity. rewrite !map_map.
    rewrite (nth_map_lt (fun i => dot N (vscale N lam (unit_vec N d i)) v) (seq 0 d) k O 0) by (rewrite seq_length; exact Hk).
    rewrite seq_nth by exact Hk. simpl Nat.add. rewrite (dot_vscale N L), (dot_unit N L d v k Hv Hk).
    rewrite nth_vscale by lia. reflexivity.
Qed.

Lemma xtx_rows d (X : mat (R:=R)) : rows_len d (xtx N d X) /\ length (xtx N d X) = d.
Proof.
  split; [|unfold xtx, transpose; rewrite !map_length, seq_length; reflexivity].
  apply Forall_forall. intros r Hr. unfold xtx in Hr. apply in_map_iff in Hr. destruct Hr as [ci [<- _]].
  unfold transpose. rewrite !map_length, seq_length. reflexivity.
Qed.
Lemma scaled_identity_rows d lam : rows_len d (mscale N lam (identity N d)) /\ length (mscale N lam (identity N d)) = d.
Proof.
  split; [|unfold mscale, identity; rewrite !map_length, seq_length; reflexivity].
  apply Forall_forall. intros r Hr. unfold mscale, identity in Hr. rewrite map_map in Hr. apply in_map_iff in Hr.
  destruct Hr as [i [<- _]]. unfold vscale, unit_vec. rewrite !map_length, seq_length. reflexivity.
Qed.

(* the ridge matrix has a trivial kernel when the penalty is positive *)
Theorem ridge_matrix_trivial_kernel d lam (X : mat (R:=R)) :
  ltb N 0 lam = true -> rows_len d X -> trivial_kernel d (madd N (mscale N lam (identity N d)) (xtx N d X)).
Proof.
  intros Hlam HX v Hv Han.
  set (A := madd N (mscale N lam (identity N d)) (xtx N d X)) in *.
  destruct (wfA_ridge_matrix N d lam X) as [HAr HAl]. fold A in HAr, HAl.
  (* A v = 0 *)
  assert (Hz : mat_vec N A v = zeros N d).
  { apply (nth_ext_R N); [rewrite mat_vec_length, (zeros_length N); exact HAl|].
    intros k Hk. rewrite mat_vec_length in Hk. unfold mat_vec. rewrite (nth_map_lt (fun row => dot N row v) A k [] 0 Hk).
    unfold zeros. rewrite nth_repeat. exact (Han k Hk). }
  (* hence lambda |v|^2 + |Xv|^2 = 0 *)
  assert (Hq : lam * dot N v v + dot N (mat_vec N X v) (mat_vec N X v) = 0).
  { transitivity (dot N v (mat_vec N A v)); [|rewrite Hz; apply dot_zeros_r].
    unfold A. rewrite (mat_vec_madd _ _ d v (proj1 (scaled_identity_rows d lam)) (proj1 (xtx_rows d X)))
      by (rewrite ?(proj2 (scaled_identity_rows d lam)), ?(proj2 (xtx_rows d X)); auto).
    rewrite (mat_vec_scaled_identity d lam v Hv), (mat_vec_xtx d X v HX Hv).
    rewrite dot_vadd_r by (rewrite ?(vscale_length N), ?mat_vec_length; unfold transpose; rewrite ?map_length, ?seq_length; auto).
    rewrite (dot_comm v (vscale N lam v)), (dot_vscale N L).
    rewrite (dot_lc N L (length X) (transpose N d X) (mat_vec N X v) (transpose_rows d X) (mat_vec_length X v) v).
    rewrite (lc_transpose d X v HX Hv). reflexivity. }
  destruct (pos_mul_zero lam (dot N v v) Hlam (dot_self_nonneg v)) as [Hn Hzero].
  pose proof (nonneg_sum_zero _ _ Hn (dot_self_nonneg (mat_vec N X v)) Hq) as H1.
  rewrite <- Hv. apply dot_self_zero. apply Hzero. exact H1.
Qed.

(* C02: for lambda > 0 the inverse of lambda*I + X'X is found for every data matrix X *)
Theorem ridge_inverse_exists d lam (X : mat (R:=R)) :
  ltb N 0 lam = true -> rows_len d X ->
  exists E, inverse N d (madd N (mscale N lam (identity N d)) (xtx N d X)) = Some E.
Proof.
  intros Hlam HX. apply inverse_exists; [apply wfA_ridge_matrix | apply ridge_matrix_trivial_kernel; assumption].
Qed.


(* ---- a symmetric matrix: the left inverse found by the elimination is a right inverse as well ----------------- *)
Definition sym (d : nat) (a : mat (R:=R)) : Prop :=
  forall i j, (i < d)%nat -> (j < d)%nat -> nth j (nth i a []) 0 = nth i (nth j a []) 0.

Lemma wfA_row d (a : mat (R:=R)) i : wfA d a -> (i < d)%nat -> length (nth i a []) = d.
Proof. intros [Hr Hl] Hi. unfold rows_len in Hr. rewrite Forall_forall in Hr. apply Hr, nth_In. lia. Qed.

Lemma col_sym d (a : mat (R:=R)) k : wfA d a -> sym d a -> (k < d)%nat -> col N a k = nth k a [].
Proof.
  intros HA Hs Hk. apply (nth_ext_R N).
  - rewrite (col_length N), (wfA_row d a k HA Hk). exact (proj2 HA).
  - intros i Hi. rewrite (col_length N), (proj2 HA) in Hi. rewrite col_as_nth by (rewrite (proj2 HA); exact Hi).
    apply Hs; assumption.
Qed.

Lemma lc_sym d (a : mat (R:=R)) e : wfA d a -> sym d a -> lc N d e a = mat_vec N a e.
Proof.
  intros HA Hs. apply (nth_ext_R N).
  - rewrite (lc_length N) by exact (proj1 HA). rewrite mat_vec_length. symmetry. exact (proj2 HA).
  - intros k Hk. rewrite (lc_length N) in Hk by exact (proj1 HA).
    rewrite nth_lc by (exact (proj1 HA) || exact Hk). rewrite (col_sym d a k HA Hs Hk).
    assert (Hka : (k < length a)%nat) by (rewrite (proj2 HA); exact Hk).
    unfold mat_vec. rewrite (nth_map_lt (fun row => dot N row e) a k [] 0 Hka). apply dot_comm.
Qed.

Lemma mat_vec_zeros (a : mat (R:=R)) k : mat_vec N a (zeros N k) = zeros N (length a).
Proof.
  unfold mat_vec, zeros. induction a as [|r a IH]; simpl; [reflexivity|]. f_equal; [apply dot_zeros_r | exact IH].
Qed.

Lemma mat_vec_vadd d (a : mat (R:=R)) u w : length u = d -> length w = d -> rows_len d a ->
  mat_vec N a (vadd N u w) = vadd N (mat_vec N a u) (mat_vec N a w).
Proof.
  intros Hu Hw Ha. unfold mat_vec, vadd. induction Ha as [|r a Hr Ha IH]; simpl; [reflexivity|].
  f_equal; [apply dot_vadd_r; congruence | exact IH].
Qed.

Lemma mat_vec_vscale (a : mat (R:=R)) x u : mat_vec N a (vscale N x u) = vscale N x (mat_vec N a u).
Proof.
  unfold mat_vec, vscale. rewrite map_map. apply map_ext. intros r.
  change (map (mul N x) u) with (vscale N x u). rewrite (dot_comm r), (dot_vscale N L), (dot_comm u r). reflexivity.
Qed.

(* the matrix applied to a combination of vectors is the combination of the images *)
Lemma mat_vec_lc d (a : mat (R:=R)) : rows_len d a -> forall (E : mat (R:=R)) v, rows_len d E ->
  mat_vec N a (lc N d v E) = lc N (length a) v (map (mat_vec N a) E).
Proof.
  intros Ha E. induction E as [|r E IH]; intros v HE.
  - destruct v; simpl; apply mat_vec_zeros.
  - inversion HE as [|? ? Hr HE']; subst. destruct v as [|x v]; simpl; [apply mat_vec_zeros|].
    rewrite (mat_vec_vadd (length r)) by (rewrite ?(vscale_length N), ?(lc_length N); auto).
    rewrite mat_vec_vscale, IH by exact HE'. reflexivity.
Qed.

Lemma identity_rows d : rows_len d (identity N d) /\ length (identity N d) = d.
Proof.
  split; [|unfold identity; rewrite map_length, seq_length; reflexivity].
  apply Forall_forall. intros r Hr. unfold identity in Hr. apply in_map_iff in Hr. destruct Hr as [i [<- _]]. apply (unit_vec_length N).
Qed.

Lemma nth_unit_vec d i k : (k < d)%nat -> nth k (unit_vec N d i) 0 = if Nat.eqb i k then 1 else 0.
Proof. intros Hk. unfold unit_vec. rewrite (nth_map_lt _ _ k O 0) by (rewrite seq_length; exact Hk). rewrite seq_nth by exact Hk. reflexivity. Qed.

Lemma identity_nth d i : (i < d)%nat -> nth i (identity N d) [] = unit_vec N d i.
Proof.
  intros Hi. unfold identity, vec. rewrite (@nth_map_lt nat (list R) (unit_vec N d) (seq 0 d) i O []) by (rewrite seq_length; exact Hi).
  rewrite seq_nth by exact Hi. reflexivity.
Qed.

Lemma lc_identity d v : length v = d -> lc N d v (identity N d) = v.
Proof.
  intros Hv. destruct (identity_rows d) as [Hr Hl]. apply (nth_ext_R N).
  - rewrite (lc_length N) by exact Hr. symmetry; exact Hv.
  - intros k Hk. rewrite (lc_length N) in Hk by exact Hr. rewrite nth_lc by (exact Hr || exact Hk).
    assert (Ec : col N (identity N d) k = unit_vec N d k).
    { apply (nth_ext_R N); [rewrite (col_length N), Hl, (unit_vec_length N); reflexivity|].
      intros i Hi. rewrite (col_length N), Hl in Hi. rewrite col_as_nth by (rewrite Hl; exact Hi).
      transitivity (nth k (unit_vec N d i) 0); [f_equal; apply identity_nth; exact Hi|].
      rewrite !nth_unit_vec by assumption. rewrite Nat.eqb_sym. reflexivity. }
    rewrite Ec, dot_comm. apply (dot_unit N L); assumption.
Qed.

Theorem inverse_is_right_inverse d (a E : mat (R:=R)) v :
  wfA d a -> sym d a -> inverse N d a = Some E -> length v = d -> mat_vec N a (mat_vec N E v) = v.
Proof.
  intros HA Hs HE Hv. destruct (inverse_is_left_inverse N L d a E HA HE) as [Hl Hi].
  assert (HEr : rows_len d E).
  { apply Forall_forall. intros r Hr. destruct (In_nth E r [] Hr) as [i [Hil <-]]. rewrite Hl in Hil. apply (proj1 (Hi i Hil)). }
  (* the images of the rows of E are the unit vectors *)
  assert (Himg : map (mat_vec N a) E = identity N d).
  { apply (nth_ext _ _ [] []); [rewrite map_length; transitivity d; [exact Hl | symmetry; exact (proj2 (identity_rows d))]|].
    intros i Hil. rewrite map_length in Hil. assert (Hid : (i < d)%nat) by (rewrite <- Hl; exact Hil).
    transitivity (mat_vec N a (nth i E [])); [apply (nth_map_lt (mat_vec N a) E i [] [] Hil)|].
    rewrite <- (lc_sym d a _ HA Hs). rewrite (proj2 (Hi i Hid)). symmetry. apply identity_nth. exact Hid. }
  set (b := lc N d v E).
  assert (Hb : length b = d) by (unfold b; apply (lc_length N); exact HEr).
  assert (Hab : mat_vec N a b = v).
  { unfold b. rewrite (mat_vec_lc d a (proj1 HA) E v HEr), Himg, (proj2 HA). apply lc_identity. exact Hv. }
  pose proof (inverse_solves N L d a E b HA HE Hb) as Hsol. rewrite Hab in Hsol. rewrite Hsol. exact Hab.
Qed.

Lemma nth_map_seq {Y} (f : nat -> Y) d i dflt : (i < d)%nat -> nth i (map f (seq 0 d)) dflt = f i.
Proof. intros Hi. rewrite (nth_map_lt f (seq 0 d) i O dflt) by (rewrite seq_length; exact Hi). rewrite seq_nth by exact Hi. reflexivity. Qed.

(* the ridge matrix is symmetric *)
Lemma ridge_matrix_sym d lam (X : mat (R:=R)) : sym d (madd N (mscale N lam (identity N d)) (xtx N d X)).
Proof.
  destruct (scaled_identity_rows d lam) as [R1 L1]. destruct (xtx_rows d X) as [R2 L2].
  assert (Hent : forall i j, (i < d)%nat -> (j < d)%nat ->
            nth j (nth i (madd N (mscale N lam (identity N d)) (xtx N d X)) []) 0
            = lam * (if Nat.eqb i j then 1 else 0) + dot N (col N X i) (col N X j)).
  { intros i j Hi Hj. unfold madd. rewrite (nth_map2 _ _ _ i [] [] []) by lia.
    assert (Hri : length (nth i (mscale N lam (identity N d)) []) = d) by (unfold rows_len in R1; rewrite Forall_forall in R1; apply R1, nth_In; lia).
    assert (Hxi : length (nth i (xtx N d X) []) = d) by (unfold rows_len in R2; rewrite Forall_forall in R2; apply R2, nth_In; lia).
    rewrite nth_vadd by lia. f_equal.
    - transitivity (nth j (vscale N lam (unit_vec N d i)) 0).
      + f_equal. unfold mscale, identity. rewrite map_map. apply (nth_map_seq (fun k => vscale N lam (unit_vec N d k)) d i [] Hi).
      + rewrite nth_vscale by (rewrite (unit_vec_length N); exact Hj). rewrite nth_unit_vec by exact Hj. reflexivity.
    - transitivity (nth j (map (fun cj => dot N (col N X i) cj) (transpose N d X)) 0).
      + f_equal. unfold xtx. unfold transpose at 2. rewrite map_map.
        apply (nth_map_seq (fun k => map (fun cj => dot N (col N X k) cj) (transpose N d X)) d i [] Hi).
      + unfold transpose. rewrite map_map. apply (nth_map_seq (fun k => dot N (col N X i) (col N X k)) d j 0 Hj). }
  intros i j Hi Hj. rewrite !Hent by assumption. rewrite (Nat.eqb_sym j i), (dot_comm (col N X j)). reflexivity.
Qed.

End Complete.
