(*  C05 — Results do not depend on n_jobs, backend or scheduling.
   
    PROVED:
     * _effective_jobs is always between 1 and the number of rows for every n_jobs <> 0;
     * _partition_contexts is an ordered exact cover: the chunks concatenate to the batch, there are exactly
       n_jobs of them, none is empty, their sizes differ by at most one (for EVERY n and n_jobs);
     * a per-row function evaluated chunk by chunk over ANY split into consecutive chunks (not only the one the
       code picks) gives the list obtained on the whole batch;
     * Radius / KNearest / LSHNearest with a context-free learning policy: _parallel_predict returns the same
       list for EVERY partition of the rows into consecutive chunks, although each chunk threads one private
       deep copy of the learning policy through its rows (the proof shows that what a row leaves behind in that
       copy never reaches the next row's answer: fit forgets, and Thompson's stored sample is never read).
     * the same for Radius / KNearest / LSHNearest over LinGreedy or LinUCB (the worker's copy keeps only private generator
       copies, which these two policies never read: LinForget + LinSim), and for Clusters over every learning policy except
       LinTS (the per-cluster policies are only queried; a query leaves nothing behind that a later query reads);
     * TRAINING (FitOrder.v): _parallel_fit runs one _fit_arm task per arm in shared memory; a task reads the batch and the arm's own
       entries (and UCB1's total_count, written before the tasks start) and writes only the arm's own entries, so two tasks for
       different arms COMMUTE and the fitted state is the same for EVERY completion order of the tasks - for the six context-free
       policies (fit_independent_of_task_order) and for TreeBandit's per-arm leaf tables (tree_fit_independent_of_task_order).
       Tasks are atomic in the model (joblib runs a task to completion in one worker).  Linear policies: two tasks for different arms
       commute, including the case in which one of them raises (lin_fit_tasks_commute).
    ..._partial: what the model cannot exhibit is named in DESIGN.md: OS scheduling inside joblib, process
    boundaries, pre-emption inside a task. TreeBandit (finding D7) and LinTS under a neighbourhood (finding D8) are refuted on the code. *)
From Coq Require Import List ZArith Bool Arith QArith Qcanon Permutation.
From MW Require Import Num Assoc AssocFacts Rng Par CF CFInv CFClean CFForget CFSpec Matrix Lin Warm WarmInv Nbr NbrFacts NbrIndep LshFacts Clu Tree CellFacts Mab FacadeCF FacadeArms MoreFacts NumLaws CFAlg Sim Extra QcInst OrderFacts ExpIrrel LinInv FacadeLin LpInv NbrInv CluTreeInv FacadeAll ToyFacts C09All C10All LinForget LinSim MatrixFacts GaussJordan LinSpec NbrIndepGen CluIndep C17Lin WarmIdem C14More LshScale TreeLeaf Rename PopSpec CopyFacts StatFacts CluBatch LinWarm FitOrder.
Import ListNotations.

Theorem C05_effective_jobs_in_range :
  forall cpu size n_jobs : Z,
  (1 <= cpu)%Z -> (1 <= size)%Z -> n_jobs <> 0%Z -> (1 <= effective_jobs cpu size n_jobs <= size)%Z.
Proof. exact @effective_jobs_range. Qed.
Print Assumptions C05_effective_jobs_in_range.

Theorem C05_partition_is_ordered_exact_cover :
  forall (T : Type) (l : list T) (j : nat),
  (1 <= j)%nat ->
  concat (chunks (partition_sizes (length l) j) l) = l /\
  length (chunks (partition_sizes (length l) j) l) = j.
Proof. exact @partition_exact_cover. Qed.
Print Assumptions C05_partition_is_ordered_exact_cover.

Theorem C05_partition_chunks_nonempty :
  forall n j : nat,
  (1 <= j)%nat -> (j <= n)%nat -> Forall (fun s : nat => (1 <= s)%nat) (partition_sizes n j).
Proof. exact @partition_sizes_positive. Qed.
Print Assumptions C05_partition_chunks_nonempty.

Theorem C05_partition_balanced :
  forall n j : nat,
  (1 <= j)%nat -> Forall (fun s : nat => (n / j <= s <= n / j + 1)%nat) (partition_sizes n j).
Proof. exact @partition_sizes_balanced. Qed.
Print Assumptions C05_partition_balanced.

Theorem C05_rowwise_function_any_split :
  forall (T U : Type) (f : T -> U) (sizes : list nat) (l : list T),
  sum_list sizes = length l -> concat (map (map f) (chunks sizes l)) = map f l.
Proof. exact @map_chunks_concat. Qed.
Print Assumptions C05_rowwise_function_any_split.

Theorem C05_neighbourhood_predict_independent_of_partition_partial :
  forall (R A G : Type) (N : Num R) (aeqb : A -> A -> bool) (RG : RngOps R G),
  (forall x y : A, aeqb x y = true <-> x = y) ->
  rng_lengths_ok RG ->
  forall (s : (@nbr R A G)) (t : (@cf R A)) (g : G) (cx : list (list R)) (orcs : list (list nat)) 
    (sizes : list nat) (p : bool),
  n_lp s = LCf t ->
  keys_ok t ->
  clean N t ->
  rng_z_lengths_ok RG ->
  sum_list sizes = length cx ->
  nbr_predict N aeqb RG s g cx orcs sizes p = nbr_predict N aeqb RG s g cx orcs [length cx] p.
Proof. exact @nbr_predict_partition_independent. Qed.
Print Assumptions C05_neighbourhood_predict_independent_of_partition_partial.

Theorem C05_neighbourhood_over_lingreedy_linucb_independent_of_partition :
  forall (R A G : Type) (N : Num R) (aeqb : A -> A -> bool) (RG : RngOps R G),
  (forall x y : A, aeqb x y = true <-> x = y) ->
  rng_lengths_ok RG ->
  forall (s : (@nbr R A G)) (t : (@lin R A G)) (g : G) (cx : list (list R)) (orcs : list (list nat)) 
    (sizes : list nat) (p : bool),
  n_lp s = LLin t ->
  lin_keys_ok t ->
  l_kind t <> RTs ->
  (forall (g0 : G) (high : Z) (size : nat), length (fst (draw_z RG g0 (RqRandint high size))) = size) ->
  sum_list sizes = length cx ->
  nbr_predict N aeqb RG s g cx orcs sizes p = nbr_predict N aeqb RG s g cx orcs [length cx] p.
Proof. exact @nbr_predict_partition_independent_linear. Qed.
Print Assumptions C05_neighbourhood_over_lingreedy_linucb_independent_of_partition.

Theorem C05_clusters_predict_independent_of_partition :
  forall (R A G : Type) (N : Num R) (aeqb : A -> A -> bool) (RG : RngOps R G),
  (forall x y : A, aeqb x y = true <-> x = y) ->
  rng_lengths_ok RG ->
  forall (s : (@clu R A G)) (g : G) (cx : list (list R)) (assign sizes : list nat) (p : bool),
  clu_inv s ->
  Forall no_lints (k_lps s) ->
  (forall (g0 : G) (high : Z) (size : nat), length (fst (draw_z RG g0 (RqRandint high size))) = size) ->
  length assign = length cx ->
  Forall (fun c : nat => (c < length (k_lps s))%nat) assign ->
  sum_list sizes = length cx ->
  clu_predict N aeqb RG s g cx assign sizes p = clu_predict N aeqb RG s g cx assign [length cx] p.
Proof. exact @clu_predict_partition_independent. Qed.
Print Assumptions C05_clusters_predict_independent_of_partition.

Theorem C05_per_arm_fit_tasks_commute :
  forall (R A : Type) (N : Num R) (aeqb : A -> A -> bool),
  (forall x y : A, aeqb x y = true <-> x = y) ->
  forall (s : (@cf R A)) (a b : A) (ds : list A) (rs : list R),
  keys_ok s ->
  a <> b ->
  In a (c_arms s) ->
  In b (c_arms s) ->
  cf_fit_arm N aeqb (cf_fit_arm N aeqb s a ds rs) b ds rs =
  cf_fit_arm N aeqb (cf_fit_arm N aeqb s b ds rs) a ds rs.
Proof. exact @fit_arm_tasks_commute. Qed.
Print Assumptions C05_per_arm_fit_tasks_commute.

Theorem C05_fit_independent_of_task_completion_order :
  forall (R A : Type) (N : Num R) (aeqb : A -> A -> bool),
  (forall x y : A, aeqb x y = true <-> x = y) ->
  forall order order' : list A,
  Permutation order order' ->
  forall (s : (@cf R A)) (ds : list A) (rs : list R),
  keys_ok s ->
  NoDup order ->
  (forall a : A, In a order -> In a (c_arms s)) ->
  fit_in_order N aeqb s order ds rs = fit_in_order N aeqb s order' ds rs.
Proof. exact @fit_independent_of_task_order. Qed.
Print Assumptions C05_fit_independent_of_task_completion_order.

Theorem C05_parallel_fit_is_any_task_order :
  forall (R A : Type) (N : Num R) (aeqb : A -> A -> bool),
  (forall x y : A, aeqb x y = true <-> x = y) ->
  forall (s : (@cf R A)) (order ds : list A) (rs : list R),
  keys_ok s ->
  Permutation (c_arms s) order -> cf_parallel_fit N aeqb s ds rs = fit_in_order N aeqb s order ds rs.
Proof. exact @parallel_fit_is_any_task_order. Qed.
Print Assumptions C05_parallel_fit_is_any_task_order.

Theorem C05_tree_fit_tasks_commute :
  forall (R A : Type) (aeqb : A -> A -> bool),
  (forall x y : A, aeqb x y = true <-> x = y) ->
  forall (leaf : A -> list R -> nat) (lv : list (A * list (nat * list R))) (a b : A) 
    (ds : list A) (rs : list R) (cx : (@mat R)),
  a <> b ->
  In a (akeys lv) ->
  In b (akeys lv) ->
  tree_fit_arm aeqb leaf (tree_fit_arm aeqb leaf lv a ds rs cx) b ds rs cx =
  tree_fit_arm aeqb leaf (tree_fit_arm aeqb leaf lv b ds rs cx) a ds rs cx.
Proof. exact @tree_fit_tasks_commute. Qed.
Print Assumptions C05_tree_fit_tasks_commute.

Theorem C05_tree_fit_independent_of_task_completion_order :
  forall (R A : Type) (aeqb : A -> A -> bool),
  (forall x y : A, aeqb x y = true <-> x = y) ->
  forall (leaf : A -> list R -> nat) (ds : list A) (rs : list R) (cx : (@mat R)) (order order' : list A),
  Permutation order order' ->
  forall lv : list (A * list (nat * list R)),
  NoDup order ->
  (forall a : A, In a order -> In a (akeys lv)) ->
  fold_left
    (fun (lv0 : list (A * list (nat * list R))) (a : A) => tree_fit_arm aeqb leaf lv0 a ds rs cx) order
    lv =
  fold_left
    (fun (lv0 : list (A * list (nat * list R))) (a : A) => tree_fit_arm aeqb leaf lv0 a ds rs cx) order'
    lv.
Proof. exact @tree_fit_independent_of_task_order. Qed.
Print Assumptions C05_tree_fit_independent_of_task_completion_order.

Theorem C05_linear_fit_tasks_commute :
  forall (R A : Type) (N : Num R) (aeqb : A -> A -> bool),
  (forall x y : A, aeqb x y = true <-> x = y) ->
  forall (G : Type) (s : (@lin R A G)) (g : G) (a b : A) (ds : list A) (rs : list R) (cx : (@mat R)),
  a <> b ->
  In a (akeys (l_models s)) ->
  In b (akeys (l_models s)) ->
  obind (fun s1 : (@lin R A G) => lin_fit_arm N aeqb s1 g b ds rs cx) (lin_fit_arm N aeqb s g a ds rs cx) =
  obind (fun s1 : (@lin R A G) => lin_fit_arm N aeqb s1 g a ds rs cx) (lin_fit_arm N aeqb s g b ds rs cx).
Proof. exact @lin_fit_tasks_commute. Qed.
Print Assumptions C05_linear_fit_tasks_commute.

Example C05_partition_example : partition_sizes 7 3 = [3; 2; 2]%nat /\ starts (partition_sizes 7 3) = [0; 3; 5; 7]%nat.
Proof. split; reflexivity. Qed.

