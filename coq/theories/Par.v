(* Par.v — base_mab.py: _effective_jobs, _partition_contexts, and the chunked evaluation of
   _parallel_predict as a map over contiguous chunks. *)
From Coq Require Import ZArith List Bool Arith Lia.
Import ListNotations.

(* _effective_jobs(size, n_jobs) with cpu = mp.cpu_count() *)
Definition effective_jobs (cpu size n_jobs : Z) : Z :=
  let nj := if (n_jobs <? 0)%Z then Z.max (cpu + 1 + n_jobs) 1 else n_jobs in
  Z.min nj size.

(* _partition_contexts: n // j rows per job, the first n % j jobs get one more *)
Definition partition_sizes (n j : nat) : list nat :=
  map (fun i => n / j + (if i <? n mod j then 1 else 0)) (seq 0 j).

Fixpoint starts_from (acc : nat) (sizes : list nat) : list nat :=
  match sizes with
  | [] => [acc]
  | s :: t => acc :: starts_from (acc + s) t
  end.
Definition starts (sizes : list nat) : list nat := starts_from 0 sizes.

Definition sum_list (l : list nat) : nat := fold_right plus 0 l.

(* split a list into consecutive chunks of the given sizes *)
Fixpoint chunks {T} (sizes : list nat) (l : list T) : list (list T) :=
  match sizes with
  | [] => []
  | n :: t => firstn n l :: chunks t (skipn n l)
  end.

(* ---- theorems -------------------------------------------------------------------- *)
Theorem effective_jobs_range cpu size n_jobs :
  (1 <= cpu)%Z -> (1 <= size)%Z -> n_jobs <> 0%Z ->
  (1 <= effective_jobs cpu size n_jobs <= size)%Z.
Proof.
  intros Hc Hs Hn. unfold effective_jobs.
  destruct (n_jobs <? 0)%Z eqn:E; [apply Z.ltb_lt in E | apply Z.ltb_ge in E]; lia.
Qed.

Theorem effective_jobs_one cpu size : (1 <= size)%Z -> effective_jobs cpu size 1 = 1%Z.
Proof. intros; unfold effective_jobs; simpl; lia. Qed.

Lemma partition_sizes_length n j : length (partition_sizes n j) = j.
Proof. unfold partition_sizes; rewrite map_length, seq_length; reflexivity. Qed.

Lemma sum_map_const_plus (f : nat -> nat) (c : nat) (l : list nat) :
  sum_list (map (fun i => c + f i) l) = c * length l + sum_list (map f l).
Proof. induction l as [|x t IH]; simpl; [lia | rewrite IH; lia]. Qed.

Lemma sum_indicator_lt (r : nat) (j : nat) (a : nat) :
  sum_list (map (fun i => if i <? r then 1 else 0) (seq a j)) = Nat.min (r - a) j.
Proof.
  revert a. induction j as [|j IH]; intros a; simpl; [lia|].
  rewrite IH. destruct (Nat.ltb_spec a r); lia.
Qed.

Theorem partition_sizes_sum n j : 1 <= j -> sum_list (partition_sizes n j) = n.
Proof.
  intros Hj. unfold partition_sizes. rewrite sum_map_const_plus, seq_length, sum_indicator_lt.
  pose proof (Nat.mod_upper_bound n j ltac:(lia)) as Hm.
  pose proof (Nat.div_mod n j ltac:(lia)) as Hd.
  rewrite Nat.sub_0_r, Nat.min_l by lia. nia.
Qed.

Theorem partition_sizes_positive n j : 1 <= j -> j <= n -> Forall (fun s => 1 <= s) (partition_sizes n j).
Proof.
  intros Hj Hn. unfold partition_sizes. apply Forall_forall. intros s Hs.
  apply in_map_iff in Hs. destruct Hs as [i [E _]]. subst s.
  assert (1 <= n / j) by (apply Nat.div_le_lower_bound; lia). lia.
Qed.

Theorem partition_sizes_balanced n j : 1 <= j ->
  Forall (fun s => n / j <= s <= n / j + 1) (partition_sizes n j).
Proof.
  intros Hj. unfold partition_sizes. apply Forall_forall. intros s Hs.
  apply in_map_iff in Hs. destruct Hs as [i [E _]]. subst s. destruct (i <? n mod j); lia.
Qed.

(* any split into consecutive chunks whose sizes add up to the length covers the list exactly, in order *)
Theorem chunks_concat {T} (sizes : list nat) (l : list T) :
  sum_list sizes = length l -> concat (chunks sizes l) = l.
Proof.
  revert l. induction sizes as [|s t IH]; intros l H; simpl in *.
  - destruct l; [reflexivity | discriminate].
  - rewrite IH; [apply firstn_skipn | rewrite skipn_length; lia].
Qed.

Theorem chunks_count {T} (sizes : list nat) (l : list T) : length (chunks sizes l) = length sizes.
Proof. revert l; induction sizes as [|s t IH]; intros l; simpl; [reflexivity | f_equal; apply IH]. Qed.

Corollary partition_exact_cover {T} (l : list T) j :
  1 <= j -> concat (chunks (partition_sizes (length l) j) l) = l /\ length (chunks (partition_sizes (length l) j) l) = j.
Proof.
  intros Hj. split; [apply chunks_concat, partition_sizes_sum; exact Hj | rewrite chunks_count; apply partition_sizes_length].
Qed.

(* a per-row function evaluated chunk by chunk gives the same list as on the whole batch *)
Theorem map_chunks_concat {T U} (f : T -> U) (sizes : list nat) (l : list T) :
  sum_list sizes = length l -> concat (map (map f) (chunks sizes l)) = map f l.
Proof. intros H. rewrite <- (chunks_concat sizes l H) at 2. rewrite concat_map. reflexivity. Qed.

