(*  C18 — Results are independent of the data container type; inputs are never modified.
   
    What a model can carry (thin, by design): the facade's dispatch on the container kind.
    PROVED: lists, C- and Fortran-ordered arrays and DataFrames holding the same matrix are converted to the same
    internal matrix; a Series is one column when fit receives more than one decision and one row otherwise, and at
    query time one column exactly when the bandit was trained on a single feature.  In the model every value is
    immutable, so "inputs are never modified" cannot fail there.
    ..._partial: numpy / pandas conversion, dtype, memory order and in-place writes are runtime behaviour; they are
    OBSERVED on every run: the same history through seven container kinds compared with the list run, byte
    snapshots of every caller object before and after each call, and an aliasing probe of the arm list. *)
From Coq Require Import List ZArith Bool Arith QArith Qcanon Permutation.
From MW Require Import Num Assoc AssocFacts Rng Par CF CFInv CFClean CFForget CFSpec Matrix Lin Warm WarmInv Nbr NbrFacts NbrIndep LshFacts Clu Tree CellFacts Mab FacadeCF FacadeArms MoreFacts NumLaws CFAlg Sim Extra QcInst.
Import ListNotations.

Theorem C18_conversion_independent_of_container_partial :
  forall (R : Type) (t1 t2 : ctag) (n : nat) (data : list (list R)) (vals : list R),
  t1 <> TSeries ->
  t2 <> TSeries ->
  convert_fit t1 n data vals = convert_fit t2 n data vals /\
  convert_predict t1 n data vals = convert_predict t2 n data vals.
Proof. exact @convert_independent_of_container. Qed.
Print Assumptions C18_conversion_independent_of_container_partial.

Theorem C18_series_disambiguation :
  forall (R : Type) (n : nat) (vals : list R),
  ((1 < n)%nat -> convert_fit TSeries n [] vals = convert_fit TList n (map (fun v : R => [v]) vals) []) /\
  ((n <= 1)%nat -> convert_fit TSeries n [] vals = convert_fit TList n [vals] []) /\
  convert_predict TSeries 1 [] vals = convert_predict TList 1 (map (fun v : R => [v]) vals) [] /\
  (n <> 1%nat -> convert_predict TSeries n [] vals = convert_predict TList n [vals] []).
Proof. exact @series_disambiguation. Qed.
Print Assumptions C18_series_disambiguation.


