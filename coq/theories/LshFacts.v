(* LshFacts.v — C11: the LSH hash is an injective code of the sign pattern, the hash tables hold exactly
   the positions of the stored rows under the hash of each row, and the neighbourhood of a query is the
   set of stored rows that share its sign pattern in at least one table. *)
From Coq Require Import ZArith List Bool Arith Lia.
From MW Require Import Num Assoc AssocFacts Rng Par CF Matrix Lin Nbr.
Import ListNotations.

Section LshFacts.
Context {R A G : Type} (N : Num R).

(* the sign pattern of a row under one set of hyper-planes: bit i = [0 < row . plane[:, i]] *)
Definition sign_pattern (ndim : nat) (plane : mat (R:=R)) (row : list R) : list bool :=
  map (fun i => ltb N (zero N) (dot N row (col N plane i))) (seq 0 ndim).

(* little-endian value of a bit list *)
Fixpoint bits_value (l : list bool) : Z :=
  match l with [] => 0%Z | b :: t => ((if b then 1 else 0) + 2 * bits_value t)%Z end.

Lemma fold_bits (l : list nat) (f : nat -> bool) (acc : Z) :
  fold_left (fun a i => if f i then (a + 2 ^ Z.of_nat i)%Z else a) l acc =
  (acc + fold_left (fun a i => if f i then (a + 2 ^ Z.of_nat i)%Z else a) l 0)%Z.
Proof.
  revert acc. induction l as [|x t IH]; intros acc; simpl; [lia|].
  rewrite IH. rewrite (IH (if f x then _ else _)). destruct (f x); lia.
Qed.

Lemma hash_seq (f : nat -> bool) (a n : nat) :
  fold_left (fun acc i => if f i then (acc + 2 ^ Z.of_nat i)%Z else acc) (seq a n) 0%Z =
  (2 ^ Z.of_nat a * bits_value (map f (seq a n)))%Z.
Proof.
  revert a. induction n as [|n IH]; intros a; cbn [seq fold_left map bits_value]; [lia|].
  rewrite fold_bits. rewrite IH.
  replace (2 ^ Z.of_nat (S a))%Z with (2 * 2 ^ Z.of_nat a)%Z by (rewrite Nat2Z.inj_succ, Z.pow_succ_r; lia).
  destruct (f a); ring.
Qed.

Theorem hash_is_pattern_value (ndim : nat) (plane : mat (R:=R)) (row : list R) :
  lsh_hash N ndim plane row = bits_value (sign_pattern ndim plane row).
Proof.
  unfold lsh_hash, sign_pattern.
  rewrite (hash_seq (fun i => ltb N (zero N) (dot N row (col N plane i))) 0 ndim).
  change (2 ^ Z.of_nat 0)%Z with 1%Z. rewrite Z.mul_1_l. reflexivity.
Qed.

Lemma bits_value_inj (l l' : list bool) : length l = length l' -> bits_value l = bits_value l' -> l = l'.
Proof.
  revert l'. induction l as [|b t IH]; intros [|b' t'] Hl Hv; cbn [bits_value length] in *; try discriminate; [reflexivity|].
  assert (Hb : b = b') by (destruct b, b'; try reflexivity; lia).
  subst. f_equal. apply IH; [lia | destruct b'; lia].
Qed.

(* equal hash <=> equal sign pattern, for any number of dimensions *)
Theorem hash_injective_on_patterns (ndim : nat) (plane : mat (R:=R)) (row row' : list R) :
  lsh_hash N ndim plane row = lsh_hash N ndim plane row' <-> sign_pattern ndim plane row = sign_pattern ndim plane row'.
Proof.
  rewrite !hash_is_pattern_value. split; [|intros ->; reflexivity].
  apply bits_value_inj. unfold sign_pattern. rewrite !map_length. reflexivity.
Qed.

(* ---- the tables ---------------------------------------------------------------------------------- *)
Lemma zeqb_spec : forall x y : Z, zeqb x y = true <-> x = y.
Proof. intros; unfold zeqb; apply Z.eqb_eq. Qed.

(* inserting the rows of a batch: bucket h gains exactly the positions start+i of the rows that hash to h *)
Theorem insert_rows_bucket (ndim : nat) (plane : mat (R:=R)) (cx : mat (R:=R)) (start : nat) (tbl : list (Z * list nat)) (h : Z) (j : nat) :
  In j (aget_d zeqb [] (lsh_insert_rows N ndim plane tbl cx start) h) <->
  In j (aget_d zeqb [] tbl h) \/ (exists i, i < length cx /\ j = start + i /\ lsh_hash N ndim plane (nth i cx []) = h).
Proof.
  unfold lsh_insert_rows.
  assert (Hgen : forall (cx : mat (R:=R)) (a : nat) (tbl : list (Z * list nat)),
            In j (aget_d zeqb [] (fold_left (fun t ir => let '(i, row) := (ir : nat * list R) in
                                                       let h0 := lsh_hash N ndim plane row in
                                                       aset zeqb t h0 (aget_d zeqb [] t h0 ++ [start + i]))
                                            (combine (seq a (length cx)) cx) tbl) h) <->
            In j (aget_d zeqb [] tbl h) \/ (exists i, i < length cx /\ j = start + (a + i) /\ lsh_hash N ndim plane (nth i cx []) = h)).
  { clear cx tbl. induction cx as [|row cx IH]; intros a tbl; simpl.
    - split; [tauto | intros [H|[i [H _]]]; [exact H | lia]].
    - rewrite IH. clear IH.
      set (h0 := lsh_hash N ndim plane row).
      assert (Hb : In j (aget_d zeqb [] (aset zeqb tbl h0 (aget_d zeqb [] tbl h0 ++ [start + a])) h) <->
                   In j (aget_d zeqb [] tbl h) \/ (h0 = h /\ j = start + a)).
      { unfold aget_d. destruct (Z.eq_dec h h0) as [E|E].
        - subst h. rewrite (aget_aset_same zeqb zeqb_spec). rewrite in_app_iff. simpl. intuition.
        - rewrite (aget_aset_other zeqb zeqb_spec) by exact E. intuition congruence. }
      rewrite Hb. split.
      + intros [[H|[H1 H2]]|[i [H1 [H2 H3]]]].
        * left; exact H.
        * right. exists 0. repeat split; [lia | lia | exact H1].
        * right. exists (S i). repeat split; [lia | lia | exact H3].
      + intros [H|[i [H1 [H2 H3]]]]; [left; left; exact H|].
        destruct i as [|i]; [left; right; split; [exact H3 | lia] | right; exists i; repeat split; [lia | lia | exact H3]]. }
  rewrite (Hgen cx 0 tbl). simpl. reflexivity.
Qed.

(* the sorted duplicate-free union has the same members as the concatenation *)
Lemma insert_nat_in x l j : In j (insert_nat x l) <-> j = x \/ In j l.
Proof.
  induction l as [|y t IH]; simpl; [intuition|].
  destruct (Nat.ltb x y); simpl; [intuition|]. destruct (Nat.eqb_spec x y); simpl; [subst; intuition|].
  rewrite IH. intuition.
Qed.

Lemma nat_set_in (l : list nat) j : In j (nat_set l) <-> In j l.
Proof.
  unfold nat_set.
  assert (Hgen : forall l acc, In j (fold_left (fun acc x => insert_nat x acc) l acc) <-> In j l \/ In j acc).
  { clear l. induction l as [|x t IH]; intros acc; simpl; [intuition|]. rewrite IH, insert_nat_in. intuition. }
  rewrite Hgen. simpl. intuition.
Qed.

(* the neighbourhood of a query: stored positions found under the query's hash in some table *)
Theorem lsh_neighbourhood_membership (s : @nbr R A G) (ndim : nat) (row : list R) (j : nat) :
  In j (lsh_neighbors N s ndim row) <->
  exists plane tbl, In (plane, tbl) (combine (n_planes s) (n_tables s)) /\ In j (aget_d zeqb [] tbl (lsh_hash N ndim plane row)).
Proof.
  unfold lsh_neighbors. rewrite nat_set_in, in_flat_map. split.
  - intros [[plane tbl] [H1 H2]]. exists plane, tbl. auto.
  - intros [plane [tbl [H1 H2]]]. exists (plane, tbl). auto.
Qed.

End LshFacts.
