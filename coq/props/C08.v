(* C08 — Outputs always range over exactly the current arms, one result per context.

   FULL STATEMENT (every policy combination): at every state reachable by any history of add_arm,
   remove_arm, fit, partial_fit, warm_start and queries, predict returns a member of the current arm list,
   predict_expectations returns a dictionary whose keys are exactly the current arms in arm-list order,
   a removed arm never appears again, an added arm is present immediately, and m > 1 rows give a list
   of m results, one row / no contexts a single result.

   PROVED HERE:
   * the arm-list clauses (added arm present immediately and last, removed arm gone, rejected calls
     keep the list) for EVERY policy combination of the model;
   * the key / membership / shape clauses for every bandit with a context-free learning policy and no
     neighbourhood policy (theorems named ..._partial): for every history, every generator that answers
     with the requested number of values, every label type with decidable equality.
   MISSING in the partial theorems: the same invariant for linear, Radius/KNearest/LSH, Clusters and
   TreeBandit states (for those the clause is covered by the correspondence run only). *)
From Coq Require Import List ZArith Bool QArith Qcanon.
From MW Require Import Num Assoc Rng CF CFInv CFClean Mab FacadeCF FacadeArms QcInst.
Import ListNotations.

Theorem C08_invariant_on_every_history_partial :
  forall (R A G : Type) (N : Num R) (aeqb : A -> A -> bool) (RG : RngOps R G),
  (forall x y : A, aeqb x y = true <-> x = y) ->
  forall (ops : list op) (m : mab), rng_lengths_ok RG -> is_cf m -> mab_inv N m ->
  is_cf (state_after N aeqb RG m ops) /\ mab_inv N (state_after N aeqb RG m ops).
Proof. exact @run_preserves_inv. Qed.
Print Assumptions C08_invariant_on_every_history_partial.

Theorem C08_constructor_establishes_invariant :
  forall (R A G : Type) (N : Num R) (k : cfkind) (hp : R) (bz : option (A -> R -> R)) (arms : list A) (g : G),
  NoDup arms -> mab_inv N {| m_imp := ICf (cf_init N k hp bz arms); m_fitted := false; m_rng := g |}.
Proof. exact @init_inv. Qed.
Print Assumptions C08_constructor_establishes_invariant.

Theorem C08_query_results_range_over_current_arms_partial :
  forall (R A G : Type) (N : Num R) (aeqb : A -> A -> bool) (RG : RngOps R G) (m : mab)
         (cx : option (list (list R))) (orc : oracle),
  rng_lengths_ok RG -> is_cf m -> mab_inv N m ->
  out_wf (m_arms m) (ctx_len cx) (snd (step N aeqb RG m (Predict cx orc))) /\
  out_wf (m_arms m) (ctx_len cx) (snd (step N aeqb RG m (PredictExp cx orc))) /\
  m_arms (fst (step N aeqb RG m (Predict cx orc))) = m_arms m /\
  m_arms (fst (step N aeqb RG m (PredictExp cx orc))) = m_arms m.
Proof. exact @query_outputs_wf. Qed.
Print Assumptions C08_query_results_range_over_current_arms_partial.

Theorem C08_added_arm_present_immediately :
  forall (R A G : Type) (N : Num R) (aeqb : A -> A -> bool) (RG : RngOps R G),
  (forall x y : A, aeqb x y = true <-> x = y) ->
  forall (m : mab) (a : A) (bz : option (A -> R -> R)),
  snd (step N aeqb RG m (AddArm a bz)) = ODone ->
  ~ In a (m_arms m) /\ m_arms (fst (step N aeqb RG m (AddArm a bz))) = m_arms m ++ [a].
Proof. exact @add_arm_arms. Qed.
Print Assumptions C08_added_arm_present_immediately.

Theorem C08_removed_arm_never_listed :
  forall (R A G : Type) (N : Num R) (aeqb : A -> A -> bool) (RG : RngOps R G),
  (forall x y : A, aeqb x y = true <-> x = y) ->
  forall (m : mab) (a : A), NoDup (m_arms m) -> snd (step N aeqb RG m (RemoveArm a)) = ODone ->
  ~ In a (m_arms (fst (step N aeqb RG m (RemoveArm a)))).
Proof. exact @removed_arm_gone. Qed.
Print Assumptions C08_removed_arm_never_listed.

(* non-vacuity: a concrete UCB1 bandit over exact rationals satisfies the hypotheses, and a concrete
   history (train, remove, re-add, query with three rows) produces well-formed results *)
Definition ex_m0 : @mab Qc Z nat :=
  {| m_imp := ICf (cf_init QcNum KUcb 1%Qc None [3; 1; 2]%Z); m_fitted := false; m_rng := 0%nat |}.
Definition ex_orc : @oracle Qc Z := mkOracle [] [] [] (fun _ _ => 0%nat) [].
Definition ex_ops : list (@op Qc Z) :=
  [Fit [3; 1; 1]%Z [1%Qc; 0%Qc; 1%Qc] None ex_orc; RemoveArm 1%Z; AddArm 7%Z None; AddArm 1%Z None;
   PartialFit [7]%Z [1%Qc] None ex_orc].
Example C08_hypotheses_satisfiable :
  rng_lengths_ok ToyRng /\ is_cf ex_m0 /\ mab_inv QcNum ex_m0 /\
  m_arms (state_after QcNum Z.eqb ToyRng ex_m0 ex_ops) = [3; 2; 7; 1]%Z.
Proof.
  split; [exact toy_rng_lengths_ok|]. split; [eexists; reflexivity|].
  split; [apply init_inv; repeat constructor; simpl; intuition discriminate | vm_compute; reflexivity].
Qed.
