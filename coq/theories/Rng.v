(* Rng.v — numpy's Generator as an oracle.  A generator is an abstract state G;
   every draw is a *request* (kind, parameters, shape) answered by a deterministic
   function of the state.  Theorems quantify over all RngOps; the OCaml driver
   instantiates G by the tape recorded from the real generator and fails closed
   when the model's request differs from the recorded one. *)
From Coq Require Import ZArith List.
Import ListNotations.

Section Rng.
Context {R : Type}.

Inductive req : Type :=
| RqRand (shape : list nat)                               (* rng.random(shape); [] = scalar *)
| RqRandint (high : Z) (size : nat)                       (* rng.integers(low=high, high=None, size) *)
| RqRandint2 (low high : Z)                               (* rng.integers(low, high) scalar *)
| RqBeta (a b : R) (size : nat)                           (* rng.beta(a, b, size) *)
| RqDirichlet (alpha : list R) (size : nat)               (* rng.dirichlet(alpha, size) *)
| RqChoice (n : nat) (p : option (list R))                (* rng.choice(n, size=1, p=p) *)
| RqStdNormal (rows cols : nat)                           (* rng.standard_normal((rows, cols)) *)
| RqMvn (mean : list R) (cov : list (list R)) (size : nat). (* multivariate_normal(mean, cov, size, cholesky) *)

Record RngOps (G : Type) : Type := mkRng {
  draw_r : G -> req -> list R * G;     (* real-valued answers, flattened row-major *)
  draw_z : G -> req -> list Z * G;     (* integer answers *)
  create : Z -> G                      (* create_rng(seed) *)
}.
End Rng.

Arguments req : clear implicits.
Arguments RngOps : clear implicits.
Arguments draw_r {R G}. Arguments draw_z {R G}. Arguments create {R G}.
