(* Extra.v — C02 (what the linear policies compute), C04 (isolation of bandit instances), C18 (container
   dispatch), C20 (renaming the arms). *)
From Coq Require Import ZArith List Bool Arith Lia.
From MW Require Import Num Assoc AssocFacts Rng Par CF CFSpec Matrix Lin Warm Nbr Clu Tree Mab.
Import ListNotations.

(* ================================ C02 ================================ *)
Section LinFacts.
Context {R A G : Type} (N : Num R) (aeqb : A -> A -> bool) (RG : RngOps R G).

(* _RidgeRegression.init: A = lambda*I, Xty = 0, beta = A_inv.0; A_inv is lambda*I in the code (finding D2)
   and I/lambda in the documented model *)
Theorem ridge_init_state (s : @lin R A G) (d : nat) (m : @ridge R G) :
  let m' := ridge_init N s d m in
  r_A m' = mscale N (l_l2 s) (identity N d) /\ r_Xty m' = zeros N d /\
  r_Ainv m' = (if l_kf_ainv s then mscale N (l_l2 s) (identity N d) else mscale N (div N (one N) (l_l2 s)) (identity N d)) /\
  r_beta m' = mat_vec N (r_Ainv m') (zeros N d).
Proof. unfold ridge_init; simpl. destruct (l_kf_ainv s); auto. Qed.

(* _RidgeRegression.fit without scaler: the normal equations are accumulated and solved *)
Theorem ridge_fit_normal_equations (d : nat) (m m' : @ridge R G) (x : mat (R:=R)) (y : vec (R:=R)) :
  r_scaler m = None -> ridge_fit N d m x y = Some m' ->
  r_A m' = madd N (r_A m) (xtx N d x) /\ r_Xty m' = vadd N (r_Xty m) (xty N d x y) /\
  inverse N d (r_A m') = Some (r_Ainv m') /\ r_beta m' = mat_vec N (r_Ainv m') (r_Xty m').
Proof.
  intros Hs H. unfold ridge_fit in H. rewrite Hs in H.
  destruct (inverse N d (madd N (r_A m) (xtx N d x))) as [ainv|] eqn:Ei; [|discriminate].
  injection H as <-. simpl. auto.
Qed.

(* predict of the three regressions (no scaler) *)
Theorem lingreedy_expectation (s : @lin R A G) (m : @ridge R G) g (x : mat (R:=R)) :
  l_kind s = RRidge -> r_scaler m = None ->
  ridge_predict N RG s m g x = (map (fun row => dot N row (r_beta m)) x, m, g).
Proof. intros Hk Hs. unfold ridge_predict. rewrite Hk, Hs. reflexivity. Qed.

Theorem linucb_expectation (s : @lin R A G) (m : @ridge R G) g (x : mat (R:=R)) :
  l_kind s = RUcb -> r_scaler m = None ->
  ridge_predict N RG s m g x =
  (map (fun row => add N (dot N row (r_beta m))
                     (mul N (l_alpha s) (sqrt N (nsum N (map2 (mul N) (map (fun c => dot N row c) (transpose N (length row) (r_Ainv m))) row))))) x, m, g).
Proof. intros Hk Hs. unfold ridge_predict. rewrite Hk, Hs. reflexivity. Qed.

(* LinTS: one multivariate normal request N(beta, alpha^2 A_inv) with one sample per row, read out linearly *)
Theorem lints_request_and_readout (s : @lin R A G) (m : @ridge R G) g gm (x : mat (R:=R)) :
  l_kind s = RTs -> r_scaler m = None -> r_rng m = Some gm ->
  let cov := mscale N (mul N (l_alpha s) (l_alpha s)) (r_Ainv m) in
  let '(smp, gm') := draw_r RG gm (RqMvn (r_beta m) cov (length x)) in
  fst (fst (ridge_predict N RG s m g x)) =
  map2 (fun row b => nsum N (map2 (mul N) row b)) x (chunk_rows (length x) (length (r_beta m)) smp).
Proof.
  intros Hk Hs Hr cov. unfold ridge_predict. rewrite Hk, Hs, Hr. fold cov.
  destruct (draw_r RG gm (RqMvn (r_beta m) cov (length x))) as [smp gm']. reflexivity.
Qed.

(* ---- scale=True: the arm's own StandardScaler -------------------------------------------------------------------- *)
(* the first fit of an arm: the scaler is fitted on the arm's rows, and the regression is the ridge regression of the
   STANDARDISED rows *)
Theorem ridge_fit_scaled_normal_equations (d : nat) (m m' : @ridge R G) (x : mat (R:=R)) (y : vec (R:=R)) :
  r_scaler m = Some None -> ridge_fit N d m x y = Some m' ->
  let sc := scaler_fit N d x in let z := scaler_transform N sc x in
  r_scaler m' = Some (Some sc) /\
  r_A m' = madd N (r_A m) (xtx N d z) /\ r_Xty m' = vadd N (r_Xty m) (xty N d z y) /\
  inverse N d (r_A m') = Some (r_Ainv m') /\ r_beta m' = mat_vec N (r_Ainv m') (r_Xty m').
Proof.
  intros Hs H sc z. unfold ridge_fit in H. rewrite Hs in H. fold sc in H. fold z in H.
  destruct (inverse N d (madd N (r_A m) (xtx N d z))) as [ainv|] eqn:Ei; [|discriminate].
  injection H as <-. simpl. auto.
Qed.

(* what the scaler holds: per column the mean and the population standard deviation of the arm's rows (0 / 1 for a column whose
   deviation does not exceed 1e-6: fix_small_variance), and a row is standardised column by column *)
Theorem scaler_fit_spec (d : nat) (x : mat (R:=R)) :
  let cols := transpose N d x in
  sc_mean (scaler_fit N d x) = map (col_mean N) cols /\
  sc_scale (scaler_fit N d x) = map (fun c => snd (fix_scale N (col_var N c (col_mean N c)))) cols.
Proof.
  intros cols. unfold scaler_fit. fold cols. cbn [sc_mean sc_scale]. split; [reflexivity|].
  rewrite map_map. clear. induction cols as [|c t IH]; [reflexivity|]. cbn [map map2]. f_equal. exact IH.
Qed.

Theorem scaler_transform_spec (sc : @scaler R) (x : mat (R:=R)) :
  scaler_transform N sc x = map (fun row => map2 (fun xm s => div N (sub N (fst xm) (snd xm)) s) (combine row (sc_mean sc)) (sc_scale sc)) x.
Proof. reflexivity. Qed.

(* queries are standardised with the arm's own scaler before the arm's coefficients are applied *)
Theorem lingreedy_expectation_scaled (s : @lin R A G) (m : @ridge R G) (sc : @scaler R) g (x : mat (R:=R)) :
  l_kind s = RRidge -> r_scaler m = Some (Some sc) ->
  ridge_predict N RG s m g x = (map (fun row => dot N row (r_beta m)) (scaler_transform N sc x), m, g).
Proof. intros Hk Hs. unfold ridge_predict. rewrite Hk, Hs. reflexivity. Qed.

Theorem linucb_expectation_scaled (s : @lin R A G) (m : @ridge R G) (sc : @scaler R) g (x : mat (R:=R)) :
  l_kind s = RUcb -> r_scaler m = Some (Some sc) ->
  ridge_predict N RG s m g x =
  (map (fun row => add N (dot N row (r_beta m))
                     (mul N (l_alpha s) (sqrt N (nsum N (map2 (mul N) (map (fun c => dot N row c) (transpose N (length row) (r_Ainv m))) row)))))
       (scaler_transform N sc x), m, g).
Proof. intros Hk Hs. unfold ridge_predict. rewrite Hk, Hs. reflexivity. Qed.

End LinFacts.

(* ================================ C04 ================================ *)
Section World.
Context {R A G : Type} (N : Num R) (aeqb : A -> A -> bool) (RG : RngOps R G).
Notation mab := (@mab R A G).
Notation op := (@op R A).
Notation out := (@out R A).

(* a process: several bandit objects; a call addresses one of them *)
Definition wstep (w : list mab) (i : nat) (o : op) : list mab * out :=
  match nth_error w i with
  | Some m => let (m', r) := step N aeqb RG m o in (set_nth w i m', r)
  | None => (w, ORejected)
  end.

Fixpoint wrun (w : list mab) (calls : list (nat * op)) : list mab * list (nat * out) :=
  match calls with
  | [] => (w, [])
  | (i, o) :: t => let (w1, r) := wstep w i o in let (w2, rs) := wrun w1 t in (w2, (i, r) :: rs)
  end.

Definition only (i : nat) {T} (l : list (nat * T)) : list T :=
  map snd (filter (fun c => Nat.eqb (fst c) i) l).

Lemma nth_error_set_nth_same {T} (l : list T) i x : i < length l -> nth_error (set_nth l i x) i = Some x.
Proof. revert i. induction l as [|y t IH]; intros [|i] H; simpl in *; try lia; [reflexivity | apply IH; lia]. Qed.
Lemma nth_error_set_nth_other {T} (l : list T) i j x : i <> j -> nth_error (set_nth l i x) j = nth_error l j.
Proof. revert i j. induction l as [|y t IH]; intros [|i] [|j] H; simpl; try reflexivity; try lia. apply IH. lia. Qed.

(* what bandit i returns in ANY interleaving with calls on other bandits is what it returns when it is driven
   alone through its own calls (its state evolves identically) *)
Lemma only_cons {T} (i j : nat) (x : T) (t : list (nat * T)) :
  only i ((j, x) :: t) = if Nat.eqb j i then x :: only i t else only i t.
Proof. unfold only. simpl. destruct (Nat.eqb j i); reflexivity. Qed.

Theorem isolation (calls : list (nat * op)) (w : list mab) (i : nat) (m : mab) :
  nth_error w i = Some m ->
  only i (snd (wrun w calls)) = snd (run N aeqb RG m (only i calls)) /\
  nth_error (fst (wrun w calls)) i = Some (fst (run N aeqb RG m (only i calls))).
Proof.
  revert w m. induction calls as [|[j o] t IH]; intros w m Hm; [simpl; auto|].
  rewrite only_cons. cbn [wrun]. unfold wstep. destruct (Nat.eqb_spec j i) as [E|E].
  - subst j. rewrite Hm. destruct (step N aeqb RG m o) as [m' r] eqn:Es.
    assert (Hi : i < length w) by (apply nth_error_Some; congruence).
    specialize (IH (set_nth w i m') m' (nth_error_set_nth_same w i m' Hi)).
    destruct (wrun (set_nth w i m') t) as [w2 rs]. cbn [fst snd run] in *.
    rewrite only_cons, Nat.eqb_refl. rewrite Es.
    destruct IH as [IH1 IH2].
    destruct (run N aeqb RG m' (only i t)) as [m2 rs2]. cbn [fst snd] in *. rewrite IH1. auto.
  - destruct (nth_error w j) as [mj|] eqn:Ej.
    + destruct (step N aeqb RG mj o) as [mj' r].
      assert (Hm' : nth_error (set_nth w j mj') i = Some m) by (rewrite nth_error_set_nth_other by exact E; exact Hm).
      specialize (IH (set_nth w j mj') m Hm').
      destruct (wrun (set_nth w j mj') t) as [w2 rs]. cbn [fst snd] in *.
      rewrite only_cons. destruct (Nat.eqb_spec j i); [contradiction|]. exact IH.
    + specialize (IH w m Hm). destruct (wrun w t) as [w2 rs]. cbn [fst snd] in *.
      rewrite only_cons. destruct (Nat.eqb_spec j i); [contradiction|]. exact IH.
Qed.

End World.

(* ================================ C18 ================================ *)
Section Containers.
Context {R : Type}.

Inductive ctag := TList | TNdC | TNdF | TFrame | TSeries.

(* MAB.__convert_context: [data] is the matrix a list / array / frame holds, [vals] the values a Series holds *)
Definition convert_fit (t : ctag) (n_decisions : nat) (data : list (list R)) (vals : list R) : list (list R) :=
  match t with
  | TSeries => if Nat.ltb 1 n_decisions then map (fun v => [v]) vals else [vals]
  | _ => data
  end.
Definition convert_predict (t : ctag) (num_features : nat) (data : list (list R)) (vals : list R) : list (list R) :=
  match t with
  | TSeries => if Nat.eqb num_features 1 then map (fun v => [v]) vals else [vals]
  | _ => data
  end.

Theorem convert_independent_of_container (t1 t2 : ctag) n data vals :
  t1 <> TSeries -> t2 <> TSeries ->
  convert_fit t1 n data vals = convert_fit t2 n data vals /\ convert_predict t1 n data vals = convert_predict t2 n data vals.
Proof. intros H1 H2. destruct t1, t2; try contradiction; auto. Qed.

(* a Series is one column when there are several decisions, one row otherwise; at query time it is one column
   exactly when the bandit was trained on a single feature *)
Theorem series_disambiguation (n : nat) (vals : list R) :
  (1 < n -> convert_fit TSeries n [] vals = convert_fit TList n (map (fun v => [v]) vals) []) /\
  (n <= 1 -> convert_fit TSeries n [] vals = convert_fit TList n [vals] []) /\
  convert_predict TSeries 1 [] vals = convert_predict TList 1 (map (fun v => [v]) vals) [] /\
  (n <> 1 -> convert_predict TSeries n [] vals = convert_predict TList n [vals] []).
Proof.
  repeat split; simpl.
  - intros H. destruct (Nat.ltb_spec 1 n); [reflexivity | lia].
  - intros H. destruct (Nat.ltb_spec 1 n); [lia | reflexivity].
  - intros H. destruct (Nat.eqb_spec n 1); [contradiction | reflexivity].
Qed.

End Containers.

(* ================================ C20 ================================ *)
Section Relabel.
Context {R A B : Type} (aeqb : A -> A -> bool) (beqb : B -> B -> bool) (f : A -> B).
Hypothesis f_eqb : forall x y, beqb (f x) (f y) = aeqb x y.

Lemma arm_rewards_relabel (a : A) (ds : list A) (rs : list R) :
  arm_rewards beqb (f a) (map f ds) rs = arm_rewards aeqb a ds rs.
Proof.
  unfold arm_rewards. revert rs. induction ds as [|d t IH]; intros [|r rs]; simpl; try reflexivity.
  rewrite f_eqb. destruct (aeqb d a); simpl; rewrite IH; reflexivity.
Qed.

Definition relabel_op (o : @cfop R A) : @cfop R B :=
  match o with
  | OFit ds rs => OFit (map f ds) rs
  | OPartial ds rs => OPartial (map f ds) rs
  | OAdd a _ => OAdd (f a) None
  | ORemove a => ORemove (f a)
  end.

(* after renaming the arms by f (any renaming under which label equality is preserved, e.g. any injection),
   the renamed arm sees exactly the reward batches the original arm saw: by the closed forms of C01 every
   statistic of the renamed problem is the statistic of the original one *)
Theorem batches_relabel (rops : list (@cfop R A)) (a : A) :
  batches_rev beqb (map relabel_op rops) (f a) = batches_rev aeqb rops a.
Proof.
  induction rops as [|o t IH]; simpl; [reflexivity|].
  destruct o as [ds rs | ds rs | b bz | b]; simpl.
  - rewrite arm_rewards_relabel. reflexivity.
  - rewrite arm_rewards_relabel, IH. reflexivity.
  - rewrite f_eqb. destruct (aeqb b a); [reflexivity | exact IH].
  - exact IH.
Qed.

End Relabel.
