(* CFSpec.v — C01: after ANY history of fit / partial_fit / add_arm / remove_arm the statistics a
   context-free policy holds for an arm are the documented function of exactly the rewards observed
   for that arm since the most recent fit (or since the arm was (re-)added).
   The specification scans the history backwards from the most recent call (a different shape from
   the model, which folds forwards over the calls and over the arms). *)
From Coq Require Import ZArith List Bool Lia.
From MW Require Import Num Assoc AssocFacts Rng CF CFInv.
Import ListNotations.

Section CFSpec.
Context {R A G : Type} (N : Num R) (aeqb : A -> A -> bool).
Hypothesis aeqb_spec : forall x y, aeqb x y = true <-> x = y.

Notation cf := (@cf R A).
Notation "0" := (zero N).
Notation "1" := (one N).

Inductive cfop : Type :=
| OFit (ds : list A) (rs : list R)
| OPartial (ds : list A) (rs : list R)
| OAdd (a : A) (bz : option (A -> R -> R))
| ORemove (a : A).

Definition cf_step (s : cf) (o : cfop) : cf :=
  match o with
  | OFit ds rs => cf_fit N aeqb s ds rs
  | OPartial ds rs => cf_partial_fit N aeqb s ds rs
  | OAdd a bz => cf_add_arm N aeqb s a bz
  | ORemove a => cf_remove_arm N aeqb s a
  end.

(* calls are given most recent first *)
Fixpoint cf_run_rev (s0 : cf) (rops : list cfop) : cf :=
  match rops with
  | [] => s0
  | o :: t => cf_step (cf_run_rev s0 t) o
  end.

(* the facade only lets add_arm through for a new label *)
Fixpoint valid_rev (s0 : cf) (rops : list cfop) : Prop :=
  match rops with
  | [] => True
  | OAdd a _ :: t => ~ In a (c_arms (cf_run_rev s0 t)) /\ valid_rev s0 t
  | _ :: t => valid_rev s0 t
  end.

(* ---- specification: the reward batches of arm a, most recent first --------------------- *)
Fixpoint batches_rev (rops : list cfop) (a : A) : list (list R) :=
  match rops with
  | [] => []
  | OFit ds rs :: _ => [arm_rewards aeqb a ds rs]
  | OPartial ds rs :: t => arm_rewards aeqb a ds rs :: batches_rev t a
  | OAdd b _ :: t => if aeqb b a then [] else batches_rev t a
  | ORemove _ :: t => batches_rev t a
  end.

(* running sum and count exactly as accumulated: batch by batch, empty batches skipped *)
Fixpoint spec_sum (bs : list (list R)) : R :=
  match bs with
  | [] => 0
  | b :: t => if is_nil b then spec_sum t else add N (spec_sum t) (nsum N b)
  end.
Fixpoint spec_count (bs : list (list R)) : Z :=
  match bs with
  | [] => 0%Z
  | b :: t => if is_nil b then spec_count t else (spec_count t + Z.of_nat (length b))%Z
  end.
Definition spec_mean (bs : list (list R)) : R :=
  if Z.eqb (spec_count bs) 0 then 0 else div N (spec_sum bs) (of_Z N (spec_count bs)).

(* Thompson: 1 + successes, 1 + failures (every batch contributes, also the empty ones) *)
Fixpoint spec_succ (bs : list (list R)) : R :=
  match bs with [] => 1 | b :: t => add N (spec_succ t) (nsum N b) end.
Fixpoint spec_fail (bs : list (list R)) : R :=
  match bs with [] => 1 | b :: t => add N (spec_fail t) (sub N (of_Z N (Z.of_nat (length b))) (nsum N b)) end.

(* ---- per-arm locality of the parallel fit ------------------------------------------------ *)
(* what _fit_arm does to the entries of its own arm *)
Definition greedy_upd (st : @armst R) (ar : list R) : @armst R :=
  if is_nil ar then st else
  mkArmst (add N (s_sum st) (nsum N ar)) (s_count st + Z.of_nat (length ar))%Z (s_mean st) (s_expo st) (s_succ st) (s_fail st).

Lemma fit_arm_other (s : cf) a b ds rs :
  a <> b ->
  aget aeqb (c_stats (cf_fit_arm N aeqb s b ds rs)) a = aget aeqb (c_stats s) a /\
  aget aeqb (c_exp (cf_fit_arm N aeqb s b ds rs)) a = aget aeqb (c_exp s) a.
Proof.
  intros Hne. unfold cf_fit_arm.
  destruct (c_kind s); simpl;
    repeat match goal with |- context [if ?c then _ else _] => destruct c; simpl end;
    rewrite ?(aget_aset_other aeqb aeqb_spec) by exact Hne; auto.
Qed.

Lemma fold_fit_arm_other (s : cf) a ds rs l :
  ~ In a l ->
  aget aeqb (c_stats (fold_left (fun s b => cf_fit_arm N aeqb s b ds rs) l s)) a = aget aeqb (c_stats s) a /\
  aget aeqb (c_exp (fold_left (fun s b => cf_fit_arm N aeqb s b ds rs) l s)) a = aget aeqb (c_exp s) a.
Proof.
  revert s. induction l as [|b t IH]; intros s Hn; simpl; [auto|].
  destruct (IH (cf_fit_arm N aeqb s b ds rs)) as [H1 H2]; [intros H; apply Hn; right; exact H|].
  destruct (fit_arm_other s a b ds rs) as [H3 H4]; [intros E; apply Hn; left; symmetry; exact E|].
  rewrite H1, H2, H3, H4. auto.
Qed.

(* the parallel fit touches arm a exactly once: where a stands in the arm list *)
Lemma parallel_fit_arm (s : cf) a ds rs :
  NoDup (c_arms s) -> In a (c_arms s) ->
  exists s1, (* the state just before arm a is fitted agrees with s on a's entries *)
    aget aeqb (c_stats s1) a = aget aeqb (c_stats s) a /\ aget aeqb (c_exp s1) a = aget aeqb (c_exp s) a /\
    c_kind s1 = c_kind s /\ c_hp s1 = c_hp s /\ c_total s1 = c_total s /\
    aget aeqb (c_stats (cf_parallel_fit N aeqb s ds rs)) a = aget aeqb (c_stats (cf_fit_arm N aeqb s1 a ds rs)) a /\
    aget aeqb (c_exp (cf_parallel_fit N aeqb s ds rs)) a = aget aeqb (c_exp (cf_fit_arm N aeqb s1 a ds rs)) a.
Proof.
  unfold cf_parallel_fit. generalize (c_arms s) as l. intros l. revert s.
  induction l as [|b t IH]; intros s Hn Hin; [contradiction|].
  inversion Hn as [|? ? Hb Ht]; subst. simpl.
  destruct (keqb_dec aeqb aeqb_spec a b) as [E|E].
  - subst b. exists s. repeat split; auto;
      apply (fold_fit_arm_other (cf_fit_arm N aeqb s a ds rs) a ds rs t Hb).
  - destruct Hin as [Hin|Hin]; [congruence|].
    destruct (IH (cf_fit_arm N aeqb s b ds rs) Ht Hin) as [s1 (H1 & H2 & H3 & H4 & H5 & H6 & H7)].
    destruct (fit_arm_other s a b ds rs E) as [F1 F2].
    pose proof (fit_arm_cfg N aeqb s b ds rs) as (K1 & K2 & _).
    exists s1. rewrite H1, H2, H3, H4, F1, F2, K1, K2. repeat split; auto.
    rewrite H5. unfold cf_fit_arm. destruct (c_kind s); simpl;
      repeat match goal with |- context [if ?c then _ else _] => destruct c; simpl end; reflexivity.
Qed.


Lemma spec_count_nonneg bs : (0 <= spec_count bs)%Z.
Proof. induction bs as [|b t IH]; simpl; [lia|]. destruct (is_nil b); lia. Qed.

Lemma is_nil_length {T} (l : list T) : is_nil l = false -> (0 < Z.of_nat (length l))%Z.
Proof. destruct l; simpl; [discriminate | lia]. Qed.

(* ---- EpsilonGreedy: running sum, count and mean ---------------------------------------- *)
Definition greedy_arm_ok (s : cf) (bs : list (list R)) (a : A) : Prop :=
  exists st, aget aeqb (c_stats s) a = Some st /\ s_sum st = spec_sum bs /\ s_count st = spec_count bs /\
             aget aeqb (c_exp s) a = Some (spec_mean bs).

Lemma greedy_fit_arm_view (s1 : cf) a ds rs st e :
  c_kind s1 = KGreedy -> aget aeqb (c_stats s1) a = Some st -> aget aeqb (c_exp s1) a = Some e ->
  let ar := arm_rewards aeqb a ds rs in
  aget aeqb (c_stats (cf_fit_arm N aeqb s1 a ds rs)) a = Some (greedy_upd st ar) /\
  aget aeqb (c_exp (cf_fit_arm N aeqb s1 a ds rs)) a =
    Some (if is_nil ar then e else div N (add N (s_sum st) (nsum N ar)) (of_Z N (s_count st + Z.of_nat (length ar)))).
Proof.
  intros Ek Hs He ar. unfold cf_fit_arm, greedy_upd. rewrite Ek. fold ar.
  unfold aget_d. rewrite Hs.
  destruct (is_nil ar); [auto|]. simpl. rewrite !(aget_aset_same aeqb aeqb_spec). auto.
Qed.

Theorem greedy_stat (s0 : cf) (rops : list cfop) :
  c_kind s0 = KGreedy -> keys_ok s0 ->
  (forall a, In a (c_arms s0) -> greedy_arm_ok s0 [] a) ->
  valid_rev s0 rops ->
  let s := cf_run_rev s0 rops in
  keys_ok s /\ c_kind s = KGreedy /\ forall a, In a (c_arms s) -> greedy_arm_ok s (batches_rev rops a) a.
Proof.
  intros Ek0 Hk0 H0. induction rops as [|o t IH]; intros Hv; simpl in *; [auto|].
  assert (Hvt : valid_rev s0 t) by (destruct o; simpl in Hv; tauto).
  destruct (IH Hvt) as (Hk & Ek & Harm). clear IH.
  set (s := cf_run_rev s0 t) in *.
  destruct o as [ds rs | ds rs | b bz | b]; simpl.
  - (* fit *)
    split; [apply (cf_fit_keys_ok N aeqb aeqb_spec); exact Hk|].
    split; [rewrite (proj1 (cf_fit_cfg N aeqb s ds rs)); exact Ek|].
    intros a Ha. rewrite (proj2 (proj2 (proj2 (proj2 (cf_fit_cfg N aeqb s ds rs))))) in Ha.
    unfold cf_fit. rewrite Ek.
    set (s1 := reset_status (set_exp (reset_sums N s) (areset (c_exp s) 0))).
    assert (Hk1 : keys_ok s1).
    { destruct Hk as (a1&a2&a3&a4). unfold s1, keys_ok, reset_status, reset_sums; simpl. repeat split; auto.
      - rewrite akeys_areset; exact a2.
      - apply akeys_afromkeys.
      - rewrite akeys_map_snd; exact a4. }
    destruct Hk as (Hn & He & Hst & Hss).
    destruct (parallel_fit_arm s1 a ds rs) as [s2 (P1 & P2 & P3 & P4 & P5 & P6 & P7)]; [exact Hn | exact Ha|].
    assert (Hs1 : aget aeqb (c_stats s1) a = Some (mkArmst 0 0%Z 0 (s_expo (aget_d aeqb (armst0 N) (c_stats s) a)) (s_succ (aget_d aeqb (armst0 N) (c_stats s) a)) (s_fail (aget_d aeqb (armst0 N) (c_stats s) a)))).
    { unfold s1, reset_status, reset_sums; simpl.
      rewrite (aget_map_vals aeqb aeqb_spec (fun _ st => mkArmst 0 0%Z 0 (s_expo st) (s_succ st) (s_fail st))).
      destruct (aget_in aeqb aeqb_spec (c_stats s) a) as [st Hst']; [rewrite Hss; exact Ha|].
      unfold aget_d. rewrite Hst'. reflexivity. }
    assert (He1 : aget aeqb (c_exp s1) a = Some 0).
    { unfold s1; simpl. apply (aget_areset aeqb aeqb_spec). rewrite He; exact Ha. }
    rewrite <- P1 in Hs1. rewrite <- P2 in He1.
    destruct (greedy_fit_arm_view s2 a ds rs _ _ (eq_trans P3 Ek) Hs1 He1) as [V1 V2].
    unfold greedy_arm_ok. simpl. rewrite P6, P7, V1, V2.
    unfold greedy_upd, spec_mean. simpl.
    destruct (is_nil (arm_rewards aeqb a ds rs)) eqn:En; simpl.
    + eexists; repeat split; reflexivity.
    + eexists; repeat split; try reflexivity.
      pose proof (is_nil_length _ En) as Hl.
      match goal with |- context [Z.eqb ?x 0] => destruct (Z.eqb_spec x 0); [lia|] end. reflexivity.
  - (* partial_fit *)
    split; [apply (cf_partial_fit_keys_ok N aeqb aeqb_spec); exact Hk|].
    split; [rewrite (proj1 (cf_partial_fit_cfg N aeqb s ds rs)); exact Ek|].
    intros a Ha. rewrite (proj2 (proj2 (proj2 (proj2 (cf_partial_fit_cfg N aeqb s ds rs))))) in Ha.
    unfold cf_partial_fit. rewrite Ek.
    destruct (Harm a Ha) as [st (S1 & S2 & S3 & S4)].
    destruct Hk as (Hn & He & Hst & Hss).
    destruct (parallel_fit_arm s a ds rs Hn Ha) as [s2 (P1 & P2 & P3 & P4 & P5 & P6 & P7)].
    rewrite <- P1 in S1. rewrite <- P2 in S4.
    destruct (greedy_fit_arm_view s2 a ds rs _ _ (eq_trans P3 Ek) S1 S4) as [V1 V2].
    unfold greedy_arm_ok. simpl. rewrite P6, P7, V1, V2.
    unfold greedy_upd. destruct (is_nil (arm_rewards aeqb a ds rs)) eqn:En; simpl.
    + exists st; repeat split; auto. unfold spec_mean; simpl; rewrite En; reflexivity.
    + eexists; repeat split; simpl; try (rewrite ?S2, ?S3; reflexivity).
      unfold spec_mean; simpl; rewrite En. rewrite S2, S3.
      pose proof (is_nil_length _ En) as Hl. pose proof (spec_count_nonneg (batches_rev t a)).
      match goal with |- context [Z.eqb ?x 0] => destruct (Z.eqb_spec x 0); [lia|] end. reflexivity.
  - (* add_arm *)
    destruct Hv as [Hnot _].
    split; [apply (cf_add_arm_keys_ok N aeqb aeqb_spec); assumption|].
    split; [unfold cf_add_arm; rewrite Ek; simpl; exact Ek|].
    intros a Ha. unfold cf_add_arm in *. rewrite Ek in *. simpl in *.
    apply in_app_or in Ha. unfold greedy_arm_ok; simpl.
    destruct (aeqb b a) eqn:Eb.
    + apply aeqb_spec in Eb; subst b. rewrite !(aget_aset_same aeqb aeqb_spec). eexists; repeat split; reflexivity.
    + assert (Hne : a <> b) by (intros E; subst; rewrite (keqb_refl aeqb aeqb_spec) in Eb; discriminate).
      destruct Ha as [Ha|[Ha|[]]]; [|congruence].
      rewrite !(aget_aset_other aeqb aeqb_spec) by exact Hne. apply Harm; exact Ha.
  - (* remove_arm *)
    split; [apply (cf_remove_arm_keys_ok N aeqb); exact Hk|].
    split; [unfold cf_remove_arm; rewrite Ek; simpl; exact Ek|].
    intros a Ha. unfold cf_remove_arm in *. rewrite Ek in *. simpl in *.
    destruct Hk as (Hn & He & Hst & Hss).
    assert (Hne : a <> b) by (intros E; subst; apply (lremove_not_in aeqb aeqb_spec (c_arms s) b Hn); exact Ha).
    unfold greedy_arm_ok; simpl. rewrite !(aget_apop_other aeqb aeqb_spec) by exact Hne.
    apply Harm. eapply lremove_in; exact Ha.
Qed.


(* ---- UCB1: mean + alpha * sqrt(2 ln N / n), N = all rows since the most recent fit -------- *)
Fixpoint spec_total (t0 : Z) (rops : list cfop) : Z :=
  match rops with
  | [] => t0
  | OFit ds _ :: _ => Z.of_nat (length ds)
  | OPartial ds _ :: t => (spec_total t0 t + Z.of_nat (length ds))%Z
  | _ :: t => spec_total t0 t
  end.

Definition spec_ucb (alpha : R) (total : Z) (bs : list (list R)) : R :=
  if Z.eqb (spec_count bs) 0 then 0 else ucb_value N (spec_mean bs) alpha total (spec_count bs).

Definition ucb_arm_ok (s : cf) (bs : list (list R)) (a : A) : Prop :=
  exists st, aget aeqb (c_stats s) a = Some st /\ s_sum st = spec_sum bs /\ s_count st = spec_count bs /\
             s_mean st = spec_mean bs /\
             aget aeqb (c_exp s) a = Some (spec_ucb (c_hp s) (c_total s) bs).

Lemma ucb_fit_arm_view (s1 : cf) a ds rs st e :
  c_kind s1 = KUcb -> aget aeqb (c_stats s1) a = Some st -> aget aeqb (c_exp s1) a = Some e ->
  let ar := arm_rewards aeqb a ds rs in
  let st' := if is_nil ar then st else
             mkArmst (add N (s_sum st) (nsum N ar)) (s_count st + Z.of_nat (length ar))%Z
                     (div N (add N (s_sum st) (nsum N ar)) (of_Z N (s_count st + Z.of_nat (length ar))))
                     (s_expo st) (s_succ st) (s_fail st) in
  aget aeqb (c_stats (cf_fit_arm N aeqb s1 a ds rs)) a = Some st' /\
  aget aeqb (c_exp (cf_fit_arm N aeqb s1 a ds rs)) a =
    Some (if Z.eqb (s_count st') 0 then e else ucb_value N (s_mean st') (c_hp s1) (c_total s1) (s_count st')).
Proof.
  intros Ek Hs He ar st'. unfold cf_fit_arm. rewrite Ek. fold ar.
  unfold aget_d. rewrite Hs. fold st'.
  destruct (is_nil ar) eqn:En; subst st'; simpl.
  - destruct (Z.eqb (s_count st) 0); simpl; rewrite ?(aget_aset_same aeqb aeqb_spec); auto.
  - match goal with |- context [Z.eqb ?x 0] => destruct (Z.eqb x 0) end; simpl;
      rewrite ?(aget_aset_same aeqb aeqb_spec); auto.
Qed.

Lemma fit_arm_total (x : cf) a ds rs : c_total (cf_fit_arm N aeqb x a ds rs) = c_total x.
Proof.
  unfold cf_fit_arm. destruct (c_kind x); simpl;
    repeat match goal with |- context [if ?c then _ else _] => destruct c; simpl end; reflexivity.
Qed.

Lemma parallel_fit_total (x : cf) ds rs : c_total (cf_parallel_fit N aeqb x ds rs) = c_total x.
Proof.
  unfold cf_parallel_fit. generalize (c_arms x) as l. intros l. revert x.
  induction l as [|a l IH]; intros x; simpl; [reflexivity|]. rewrite IH. apply fit_arm_total.
Qed.

Theorem ucb_stat (s0 : cf) (rops : list cfop) :
  c_kind s0 = KUcb -> keys_ok s0 ->
  (forall a, In a (c_arms s0) -> ucb_arm_ok s0 [] a) ->
  valid_rev s0 rops ->
  let s := cf_run_rev s0 rops in
  keys_ok s /\ c_kind s = KUcb /\ c_hp s = c_hp s0 /\ c_total s = spec_total (c_total s0) rops /\
  forall a, In a (c_arms s) -> ucb_arm_ok s (batches_rev rops a) a.
Proof.
  intros Ek0 Hk0 H0. induction rops as [|o t IH]; intros Hv; simpl in *; [auto|].
  assert (Hvt : valid_rev s0 t) by (destruct o; simpl in Hv; tauto).
  destruct (IH Hvt) as (Hk & Ek & Ehp & Etot & Harm). clear IH.
  set (s := cf_run_rev s0 t) in *.
  destruct o as [ds rs | ds rs | b bz | b]; simpl.
  - (* fit *)
    split; [apply (cf_fit_keys_ok N aeqb aeqb_spec); exact Hk|].
    split; [rewrite (proj1 (cf_fit_cfg N aeqb s ds rs)); exact Ek|].
    split; [rewrite (proj1 (proj2 (cf_fit_cfg N aeqb s ds rs))); exact Ehp|].
    unfold cf_fit. rewrite Ek.
    set (s1 := set_total (reset_status (set_exp (reset_sums N s) (areset (c_exp s) 0))) (Z.of_nat (length ds))).
    destruct Hk as (Hn & He & Hst & Hss).
    split; [simpl; rewrite parallel_fit_total; reflexivity|].
    intros a Ha. simpl in Ha. rewrite (proj2 (proj2 (proj2 (proj2 (parallel_fit_cfg N aeqb s1 ds rs))))) in Ha. simpl in Ha.
    destruct (parallel_fit_arm s1 a ds rs) as [s2 (P1 & P2 & P3 & P4 & P5 & P6 & P7)]; [exact Hn | exact Ha|].
    assert (Hs1 : aget aeqb (c_stats s1) a = Some (mkArmst 0 0%Z 0 (s_expo (aget_d aeqb (armst0 N) (c_stats s) a)) (s_succ (aget_d aeqb (armst0 N) (c_stats s) a)) (s_fail (aget_d aeqb (armst0 N) (c_stats s) a)))).
    { unfold s1, reset_status, reset_sums; simpl.
      rewrite (aget_map_vals aeqb aeqb_spec (fun _ st => mkArmst 0 0%Z 0 (s_expo st) (s_succ st) (s_fail st))).
      destruct (aget_in aeqb aeqb_spec (c_stats s) a) as [st Hst']; [rewrite Hss; exact Ha|].
      unfold aget_d. rewrite Hst'. reflexivity. }
    assert (He1 : aget aeqb (c_exp s1) a = Some 0).
    { unfold s1; simpl. apply (aget_areset aeqb aeqb_spec). rewrite He; exact Ha. }
    rewrite <- P1 in Hs1. rewrite <- P2 in He1.
    destruct (ucb_fit_arm_view s2 a ds rs _ _ (eq_trans P3 Ek) Hs1 He1) as [V1 V2].
    unfold ucb_arm_ok. simpl. rewrite P6, P7, V1, V2, parallel_fit_total, P4, P5.
    rewrite (proj1 (proj2 (parallel_fit_cfg N aeqb s1 ds rs))). simpl.
    unfold spec_ucb, spec_mean. simpl.
    destruct (is_nil (arm_rewards aeqb a ds rs)) eqn:En; simpl.
    + eexists; repeat split; reflexivity.
    + pose proof (is_nil_length _ En) as Hl.
      repeat match goal with |- context [Z.eqb ?x 0] => destruct (Z.eqb_spec x 0); [lia|] end.
      eexists; repeat split; reflexivity.
  - (* partial_fit *)
    split; [apply (cf_partial_fit_keys_ok N aeqb aeqb_spec); exact Hk|].
    split; [rewrite (proj1 (cf_partial_fit_cfg N aeqb s ds rs)); exact Ek|].
    split; [rewrite (proj1 (proj2 (cf_partial_fit_cfg N aeqb s ds rs))); exact Ehp|].
    unfold cf_partial_fit. rewrite Ek.
    set (s1 := set_total s (c_total s + Z.of_nat (length ds))).
    destruct Hk as (Hn & He & Hst & Hss).
    split; [simpl; rewrite parallel_fit_total; simpl; rewrite Etot; reflexivity|].
    intros a Ha. simpl in Ha. rewrite (proj2 (proj2 (proj2 (proj2 (parallel_fit_cfg N aeqb s1 ds rs))))) in Ha. simpl in Ha.
    destruct (Harm a Ha) as [st (S1 & S2 & S3 & S5 & S4)].
    destruct (parallel_fit_arm s1 a ds rs) as [s2 (P1 & P2 & P3 & P4 & P5 & P6 & P7)]; [exact Hn | exact Ha|].
    change (c_stats s1) with (c_stats s) in P1. change (c_exp s1) with (c_exp s) in P2.
    rewrite <- P1 in S1. rewrite <- P2 in S4.
    destruct (ucb_fit_arm_view s2 a ds rs _ _ (eq_trans P3 Ek) S1 S4) as [V1 V2].
    unfold ucb_arm_ok. simpl. rewrite P6, P7, V1, V2, parallel_fit_total, P4, P5.
    rewrite (proj1 (proj2 (parallel_fit_cfg N aeqb s1 ds rs))). simpl.
    pose proof (spec_count_nonneg (batches_rev t a)) as Hnn.
    unfold spec_ucb, spec_mean in *. simpl.
    destruct (is_nil (arm_rewards aeqb a ds rs)) eqn:En; simpl.
    + rewrite S3, S5. destruct (Z.eqb (spec_count (batches_rev t a)) 0) eqn:Ec.
      * exists st; repeat split; auto.
      * exists st; repeat split; auto.
    + pose proof (is_nil_length _ En) as Hl. rewrite S2, S3.
      repeat match goal with |- context [Z.eqb ?x 0] => destruct (Z.eqb_spec x 0); [lia|] end.
      eexists; repeat split; reflexivity.
  - (* add_arm *)
    destruct Hv as [Hnot _].
    split; [apply (cf_add_arm_keys_ok N aeqb aeqb_spec); assumption|].
    unfold cf_add_arm. rewrite Ek. simpl.
    split; [exact Ek|]. split; [exact Ehp|]. split; [exact Etot|].
    intros a Ha. apply in_app_or in Ha. unfold ucb_arm_ok; simpl.
    destruct (aeqb b a) eqn:Eb.
    + apply aeqb_spec in Eb; subst b. rewrite !(aget_aset_same aeqb aeqb_spec).
      eexists; repeat split; reflexivity.
    + assert (Hne : a <> b) by (intros E; subst; rewrite (keqb_refl aeqb aeqb_spec) in Eb; discriminate).
      destruct Ha as [Ha|[Ha|[]]]; [|congruence].
      rewrite !(aget_aset_other aeqb aeqb_spec) by exact Hne. apply Harm; exact Ha.
  - (* remove_arm *)
    split; [apply (cf_remove_arm_keys_ok N aeqb); exact Hk|].
    unfold cf_remove_arm. rewrite Ek. simpl.
    split; [exact Ek|]. split; [exact Ehp|]. split; [exact Etot|].
    intros a Ha.
    destruct Hk as (Hn & He & Hst & Hss).
    assert (Hne : a <> b) by (intros E; subst; apply (lremove_not_in aeqb aeqb_spec (c_arms s) b Hn); exact Ha).
    unfold ucb_arm_ok; simpl. rewrite !(aget_apop_other aeqb aeqb_spec) by exact Hne.
    apply Harm. eapply lremove_in; exact Ha.
Qed.


(* ---- Thompson Sampling (no binarizer): Beta parameters 1 + successes, 1 + failures -------- *)
Fixpoint no_binz (rops : list cfop) : Prop :=
  match rops with
  | [] => True
  | OAdd _ (Some _) :: _ => False
  | _ :: t => no_binz t
  end.

Definition ts_arm_ok (s : cf) (bs : list (list R)) (a : A) : Prop :=
  exists st, aget aeqb (c_stats s) a = Some st /\ s_succ st = spec_succ bs /\ s_fail st = spec_fail bs.

Lemma ts_fit_arm_view (s1 : cf) a ds rs st :
  c_kind s1 = KThompson -> aget aeqb (c_stats s1) a = Some st ->
  let ar := arm_rewards aeqb a ds rs in
  aget aeqb (c_stats (cf_fit_arm N aeqb s1 a ds rs)) a =
    Some (mkArmst (s_sum st) (s_count st) (s_mean st) (s_expo st) (add N (s_succ st) (nsum N ar))
                  (add N (s_fail st) (sub N (of_Z N (Z.of_nat (length ar))) (nsum N ar)))).
Proof.
  intros Ek Hs ar. unfold cf_fit_arm. rewrite Ek. fold ar. unfold aget_d. rewrite Hs. simpl.
  apply (aget_aset_same aeqb aeqb_spec).
Qed.

Theorem thompson_params (s0 : cf) (rops : list cfop) :
  c_kind s0 = KThompson -> c_binz s0 = None -> keys_ok s0 ->
  (forall a, In a (c_arms s0) -> ts_arm_ok s0 [] a) ->
  valid_rev s0 rops -> no_binz rops ->
  let s := cf_run_rev s0 rops in
  keys_ok s /\ c_kind s = KThompson /\ c_binz s = None /\
  forall a, In a (c_arms s) -> ts_arm_ok s (batches_rev rops a) a.
Proof.
  intros Ek0 Eb0 Hk0 H0. induction rops as [|o t IH]; intros Hv Hb; simpl in *; [auto|].
  assert (Hvt : valid_rev s0 t) by (destruct o; simpl in Hv; tauto).
  assert (Hbt : no_binz t) by (destruct o as [| |? [f|]|]; simpl in Hb; tauto).
  destruct (IH Hvt Hbt) as (Hk & Ek & Ebz & Harm). clear IH.
  set (s := cf_run_rev s0 t) in *.
  destruct o as [ds rs | ds rs | b bz | b]; simpl.
  - (* fit *)
    split; [apply (cf_fit_keys_ok N aeqb aeqb_spec); exact Hk|].
    split; [rewrite (proj1 (cf_fit_cfg N aeqb s ds rs)); exact Ek|].
    split; [rewrite (proj1 (proj2 (proj2 (cf_fit_cfg N aeqb s ds rs)))); exact Ebz|].
    unfold cf_fit. rewrite Ek. unfold binarize. rewrite Ebz.
    set (s1 := reset_status (reset_counts_ts N s)).
    destruct Hk as (Hn & He & Hst & Hss).
    intros a Ha. simpl in Ha. rewrite (proj2 (proj2 (proj2 (proj2 (parallel_fit_cfg N aeqb s1 ds rs))))) in Ha. simpl in Ha.
    destruct (parallel_fit_arm s1 a ds rs) as [s2 (P1 & P2 & P3 & P4 & P5 & P6 & P7)]; [exact Hn | exact Ha|].
    assert (Hs1 : exists st1, aget aeqb (c_stats s1) a = Some st1 /\ s_succ st1 = 1 /\ s_fail st1 = 1).
    { unfold s1, reset_status, reset_counts_ts; simpl.
      rewrite (aget_map_vals aeqb aeqb_spec (fun _ st => mkArmst (s_sum st) (s_count st) (s_mean st) (s_expo st) 1 1)).
      destruct (aget_in aeqb aeqb_spec (c_stats s) a) as [st Hst']; [rewrite Hss; exact Ha|].
      rewrite Hst'. eexists; repeat split; reflexivity. }
    destruct Hs1 as [st1 (Hs1 & Hsu & Hfa)]. rewrite <- P1 in Hs1.
    pose proof (ts_fit_arm_view s2 a ds rs _ (eq_trans P3 Ek) Hs1) as V1.
    unfold ts_arm_ok. simpl. rewrite P6, V1. eexists; repeat split; simpl; rewrite ?Hsu, ?Hfa; reflexivity.
  - (* partial_fit *)
    split; [apply (cf_partial_fit_keys_ok N aeqb aeqb_spec); exact Hk|].
    split; [rewrite (proj1 (cf_partial_fit_cfg N aeqb s ds rs)); exact Ek|].
    split; [rewrite (proj1 (proj2 (proj2 (cf_partial_fit_cfg N aeqb s ds rs)))); exact Ebz|].
    unfold cf_partial_fit. rewrite Ek. unfold binarize. rewrite Ebz.
    destruct Hk as (Hn & He & Hst & Hss).
    intros a Ha. simpl in Ha. rewrite (proj2 (proj2 (proj2 (proj2 (parallel_fit_cfg N aeqb s ds rs))))) in Ha.
    destruct (Harm a Ha) as [st (S1 & S2 & S3)].
    destruct (parallel_fit_arm s a ds rs Hn Ha) as [s2 (P1 & P2 & P3 & P4 & P5 & P6 & P7)].
    rewrite <- P1 in S1.
    pose proof (ts_fit_arm_view s2 a ds rs _ (eq_trans P3 Ek) S1) as V1.
    unfold ts_arm_ok. simpl. rewrite P6, V1. eexists; repeat split; simpl; rewrite ?S2, ?S3; reflexivity.
  - (* add_arm *)
    destruct Hv as [Hnot _]. destruct bz as [f|]; [simpl in Hb; contradiction|].
    split; [apply (cf_add_arm_keys_ok N aeqb aeqb_spec); assumption|].
    unfold cf_add_arm. rewrite Ek. simpl.
    split; [exact Ek|]. split; [exact Ebz|].
    intros a Ha. apply in_app_or in Ha. unfold ts_arm_ok; simpl.
    destruct (aeqb b a) eqn:Eb.
    + apply aeqb_spec in Eb; subst b. rewrite !(aget_aset_same aeqb aeqb_spec). eexists; repeat split; reflexivity.
    + assert (Hne : a <> b) by (intros E; subst; rewrite (keqb_refl aeqb aeqb_spec) in Eb; discriminate).
      destruct Ha as [Ha|[Ha|[]]]; [|congruence].
      rewrite !(aget_aset_other aeqb aeqb_spec) by exact Hne. apply Harm; exact Ha.
  - (* remove_arm *)
    split; [apply (cf_remove_arm_keys_ok N aeqb); exact Hk|].
    unfold cf_remove_arm. rewrite Ek. simpl.
    split; [exact Ek|]. split; [exact Ebz|].
    intros a Ha. destruct Hk as (Hn & He & Hst & Hss).
    assert (Hne : a <> b) by (intros E; subst; apply (lremove_not_in aeqb aeqb_spec (c_arms s) b Hn); exact Ha).
    unfold ts_arm_ok; simpl. rewrite !(aget_apop_other aeqb aeqb_spec) by exact Hne.
    apply Harm. eapply lremove_in; exact Ha.
Qed.

(* ---- Softmax: the max-shifted soft-max of the arm means, by definition of the recomputation -- *)
Theorem softmax_expectation_formula (s : cf) a :
  In a (akeys (c_exp s)) ->
  let s' := softmax_expectation N aeqb s in
  let maxm := pymax N (map (fun kv => s_mean (snd kv)) (c_stats s)) in
  let e := fun st => exp N (div N (sub N (s_mean st) maxm) (c_hp s)) in
  aget aeqb (c_exp s') a =
    Some (div N (e (aget_d aeqb (armst0 N) (c_stats s) a) )
                (psum N (map (fun kv => e (snd kv)) (c_stats s)))) \/
  aget aeqb (c_stats s) a = None.
Proof.
  intros Hin s' maxm e.
  destruct (aget aeqb (c_stats s) a) as [st|] eqn:Es; [left | right; reflexivity].
  unfold s', softmax_expectation; simpl.
  rewrite (aget_map_vals aeqb aeqb_spec
     (fun k _ => div N (s_expo (aget_d aeqb (armst0 N) (map (fun kv => (fst kv, mkArmst (s_sum (snd kv)) (s_count (snd kv)) (s_mean (snd kv)) (e (snd kv)) (s_succ (snd kv)) (s_fail (snd kv)))) (c_stats s)) k))
                      (psum N (map (fun kv => s_expo (snd kv)) (map (fun kv => (fst kv, mkArmst (s_sum (snd kv)) (s_count (snd kv)) (s_mean (snd kv)) (e (snd kv)) (s_succ (snd kv)) (s_fail (snd kv)))) (c_stats s)))))).
  destruct (aget_in aeqb aeqb_spec (c_exp s) a Hin) as [v Hv]. rewrite Hv.
  f_equal. f_equal.
  - unfold aget_d.
    rewrite (aget_map_vals aeqb aeqb_spec (fun _ st0 => mkArmst (s_sum st0) (s_count st0) (s_mean st0) (e st0) (s_succ st0) (s_fail st0))).
    rewrite Es. reflexivity.
  - rewrite map_map. reflexivity.
Qed.

End CFSpec.
